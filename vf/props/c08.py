"""C08 — task-spec conversion and execution preserve the graph's meaning.

Monitor.  A case is a *program* in the harness term language of ``vf/gen/c08_legacy.py``.
It is emitted either as a raw legacy graph (nested calls, raw lists, raw dicts as
arguments / graph values, tuple keys, ``(literal(v),)`` / ``quote(v)`` wrapped values,
key-like literals, raw tuples and namedtuples, sets, empty containers, aliases to
aliases, ``(apply, f, [..], {..})`` keyword calls, equal-but-not-identical spellings of a
key such as ``1.0`` for key ``1``) or as a hand-built task-spec graph (Task, Alias,
DataNode, TaskRef, nested ``Task(None, ..)``, List/Tuple/Set/Dict built directly or through
``parse_input``, kwargs).  The reference value of every key is computed by the harness
evaluator from the terms under exactly the rules of the statement (tuples headed by a
callable are calls, lists and dicts are evaluated elementwise, hashable values equal to a
key are references, everything else is itself); a second, independent evaluator applies
the same three rules to the *emitted raw graph* and must agree with the first (self check of
the emitter; a disagreement is a harness error, never a verdict).

Observed on every program
 1. node level ("local"): every converted node ``convert_legacy_graph(dsk)[k]`` (resp. every
    hand-built node, including nested containers / nested tasks) is called on the REFERENCE
    values of the other keys and must return the reference value of ``k`` — a wrong node never
    cascades into its dependents;
 2. ``node.dependencies`` == the keys the term references;
 3. ``pickle`` and ``cloudpickle`` round trips of every node keep ``key``, ``dependencies`` and
    the value computed on the same inputs;
 4. whole graph: ``dask.core.get``, ``dask.get`` (synchronous scheduler) and
    ``execute_graph(convert_legacy_graph(dsk))`` for all keys, plus ``core.get`` for a random
    nested request, equal the reference on every key that is not downstream of a node that
    already failed 1/2.

Raw tuples that are neither calls nor keys get no rule from the statement; legacy programs
therefore only contain such tuples (and namedtuples / sets) with inert contents, for which
"itself" and "elementwise" coincide; the type of the value must survive.

Calibration (unchanged tree)
----------------------------
* ``dask.core.literal`` has no ``__eq__``: the structural comparison compares ``.data``.
* ``List(x)`` with a single raw python list ``x`` means "build from x", so container literals inside
  hand-built containers are always wrapped in ``DataNode``.
* ``dask.core.get(dsk, key)`` with a bare tuple / int key iterates the key (``flatten``) and raises
  KeyError / TypeError; the statement is about values, not request forms: single-key requests are bare only
  for string keys, otherwise ``[key]``.
* Hashable values equal to a key but of a type other than int/float/str/tuple (``complex(1)``, ``numpy.int64(1)`` for key
  ``1``) are not looked up by ``convert_legacy_task``; by the statement they are references.  Genuine under the strict
  reading (PENDING, third label); generated only in 3 % of the random legacy programs (``exotic_spelling_programs``).
* A raw dict inside a legacy task is not evaluated by dask although the statement says "dicts are
  evaluated elementwise": genuine, see PENDING / findings_proposed/C08.md.  Programs that put a key
  reference, a call or a quoted literal inside a raw dict are a small, separately counted fraction
  (``dictactive_programs``), and the alarm is classified by replaying the term under "this dict is left
  as it is" (classification only; the verdict comes from the reference).
"""
from __future__ import annotations

import itertools
import pickle
import random

PROP = "C08"
RULE = ("cases = term programs (DAG of nodes; node = raw legacy value built from calls, raw lists/dicts/tuples, quoted "
        "literals, key references in 7 key styles) emitted as raw legacy graph or as hand-built task-spec graph (explicit "
        "containers or parse_input); complete space first: every DAG shape on n<=2 (quick) / n<=3 (thorough) nodes x every "
        "one of 9 leaf forms / 14 reference-wrapping forms per node x {legacy, spec} x {str, tuple} keys; then seeded random "
        "programs of 1-9 nodes (families random/chain/fan/diamond/alias chain); non-trivial = at least one reference and "
        "one container/nested-call/quoted construct; distinct = distinct (terms, key style, emission)")
ASSUMPTIONS = ["the harness term evaluator and the three-rule raw-graph evaluator (both dask-free) define the meaning",
               "dask.utils.apply(f, args, kwargs) == f(*args, **kwargs); dask.core.literal(v)() == v",
               "raw non-call tuples/namedtuples/sets are only generated with inert contents (the statement gives them no rule)"]
BUDGET = {"quick": 90, "thorough": 600}
FLOORS = {
    # measured on the unchanged tree (quick, seeds 0/1/2/7/12345): 3864 programs, ~3000 distinct non-trivial, 14.9k nodes,
    # 22.4k pickle + 22.4k cloudpickle round trips, 11.6k whole-graph runs, 44k keys compared; thorough: 103k programs
    "quick": {"evaluations": 1800, "distinct_nontrivial": 1400, "max_skipped_fraction": 0.2,
              "counters": {"programs_legacy": 1000, "programs_spec": 700, "emitter_selfchecks": 1000,
                           "nodes_checked": 6500, "dependency_checks": 6500, "local_evaluations": 6500,
                           "pickle_roundtrips": 10000, "cloudpickle_roundtrips": 10000,
                           "whole_graph_runs": 5000, "keys_compared": 20000, "nested_requests": 1700,
                           "nested_nodes_checked": 1400, "programs_without_active_dict": 900, "dictactive_programs": 50},
              "sets": {"converted_classes": 5, "nested_classes": 4}},
    "thorough": {"evaluations": 50000, "distinct_nontrivial": 40000, "max_skipped_fraction": 0.2,
                 "counters": {"programs_legacy": 27000, "programs_spec": 21000, "emitter_selfchecks": 27000,
                              "nodes_checked": 180000, "dependency_checks": 180000, "local_evaluations": 180000,
                              "pickle_roundtrips": 270000, "cloudpickle_roundtrips": 270000,
                              "whole_graph_runs": 140000, "keys_compared": 500000, "nested_requests": 48000,
                              "nested_nodes_checked": 48000, "programs_without_active_dict": 21000,
                              "dictactive_programs": 4500},
                 "sets": {"converted_classes": 5, "nested_classes": 4}},
}
EXHAUSTIVE_SPACE = {
    "quick": "all DAG shapes on n<=2 topologically numbered nodes x all 9 leaf forms / 14 reference-wrapping forms per node "
             "x {legacy, task-spec} emission x {str, tuple} keys (864 programs)",
    "thorough": "all DAG shapes on n<=3 topologically numbered nodes x all 9 leaf forms / 14 reference-wrapping forms per "
                "node x {legacy, task-spec} emission x {str, tuple} keys (43 092 programs)",
}
LEVEL_NOTE = "trusts the two harness evaluators (they must agree with each other on every legacy program) and python's pickle"
CLAIM = ("Every node of every generated program was evaluated in isolation on reference inputs, its reported dependencies "
         "compared with the referenced keys, pickled and cloudpickled, and the whole graph was executed through dask.core.get, "
         "dask.get and execute_graph; all compared with a dask-free evaluator implementing the three rules of the statement. "
         "Held means no counterexample among these executions, apart from the listed known findings.")
TECHNIQUE = "runtime monitoring: reference-model oracle (term evaluator) on conversion, node call, dependencies, pickling and three executors"

LABEL_A = "legacy-dict-argument:key-or-call-inside-dict-value:not-evaluated"
LABEL_B = "legacy-dict-elsewhere:key-or-call-inside-dict-value:not-evaluated"
LABEL_C = "legacy-key-reference:equal-value-of-type-outside-int-float-str-tuple:not-a-reference"
MECH_LABEL = {"arg": LABEL_A, "elsewhere": LABEL_B, "exotic": LABEL_C}
PENDING = {
    LABEL_A: "a raw dict passed as a direct argument of a legacy task tuple (incl. the kwargs dict of (apply, f, args, {..})) is "
             "wrapped as Dict(a) without converting its values: keys / calls / quoted literals inside are neither evaluated "
             "nor dependencies, e.g. (f, {'a': 'k0'}) calls f({'a': 'k0'})",
    LABEL_B: "a raw dict that is a graph value or sits inside a list ({'k': {'a': 'k0'}}, (f, [{'a': 'k0'}])) is returned "
             "unchanged by convert_legacy_task: same symptom through the fall-through branch",
    LABEL_C: "convert_legacy_task only looks up int/float/str/tuple instances in the key set: a hashable value of another type "
             "that equals a key (complex(1), numpy.int64(1) for key 1) stays a literal, e.g. {1: 'one', 'a': (f, np.int64(1))}",
}

QUICK_RANDOM = 3000
THOROUGH_RANDOM = 60000


def cases(tier, seed):
    from vf.gen import c08_legacy as L

    nmax = 2 if tier == "quick" else 3
    for n, mask, variants in L.small_space(nmax):
        for mode in ("legacy", "spec"):
            for style in ("str", "tuple"):
                yield {"space": "exhaustive", "n": n, "mask": mask, "v": variants, "style": style, "mode": mode}
    rng = random.Random(seed * 10007 + 8)
    k = QUICK_RANDOM if tier == "quick" else THOROUGH_RANDOM
    for _ in range(k):
        r = rng.random()
        mode = "legacy" if r < 0.6 else ("spec" if r < 0.8 else "specparse")
        yield {"seed": rng.randrange(2 ** 31), "n": rng.choice((1, 2, 3, 3, 4, 4, 5, 6, 7, 9)),
               "style": rng.choice(L.KEY_STYLES), "mode": mode,
               "da": bool(mode == "legacy" and rng.random() < 0.07), "fam": rng.choice(L.FAMILIES),
               "ex": bool(mode == "legacy" and rng.random() < 0.03)}


def _build(case):
    from vf.gen import c08_legacy as L

    if case.get("space") == "exhaustive":
        return L.small_prog(case["n"], case["mask"], case["v"], case["style"], case["mode"])
    return L.random_prog(case["seed"], case["n"], case["style"], case["mode"], dictactive=case["da"], family=case["fam"],
                         exotic=case.get("ex", False))


def _subsets(s):
    s = sorted(s)
    for r in range(1, len(s) + 1):
        for c in itertools.combinations(s, r):
            yield frozenset(c)


class _Local:
    """node-level observations shared by the legacy and the task-spec path"""

    def __init__(self, ctx, prefix, allvals):
        self.ctx = ctx
        self.prefix = prefix
        self.allvals = allvals

    def call(self, node, what, feat):
        try:
            return True, node(self.allvals)
        except Exception as e:  # noqa: BLE001
            self.ctx.exception(e, prefix="%s%s:%s" % (self.prefix, what, feat))
            return False, None

    def pickles(self, node, got, feat):
        """pickle / cloudpickle round trips keep key, dependencies and the computed value"""
        import cloudpickle

        from vf.gen.c08_legacy import same

        ctx = self.ctx
        for nm, dumps, loads in (("pickle", pickle.dumps, pickle.loads), ("cloudpickle", cloudpickle.dumps, cloudpickle.loads)):
            try:
                n2 = loads(dumps(node))
            except Exception as e:  # noqa: BLE001
                ctx.exception(e, prefix="%s%s:%s" % (self.prefix, nm, feat))
                continue
            ctx.count(nm + "_roundtrips")
            try:
                k2, d2 = n2.key, n2.dependencies
            except Exception as e:  # noqa: BLE001
                ctx.exception(e, prefix="%s%s-attributes:%s" % (self.prefix, nm, feat))
                continue
            if not same(k2, node.key):
                ctx.violation("%s%s:%s:key-changed" % (self.prefix, nm, feat), "key %r -> %r" % (node.key, k2))
            if set(d2) != set(node.dependencies):
                ctx.violation("%s%s:%s:dependencies-changed" % (self.prefix, nm, feat),
                              "dependencies %r -> %r for %r" % (sorted(map(repr, node.dependencies)), sorted(map(repr, d2)), node))
            ok, got2 = self.call(n2, nm + "-call", feat)
            if ok and not same(got2, got):
                ctx.violation("%s%s:%s:value-changed" % (self.prefix, nm, feat),
                              "node %r computes %r, after the round trip %r" % (node, got, got2))


def run_case(case, ctx):
    from vf.gen import c08_legacy as L

    prog = _build(case)
    try:
        val = prog.evaluate()
    except TypeError as e:
        ctx.reject("python refuses the program: %s" % e)
        return
    mode = case["mode"]
    tags = set()
    for t in prog.terms:
        L.tags_of(t, tags)
    for t in tags:
        ctx.op(mode + ":" + t)
    ctx.op("keys:" + case["style"])
    ctx.count("programs_" + ("legacy" if mode == "legacy" else "spec"))
    ctx.count("nodes", prog.n)
    nrefs = sum(len(prog.deps(i)) for i in range(prog.n))
    ctx.nontrivial = bool(nrefs and tags - {"ref"})
    ctx.sig = (mode, case["style"], [L.describe(t) for t in prog.terms], [repr(k) for k in prog.keys])
    if mode == "legacy":
        _run_legacy(case, ctx, prog, val)
    else:
        _run_spec(case, ctx, prog, val, parse=(mode == "specparse"))


def _request(rng, keys):
    r = rng.random()
    if r < 0.3:
        k = rng.choice(keys)
        # core.get iterates a bare non-string key (flatten): request forms are not the subject of C08
        return k if isinstance(k, str) else [k]
    flat = [rng.choice(keys) for _ in range(rng.randint(1, min(4, len(keys))))]
    if r < 0.65:
        return flat
    cut = rng.randint(0, len(flat))
    return [flat[:cut], flat[cut:], [[rng.choice(keys)]]]


def _pack(req, byk):
    if isinstance(req, list):
        return tuple(_pack(r, byk) for r in req)
    return byk[req]


def _flat(req, out):
    if isinstance(req, list):
        for r in req:
            _flat(r, out)
    else:
        out.append(req)
    return out


def _whole(ctx, prefix, dsk, converted, prog, val, tainted, rng_seed):
    """whole-graph executions; keys downstream of an already reported node are not judged again"""
    import dask
    from dask import core
    from dask._task_spec import execute_graph
    from vf.gen.c08_legacy import same

    keys = prog.keys
    idx = {i: k for i, k in enumerate(keys)}
    runs = []

    def r_core():
        return dict(zip(range(prog.n), core.get(dsk, list(keys))))

    def r_sync():
        return dict(zip(range(prog.n), dask.get(dsk, list(keys))))

    def r_exec():
        out = execute_graph(dict(converted))
        return {i: out[k] for i, k in idx.items()}

    for name, fn in (("core.get", r_core), ("dask.get", r_sync), ("execute_graph", r_exec)):
        try:
            res = fn()
        except Exception as e:  # noqa: BLE001
            if tainted:
                ctx.count("whole_graph_exception_on_tainted_program")
            ctx.exception(e, prefix=prefix + name)
            continue
        ctx.count("whole_graph_runs")
        runs.append(name)
        for i in range(prog.n):
            if i in tainted:
                ctx.count("tainted_keys_skipped")
                continue
            ctx.count("keys_compared")
            if not same(res[i], val[i]):
                ctx.violation("%s%s:%s:value-differs-although-node-evaluates-right" % (prefix, name, L_kind(prog, i)),
                              "key %r: %s gives %r, reference %r; terms %r"
                              % (keys[i], name, res[i], val[i], [describe_i(prog, j) for j in range(prog.n)]))
                break
    # a nested request through core.get (intermediate values are released during execution)
    rng = random.Random(rng_seed)
    req = _request(rng, list(keys))
    kidx = {}
    for i, k in enumerate(keys):
        kidx[k] = i
    flat = _flat(req, [])
    if not any(kidx[k] in tainted for k in flat):
        try:
            got = core.get(dsk, req)
            ctx.count("nested_requests")
            want = _pack(req, {k: val[kidx[k]] for k in flat})
            if not same(got, want):
                ctx.violation("%score.get:nested-request:value" % prefix, "request %r gives %r, reference %r" % (req, got, want))
        except Exception as e:  # noqa: BLE001
            ctx.exception(e, prefix=prefix + "core.get:nested-request")


def L_kind(prog, i):
    from vf.gen.c08_legacy import node_kind

    return node_kind(prog.terms[i])


def describe_i(prog, i):
    from vf.gen.c08_legacy import describe

    return "%r=%s" % (prog.keys[i], describe(prog.terms[i]))


def _downstream(prog, bad):
    out = set(bad)
    for i in range(prog.n):
        if prog.deps(i) & out:
            out.add(i)
    return out


def _run_legacy(case, ctx, prog, val):
    from dask._task_spec import convert_legacy_graph
    from vf.gen import c08_legacy as L

    same = L.same
    keys = prog.keys
    dsk = prog.legacy(order_seed=case.get("seed", 0) % 1000003)
    # ---- self check of the emitter: the three rules on the raw graph == the term evaluator ----------
    raw = L.raw_eval(dsk)
    for i, k in enumerate(keys):
        if not same(raw[k], val[i]):
            raise AssertionError("harness: raw-graph evaluation %r != term evaluation %r for %s"
                                 % (raw[k], val[i], describe_i(prog, i)))
    ctx.count("emitter_selfchecks")
    blocked = {i: L.dict_blocked(prog.terms[i]) for i in range(prog.n)}
    if any(blocked.values()):
        ctx.count("dictactive_programs")
    else:
        ctx.count("programs_without_active_dict")
    nex = 0
    for i in range(prog.n):
        if L.has_exotic(prog.terms[i]):
            blocked[i] = blocked[i] | {"exotic"}
            nex += 1
    if nex:
        ctx.count("exotic_spelling_programs")
    try:
        new = convert_legacy_graph(dsk)
    except Exception as e:  # noqa: BLE001
        ctx.exception(e, prefix="convert_legacy_graph")
        return
    allvals = {k: val[i] for i, k in enumerate(keys)}
    loc = _Local(ctx, "", allvals)
    bad = set()
    for i, k in enumerate(keys):
        term = prog.terms[i]
        kind = L.node_kind(term)
        if k not in new:
            ctx.violation("convert:%s:key-missing-from-converted-graph" % kind, "key %r (%s)" % (k, describe_i(prog, i)))
            bad.add(i)
            continue
        node = new[k]
        ctx.count("nodes_checked")
        ctx.distinct("converted_classes", (kind, type(node).__name__))
        # ---- 2. dependencies ------------------------------------------------------------------------
        want_deps = {keys[j] for j in prog.deps(i)}
        ctx.count("dependency_checks")
        got_deps = set(node.dependencies)
        deps_ok = got_deps == want_deps
        # ---- 1. the node on reference inputs -----------------------------------------------------------
        ok, got = loc.call(node, "node-call", kind)
        ctx.count("local_evaluations")
        val_ok = ok and same(got, val[i])
        if not ok:
            bad.add(i)
        elif not (deps_ok and val_ok):
            bad.add(i)
            labels = None
            if blocked[i]:
                # classification only: which "dict left as it is" reading reproduces what was observed?
                for S in sorted(_subsets(blocked[i]), key=len):
                    try:
                        v_s = prog.ev(term, val, frozen=S)
                        d_s = {keys[j] for j in prog.deps_frozen(term, S)}
                    except Exception:  # noqa: BLE001
                        continue
                    if same(got, v_s) and got_deps == d_s:
                        labels = [MECH_LABEL[m] for m in sorted(S)]
                        break
            if labels:
                ctx.count("known_mechanism_nodes")
                for lab in labels:
                    ctx.violation(lab, "%s: node gives %r with dependencies %r; reference value %r, referenced keys %r"
                                  % (describe_i(prog, i), got, sorted(map(repr, got_deps)), val[i], sorted(map(repr, want_deps))),
                                  raw=repr(dsk[k])[:300])
            else:
                if not deps_ok:
                    sym = "missing" if want_deps - got_deps else "extra"
                    ctx.violation("dependencies:%s:%s-key" % (kind, sym),
                                  "%s raw=%r: dependencies %r, referenced keys %r"
                                  % (describe_i(prog, i), dsk[k], sorted(map(repr, got_deps)), sorted(map(repr, want_deps))))
                if not val_ok:
                    ctx.violation("node-call:%s:value" % kind,
                                  "%s raw=%r: converted node %r gives %r on reference inputs, reference %r"
                                  % (describe_i(prog, i), dsk[k], node, got, val[i]))
        # ---- 3. pickling ---------------------------------------------------------------------------------
        if ok:
            loc.pickles(node, got, kind)
    tainted = _downstream(prog, bad)
    _whole(ctx, "", dsk, new, prog, val, tainted, case.get("seed", 1))
    ctx.sample = {"graph": {repr(k): repr(v)[:120] for k, v in list(dsk.items())[:4]},
                  "reference": {repr(keys[i]): repr(val[i])[:80] for i in range(min(4, prog.n))},
                  "dict_blocked_nodes": sorted(i for i in blocked if blocked[i])}


def _walk(node, seen=None):
    """nested GraphNodes of a hand-built node"""
    from dask._task_spec import GraphNode, Task

    out = []
    if isinstance(node, Task):
        for a in list(node.args) + list(node.kwargs.values()):
            if isinstance(a, GraphNode):
                out.append(a)
                out.extend(_walk(a))
    return out


def _run_spec(case, ctx, prog, val, parse):
    from dask._task_spec import convert_legacy_graph
    from vf.gen import c08_legacy as L

    same = L.same
    keys = prog.keys
    try:
        dsk, built = prog.spec(parse=parse, order_seed=case.get("seed", 0) % 1000003)
    except Exception as e:  # noqa: BLE001
        ctx.exception(e, prefix="spec-build")
        return
    allvals = {k: val[i] for i, k in enumerate(keys)}
    loc = _Local(ctx, "spec-", allvals)
    bad = set()
    for i, k in enumerate(keys):
        node = dsk[k]
        cls = type(node).__name__
        ctx.count("nodes_checked")
        want_deps = {keys[j] for j in prog.deps(i)}
        ctx.count("dependency_checks")
        got_deps = set(node.dependencies)
        if got_deps != want_deps:
            bad.add(i)
            ctx.violation("spec-dependencies:%s:%s-key" % (cls, "missing" if want_deps - got_deps else "extra"),
                          "%s -> %r (parse_input=%s): dependencies %r, referenced keys %r"
                          % (describe_i(prog, i), node, parse, sorted(map(repr, got_deps)), sorted(map(repr, want_deps))))
        ok, got = loc.call(node, "node-call", cls)
        ctx.count("local_evaluations")
        if not ok:
            bad.add(i)
            continue
        if not same(got, val[i]):
            bad.add(i)
            ctx.violation("spec-node-call:%s:value" % cls,
                          "%s -> %r (parse_input=%s) gives %r on reference inputs, reference %r"
                          % (describe_i(prog, i), node, parse, got, val[i]))
        loc.pickles(node, got, cls)
        # nested nodes met inside (containers, nested tasks, aliases, data nodes): pickling
        for sub in _walk(node)[:6]:
            okk, g2 = loc.call(sub, "nested-node-call", type(sub).__name__)
            if okk:
                ctx.count("nested_nodes_pickled")
                loc.pickles(sub, g2, "nested-" + type(sub).__name__)
    # nested nodes whose term is known: dependencies and value against the reference
    for term, obj in built:
        cls = type(obj).__name__
        ctx.count("nested_nodes_checked")
        ctx.distinct("nested_classes", cls)
        want = {keys[j] for j in L.refs_of(term)}
        if set(obj.dependencies) != want:
            ctx.violation("spec-dependencies:nested-%s:%s-key" % (cls, "missing" if want - set(obj.dependencies) else "extra"),
                          "%s -> %r: dependencies %r, referenced keys %r"
                          % (L.describe(term), obj, sorted(map(repr, obj.dependencies)), sorted(map(repr, want))))
        okk, g2 = loc.call(obj, "nested-node-call", cls)
        if okk:
            ref_v = prog.ev(term, val)
            if not same(g2, ref_v):
                ctx.violation("spec-node-call:nested-%s:value" % cls,
                              "%s -> %r gives %r, reference %r" % (L.describe(term), obj, g2, ref_v))
    tainted = _downstream(prog, bad)
    try:
        conv = convert_legacy_graph(dsk)
    except Exception as e:  # noqa: BLE001
        ctx.exception(e, prefix="spec-convert_legacy_graph")
        return
    _whole(ctx, "spec-", dsk, conv, prog, val, tainted, case.get("seed", 1))
    ctx.sample = {"graph": {repr(k): repr(v)[:120] for k, v in list(dsk.items())[:4]},
                  "reference": {repr(keys[i]): repr(val[i])[:80] for i in range(min(4, prog.n))}}
