"""C18 — size and duration helpers round-trip and meet their documented bounds.

Monitor: every call of the real ``dask.utils.format_bytes`` / ``parse_bytes`` /
``parse_timedelta`` / ``key_split`` / ``natural_sort_key`` made on the generated
inputs is checked against harness-side arithmetic:

* ``format_bytes(n)``: ``len(out) <= 10`` for every ``0 <= n < 2**60`` (docstring);
  ``parse_bytes(out)`` is within half a unit of the precision *printed in out*
  (worked out from the output string: number of decimals x the unit named in
  it, per the harness's own unit table) plus 1 byte (``parse_bytes`` is
  documented to return an ``int``: truncation), so the demand is never stricter
  than "within its printed precision".
* ``parse_bytes("<num><unit>")`` / ``parse_timedelta("<num><unit>")`` for every
  unit spelling of the harness's own table (the docstring examples, the
  "Valid units are" message and the SI/IEC meaning of the prefixes), every
  letter-case variant, numeric prefixes (ints, decimals, exponents) with and
  without a space: equals ``Fraction(num) * multiplier`` (exact rational
  arithmetic on the harness side; bytes: integer truncation allowed, 1e-9
  relative tolerance for the float product).
* ``key_split(key)`` returns a ``str`` and never raises on hashable keys
  (str / bytes / tuple / None / numbers / objects); ``natural_sort_key(s)``
  returns a list (or tuple) whose parts are ``str`` or ``int`` and never raises
  on strings; on ``prefix+digits`` names the keys order numerically (the
  docstring example).

Calibration (unchanged tree)
----------------------------
* The strict half-unit bound fired on ``n = 1274019`` (``1.21 MiB`` parses to
  ``int(1.21 * 2**20) = 1268776``; distance 5243 > 5242.88): the excess is the
  integer truncation of ``parse_bytes``, not a loss of printed precision ->
  false alarm, bound is now half a printed unit + 1 byte.
* The bound then fired at the x.xx5 edges of the PiB band (``n = 112584361184728185``
  prints ``100.00 PiB`` although ``n / 2**50`` is 1.9 bytes below 99.995): ``n / k``
  is a float division and integers above 2**53 are not representable -> false
  alarm (float rounding), slack ``n * 2**-50`` bytes (< 1 kiB) added; the
  classifier of the length finding got the same 1 kiB margin.
* ``natural_sort_key`` is documented in prose as returning a tuple but is
  annotated and implemented as a list: the shape check accepts both.
* Genuine defects observed and recorded in ``PENDING`` (see
  /verif/findings_proposed/C18.md): 11-character output from 999.995 PiB,
  ``parse_timedelta('.5s') == 1.5``, ``key_split`` raising on ``()`` and on
  non-UTF-8 bytes, ``natural_sort_key`` raising on digit characters that are
  not decimal (``'²'``).
"""
from __future__ import annotations

import itertools
import random
from fractions import Fraction

PROP = "C18"
RULE = ("cases = batches of inputs: (a) format_bytes on complete integer lists (all n < 2**17, every band "
        "boundary k*0.9 and k with +-2, every rounding edge x.xx5*k +-1 of every band (strided in quick except the "
        "kiB band), top of each band, powers of two and ten +-1) and seeded random integers in [0, 2**60) drawn "
        "log-uniformly and uniformly; (b) the full product unit spelling x letter-case variant x numeric prefix x "
        "spacing for parse_bytes and parse_timedelta plus random numeric prefixes; (c) random keys/strings for "
        "key_split and natural_sort_key. non-trivial = batch produced at least one checked call; distinct = "
        "distinct batch descriptions")
ASSUMPTIONS = ["Python int/Fraction arithmetic and the harness's own unit tables (SI/IEC byte prefixes, time units) are the reference",
               "keys handed to key_split are hashable (it is an lru_cache'd function)"]
BUDGET = {"quick": 45, "thorough": 420}
FLOORS = {
    "quick": {"evaluations": 120, "distinct_nontrivial": 120,
              "counters": {"format_calls": 260000, "roundtrip_checks": 260000, "len_checks": 260000,
                           "rounding_edge_values": 180000, "boundary_values": 280,
                           "parse_bytes_unit_checks": 4000, "parse_timedelta_unit_checks": 7500,
                           "key_split_calls": 5500, "natural_sort_key_calls": 7500},
              "sets": {"unit_spellings": 46}},
    "thorough": {"evaluations": 4800, "distinct_nontrivial": 4800,
                 "counters": {"format_calls": 2000000, "roundtrip_checks": 2000000, "len_checks": 2000000,
                              "rounding_edge_values": 850000, "boundary_values": 280, "random_ints": 700000,
                              "parse_bytes_unit_checks": 200000, "parse_timedelta_unit_checks": 210000,
                              "key_split_calls": 400000, "natural_sort_key_calls": 540000},
                 "sets": {"unit_spellings": 46}},
}
EXHAUSTIVE_SPACE = {
    "quick": ("format_bytes: every integer 0 <= n < 2**17; every band boundary floor/ceil(k*0.9)+-2 and k+-2 for the 5 "
              "bands; every rounding edge floor/ceil((2j+1)*0.005*k)+-1 of the kiB band and every 37th of the other "
              "bands; the 4 values below each next-band threshold and below 2**60; 2**e-1, 2**e, 2**e+1 for e<=60 and "
              "10**e-1, 10**e, 10**e+1 for e<=18 (all < 2**60). parse_bytes / parse_timedelta: every unit spelling of the "
              "harness table x every letter-case variant (<= 64 per unit: all for units of <= 6 letters, else lower/"
              "upper/title/alternating) x 16 fixed numeric prefixes x {no space, one space}"),
    "thorough": ("as quick, with every rounding edge floor/ceil((2j+1)*0.005*k)+-1 of all 5 bands (about 92 000 edges per band) "
                 "and every integer 0 <= n < 2**20"),
}
LEVEL_NOTE = "trusts Python integer/Fraction arithmetic and the harness's unit tables; no dask code is used on the oracle side"
CASE_TIMEOUT = 120

BANDS = (("ki", 2 ** 10), ("Mi", 2 ** 20), ("Gi", 2 ** 30), ("Ti", 2 ** 40), ("Pi", 2 ** 50))
TOP = 2 ** 60

# ---- the harness's own unit tables ------------------------------------------------
BYTE_UNITS = {"": 1, "B": 1}
for _p, _e in (("k", 1), ("M", 2), ("G", 3), ("T", 4), ("P", 5)):
    BYTE_UNITS[_p + "B"] = 10 ** (3 * _e)
    BYTE_UNITS[_p] = 10 ** (3 * _e)
    _ip = ("K" if _p == "k" else _p) + "i"
    BYTE_UNITS[_ip + "B"] = 2 ** (10 * _e)
    BYTE_UNITS[_ip] = 2 ** (10 * _e)

TIME_UNITS = {"s": Fraction(1), "ms": Fraction(1, 10 ** 3), "us": Fraction(1, 10 ** 6), "ns": Fraction(1, 10 ** 9),
              "m": Fraction(60), "h": Fraction(3600), "d": Fraction(86400), "w": Fraction(7 * 86400)}
for _w, _v in (("second", Fraction(1)), ("minute", Fraction(60)), ("hour", Fraction(3600)), ("day", Fraction(86400)),
               ("week", Fraction(7 * 86400)), ("millisecond", Fraction(1, 10 ** 3)),
               ("microsecond", Fraction(1, 10 ** 6)), ("nanosecond", Fraction(1, 10 ** 9))):
    TIME_UNITS[_w] = _v
    TIME_UNITS[_w + "s"] = _v

# numeric prefixes: (text, feature class)
FIXED_NUMS = [("0", "int"), ("1", "int"), ("5", "int"), ("100", "int"), ("1234", "int"), ("007", "int"),
              ("5.4", "decimal"), ("0.5", "decimal"), ("12.25", "decimal"), ("3.", "decimal"), ("0.001", "decimal"),
              (".5", "leading-dot"),
              ("1e3", "exponent"), ("1E3", "exponent"), ("2.5e2", "exponent"), ("1e-1", "exponent")]


def _case_variants(u, limit=64):
    letters = len(u)
    if letters == 0:
        return [""]
    if 2 ** letters <= limit:
        out = []
        for mask in range(2 ** letters):
            out.append("".join(c.upper() if mask >> i & 1 else c.lower() for i, c in enumerate(u)))
        return out
    alt = "".join(c.upper() if i % 2 else c.lower() for i, c in enumerate(u))
    alt2 = "".join(c.lower() if i % 2 else c.upper() for i, c in enumerate(u))
    return [u.lower(), u.upper(), u.title(), alt, alt2]


def _edge_values(tier):
    """Complete integer lists, yielded as (name, list) chunks."""
    # all small integers
    small = 2 ** 17 if tier == "quick" else 2 ** 20
    step = 2 ** 13
    for lo in range(0, small, step):
        yield ("small", lo, step)


def cases(tier, seed):
    rng = random.Random(seed * 1000003 + 18)
    # ---- complete sub-spaces first ------------------------------------------------
    for name, lo, n in _edge_values(tier):
        yield {"space": "exhaustive", "kind": "fmt-range", "lo": lo, "n": n}
    yield {"space": "exhaustive", "kind": "fmt-boundaries"}
    for bi in range(len(BANDS)):
        stride = 1 if (tier == "thorough" or bi == 0) else 37
        nedges = (102400 if bi == 4 else 92160) - 90      # x.xx5 from 0.905 up to the top of the band
        chunk = 4000 * stride
        for j0 in range(0, nedges, chunk):
            yield {"space": "exhaustive", "kind": "fmt-rounding", "band": bi, "j0": j0, "j1": min(nedges, j0 + chunk),
                   "stride": stride}
    for fn in ("bytes", "time"):
        units = sorted(BYTE_UNITS if fn == "bytes" else TIME_UNITS)
        for u in units:
            yield {"space": "exhaustive", "kind": "units", "fn": fn, "unit": u}
    yield {"space": "exhaustive", "kind": "documented-examples"}
    # ---- seeded random ------------------------------------------------------------
    nrand = 1500 if tier == "thorough" else 40         # x 1000 integers
    for _ in range(nrand):
        yield {"kind": "fmt-random", "rseed": rng.randrange(2 ** 31), "n": 1000, "dist": rng.choice(("log", "uniform", "nearband"))}
    nu = 3000 if tier == "thorough" else 40
    for _ in range(nu):
        yield {"kind": "units-random", "fn": rng.choice(("bytes", "time")), "rseed": rng.randrange(2 ** 31), "n": 300}
    nk = 3000 if tier == "thorough" else 40
    for _ in range(nk):
        yield {"kind": "keys", "rseed": rng.randrange(2 ** 31), "n": 300}
    for _ in range(nk):
        yield {"kind": "natsort", "rseed": rng.randrange(2 ** 31), "n": 300}


# ---- format_bytes --------------------------------------------------------------------
def _band_of(n):
    """Feature: the largest binary unit u with n >= 0.9*u (harness side, integer arithmetic)."""
    for name, k in reversed(BANDS):
        if 10 * n >= 9 * k:
            return name
    return "B"


def _parse_output(out):
    """Work out (unit multiplier, decimals, mantissa Fraction) from the printed string alone."""
    parts = out.split(" ")
    if len(parts) != 2:
        return None
    num, unit = parts
    mult = BYTE_UNITS.get(unit if unit[:1] != "k" or not unit.startswith("ki") else "K" + unit[1:])
    if mult is None:
        return None
    try:
        mant = Fraction(num)
    except (ValueError, ZeroDivisionError):
        return None
    decimals = len(num.split(".")[1]) if "." in num else 0
    return mult, decimals, mant


def _check_format(n, ctx, fb, pb):
    ctx.count("format_calls")
    try:
        out = fb(n)
    except Exception as e:  # noqa: BLE001
        ctx.exception(e, prefix="format_bytes:band=%s" % _band_of(n))
        return None
    if not isinstance(out, str):
        ctx.violation("format_bytes:band=%s:not-a-str" % _band_of(n), "format_bytes(%d) -> %r" % (n, out))
        return None
    band = _band_of(n)
    # ---- documented length bound -------------------------------------------------
    ctx.count("len_checks")
    if len(out) > 10:
        # feature: does the value print as >= 1000 units of the top band?  (999.995 rounds to 1000.00)
        # (exact rational threshold minus 1 kiB: n / 2**50 is a float division, 999.99499999999 prints as 1000.00)
        if band == "Pi" and 1000 * n >= 999995 * 2 ** 50 - 1000 * 1024:
            lab = "format_bytes:n>=999.995PiB:len>10"
        else:
            lab = "format_bytes:band=%s&below-999.995PiB:len>10" % band
        ctx.violation(lab, "len(format_bytes(%d)) = %d: %r (documented <= 10 for n < 2**60)" % (n, len(out), out), n=n, out=out)
    # ---- round trip ---------------------------------------------------------------
    ctx.count("roundtrip_checks")
    try:
        back = pb(out)
    except Exception as e:  # noqa: BLE001
        ctx.exception(e, prefix="parse_bytes(format_bytes):band=%s" % band, n=n, out=out)
        return out
    po = _parse_output(out)
    if po is None:
        ctx.violation("format_bytes:band=%s:output-not-<number space unit>" % band, "format_bytes(%d) -> %r" % (n, out))
        return out
    mult, decimals, mant = po
    half_unit = Fraction(mult, 2 * 10 ** decimals) if mult > 1 else Fraction(0)
    # +1 byte: parse_bytes truncates to int; n * 2**-50: n / k and mantissa * k are float operations (n > 2**53 is not
    # representable), at most 1 kiB below 2**60 and far below the printed precision
    slack = half_unit + ((1 + Fraction(n, 2 ** 50)) if mult > 1 else 0)
    if not isinstance(back, int) or abs(back - n) > slack:
        ctx.violation("format_bytes/parse_bytes:band=%s:roundtrip-error>half-printed-unit" % band,
                      "n=%d -> %r -> %r; |diff|=%s > %s (half of 10**-%d %s-units + 1)"
                      % (n, out, back, abs(back - n) if isinstance(back, int) else "n/a", float(slack), decimals, out.split(" ")[1]),
                      n=n, out=out, back=back)
    return out


def _boundary_values():
    vals = set()
    for _, k in BANDS:
        t9 = 9 * k // 10
        for d in range(-2, 4):
            vals.add(t9 + d)
            vals.add(k + d)
            vals.add(k * 1000 + d)
            vals.add(k * 100 + d)
            vals.add(k * 10 + d)
        # the values just below the next band's threshold (top of this band)
        nxt = 9 * k * 1024 // 10
        for d in range(-4, 3):
            vals.add(nxt + d)
        # x.xx5 edges at the decade changes of the mantissa
        for x in (Fraction(905, 1000), Fraction(995, 1000), Fraction(1005, 1000), Fraction(9995, 1000),
                  Fraction(10005, 1000), Fraction(99995, 1000), Fraction(100005, 1000), Fraction(921595, 1000),
                  Fraction(999995, 1000), Fraction(1023995, 1000)):
            e = x * k
            for d in (-1, 0, 1, 2):
                vals.add(int(e) + d)
    for d in range(0, 5):
        vals.add(TOP - 1 - d)
    for e in range(0, 61):
        for d in (-1, 0, 1):
            vals.add(2 ** e + d)
    for e in range(0, 19):
        for d in (-1, 0, 1):
            vals.add(10 ** e + d)
    return sorted(v for v in vals if 0 <= v < TOP)


def _random_ints(case):
    rng = random.Random(case["rseed"])
    out = []
    for _ in range(case["n"]):
        if case["dist"] == "uniform":
            out.append(rng.randrange(TOP))
        elif case["dist"] == "log":
            out.append(rng.randrange(2 ** rng.randint(0, 60)))
        else:
            _, k = rng.choice(BANDS)
            j = rng.randrange(90, 92160)
            out.append(min(TOP - 1, max(0, (2 * j + 1) * k // 200 + rng.randint(-2, 2))))
    return out


# ---- unit tables ---------------------------------------------------------------------
def _num_feature(text):
    if text.startswith("."):
        return "leading-dot"
    if "e" in text.lower():
        return "exponent"
    if "." in text:
        return "decimal"
    return "int"


def _check_unit(fn, num, numfeat, unit_text, unit, space, ctx, pb, pt):
    text = num + (" " if space else "") + unit_text
    exact_num = Fraction(num)
    casefeat = "lower" if unit_text == unit_text.lower() else ("upper" if unit_text == unit_text.upper() else "mixed")
    if fn == "bytes":
        ctx.count("parse_bytes_unit_checks")
        mult = BYTE_UNITS[unit]
        exact = exact_num * mult
        feat = "unit=%s&case=%s&num=%s" % (unit or "none", casefeat, numfeat)
        try:
            got = pb(text)
        except Exception as e:  # noqa: BLE001
            ctx.exception(e, prefix="parse_bytes:" + feat, text=text)
            return
        tol = abs(exact) * Fraction(1, 10 ** 9)
        if not isinstance(got, int) or isinstance(got, bool):
            ctx.violation("parse_bytes:%s:not-an-int" % feat, "parse_bytes(%r) -> %r" % (text, got))
        elif not (exact - 1 - tol <= got <= exact + tol):
            ctx.violation("parse_bytes:%s:value" % feat,
                          "parse_bytes(%r) -> %r, expected int(%s * %d) = %s" % (text, got, num, mult, float(exact)),
                          text=text, got=got)
    else:
        ctx.count("parse_timedelta_unit_checks")
        mult = TIME_UNITS[unit]
        exact = exact_num * mult
        feat = "unit=%s&case=%s&num=%s" % (unit, casefeat, numfeat)
        try:
            got = pt(text)
        except Exception as e:  # noqa: BLE001
            ctx.exception(e, prefix="parse_timedelta:" + feat, text=text)
            return
        if isinstance(got, bool) or not isinstance(got, (int, float)):
            ctx.violation("parse_timedelta:%s:not-a-number" % feat, "parse_timedelta(%r) -> %r" % (text, got))
            return
        tol = abs(exact) * Fraction(1, 10 ** 9) + Fraction(1, 10 ** 300)
        if abs(Fraction(got) - exact) > tol:
            if numfeat == "leading-dot" and abs(Fraction(got) - Fraction("1" + num) * mult) <= tol + Fraction(1, 10 ** 9) * mult:
                # symptom: '.5' was read as '1.5' (a '1' is put in front of anything that does not start with a digit)
                ctx.violation("parse_timedelta:num=leading-dot:parsed-as-1<num>",
                              "parse_timedelta(%r) -> %r, expected %s * %s = %s" % (text, got, num, float(mult), float(exact)),
                              text=text, got=got)
                return
            ctx.violation("parse_timedelta:%s:value" % feat,
                          "parse_timedelta(%r) -> %r, expected %s * %s = %s" % (text, got, num, float(mult), float(exact)),
                          text=text, got=got)


def _random_num(rng):
    kind = rng.choice(("int", "int", "decimal", "decimal", "exponent", "leading-dot"))
    if kind == "int":
        return str(rng.choice((rng.randrange(10), rng.randrange(1000), rng.randrange(10 ** 6)))), kind
    if kind == "decimal":
        return "%d.%s" % (rng.randrange(1000), "".join(rng.choice("0123456789") for _ in range(rng.randint(1, 4)))), kind
    if kind == "leading-dot":
        return "." + "".join(rng.choice("0123456789") for _ in range(rng.randint(1, 3))), kind
    mant = rng.choice(("%d" % rng.randrange(1, 100), "%d.%d" % (rng.randrange(1, 10), rng.randrange(100))))
    return mant + rng.choice("eE") + rng.choice(("", "+", "-")) + str(rng.randrange(0, 4)), kind


# ---- keys ------------------------------------------------------------------------------
class _Obj:
    def __init__(self, r):
        self.r = r

    def __repr__(self):
        return self.r


WORDS = ["x", "add", "hello", "world", "getitem", "read-csv", "sum_agg", "from", "deadbeef", "abcdefab", "Ünï", "日本",
         "ae05086432ca935f6eba409a8ecd4896", "<module.submodule.myclass object at 0xdaf372>", "_(x)", "('x-2', 1)",
         "", "-", "--", "1", "12ab", "a1", "²", "٣", "x,y", " ", "\n", "'q'", "0x1f", "A-B", "é"]


def _rand_str(rng):
    n = rng.randint(0, 4)
    parts = []
    for _ in range(n):
        c = rng.random()
        if c < 0.5:
            parts.append(rng.choice(WORDS))
        elif c < 0.7:
            parts.append("".join(rng.choice("0123456789abcdef") for _ in range(rng.choice((1, 4, 8, 32)))))
        elif c < 0.85:
            parts.append(str(rng.randrange(10 ** rng.randint(1, 6))))
        else:
            parts.append("".join(chr(rng.choice((rng.randint(32, 126), rng.randint(160, 0x2ff), rng.randint(0x660, 0x669),
                                                 rng.randint(0x2070, 0x2079), rng.randint(0x2460, 0x2468))))
                                 for _ in range(rng.randint(1, 5))))
    return rng.choice(("-", "-", "", "_", ".", " ")).join(parts)


def _rand_key(rng, depth=0):
    """Returns (key, feature)."""
    c = rng.random()
    if c < 0.35:
        return _rand_str(rng), "str"
    if c < 0.5:
        if rng.random() < 0.15:
            return bytes(rng.randrange(128, 256) for _ in range(rng.randint(1, 4))), "bytes-not-utf8"
        return _rand_str(rng).encode("utf8"), "bytes-utf8"
    if c < 0.8 and depth < 3:
        n = rng.choice((0, 1, 1, 2, 2, 3)) if rng.random() < 0.3 else rng.randint(1, 3)
        if n == 0:
            return (), "empty-tuple"
        items = [_rand_key(rng, depth + 1)]
        rest = [rng.choice((rng.randrange(100), _rand_str(rng), None, 1.5)) for _ in range(n - 1)]
        return (items[0][0],) + tuple(rest), "tuple[%s]" % items[0][1]
    if c < 0.85:
        return None, "None"
    if c < 0.92:
        return rng.choice((rng.randrange(-5, 1000), rng.random(), True, float("inf"))), "number"
    if c < 0.96:
        return frozenset([rng.randrange(5)]), "frozenset"
    return _Obj(_rand_str(rng)), "object"


def _has_nondecimal_digit_run(s):
    """Input feature: between the runs of decimal digits there is a non-empty piece made only of characters
    that are digits (str.isdigit) but not decimal (superscripts, circled digits ...)."""
    piece = []
    pieces = []
    for ch in s:
        if ch.isdecimal():
            pieces.append("".join(piece))
            piece = []
        else:
            piece.append(ch)
    pieces.append("".join(piece))
    return any(p and p.isdigit() for p in pieces)


def _key_label(feat):
    # collapse the nesting to the innermost feature that decides the behaviour
    inner = feat
    while inner.startswith("tuple[") and inner.endswith("]"):
        inner = inner[6:-1]
    nested = feat.startswith("tuple[")
    if inner in ("empty-tuple", "bytes-not-utf8"):
        return inner
    return ("tuple-of-" if nested else "") + inner


def run_case(case, ctx):
    from dask.utils import format_bytes as fb, parse_bytes as pb, parse_timedelta as pt
    from dask.utils import key_split, natural_sort_key

    kind = case["kind"]
    ctx.op(kind)
    ctx.nontrivial = True
    if kind == "fmt-range":
        for n in range(case["lo"], case["lo"] + case["n"]):
            _check_format(n, ctx, fb, pb)
        ctx.sample = {"range": [case["lo"], case["lo"] + case["n"]], "last": fb(case["lo"] + case["n"] - 1)}
    elif kind == "fmt-boundaries":
        vals = _boundary_values()
        ctx.count("boundary_values", len(vals))
        outs = [_check_format(n, ctx, fb, pb) for n in vals]
        ctx.sample = {"values": len(vals), "top": outs[-1], "first": outs[:3]}
    elif kind == "fmt-rounding":
        _, k = BANDS[case["band"]]
        last = None
        for j in range(case["j0"], case["j1"], case["stride"]):
            num = (2 * (j + 90) + 1) * k            # ((2j'+1) * 0.005) * k  with j' from 90 (0.905)
            lo, r = divmod(num, 200)
            for n in (lo - 1, lo, lo + 1, lo + 2):
                if 0 <= n < TOP and 10 * n >= 9 * k and (case["band"] == 4 or 10 * n < 9 * k * 1024):
                    ctx.count("rounding_edge_values")
                    last = _check_format(n, ctx, fb, pb)
        ctx.sample = {"band": BANDS[case["band"]][0], "j": [case["j0"], case["j1"]], "last": last}
    elif kind == "fmt-random":
        vals = _random_ints(case)
        for n in vals:
            _check_format(n, ctx, fb, pb)
        ctx.count("random_ints", len(vals))
        ctx.sample = {"n": vals[0], "out": fb(vals[0])}
    elif kind == "units":
        fn, unit = case["fn"], case["unit"]
        variants = _case_variants(unit)
        for uv in variants:
            for num, nf in FIXED_NUMS:
                for space in (False, True):
                    _check_unit(fn, num, nf, uv, unit, space, ctx, pb, pt)
        ctx.distinct("unit_spellings", (fn, unit))
        ctx.count("unit_case_variants", len(variants))
        if fn == "bytes" and unit:
            # documented: a unit without a number means one unit ('MB' -> 1000000)
            for uv in variants:
                ctx.count("parse_bytes_unit_checks")
                try:
                    got = pb(uv)
                except Exception as e:  # noqa: BLE001
                    ctx.exception(e, prefix="parse_bytes:unit=%s&bare-unit" % unit, text=uv)
                    continue
                if got != BYTE_UNITS[unit]:
                    ctx.violation("parse_bytes:unit=%s&bare-unit:value" % unit, "parse_bytes(%r) -> %r" % (uv, got))
        ctx.sample = {"fn": fn, "unit": unit, "variants": variants[:6]}
    elif kind == "units-random":
        rng = random.Random(case["rseed"])
        fn = case["fn"]
        table = BYTE_UNITS if fn == "bytes" else TIME_UNITS
        units = sorted(table)
        for _ in range(case["n"]):
            unit = rng.choice(units)
            uv = "".join(c.upper() if rng.random() < 0.5 else c.lower() for c in unit)
            num, nf = _random_num(rng)
            _check_unit(fn, num, nf, uv, unit, rng.random() < 0.5, ctx, pb, pt)
        ctx.sample = {"fn": fn, "last": num + uv}
    elif kind == "documented-examples":
        import datetime

        # non-string inputs named in the docstrings
        for arg, want in ((123, 123), (0, 0), (1.9, 1)):
            ctx.count("parse_bytes_unit_checks")
            try:
                got = pb(arg)
            except Exception as e:  # noqa: BLE001
                ctx.exception(e, prefix="parse_bytes:number-input")
                continue
            if got != want or not isinstance(got, int):
                ctx.violation("parse_bytes:number-input:value", "parse_bytes(%r) -> %r" % (arg, got))
        for arg, want in ((None, None), (3, 3), (2.5, 2.5), (datetime.timedelta(seconds=3), 3),
                          (datetime.timedelta(milliseconds=100), 0.1), (datetime.timedelta(days=2), 172800)):
            ctx.count("parse_timedelta_unit_checks")
            try:
                got = pt(arg)
            except Exception as e:  # noqa: BLE001
                ctx.exception(e, prefix="parse_timedelta:%s-input" % type(arg).__name__)
                continue
            ok = got is None if want is None else (got is not None and abs(got - want) <= 1e-12)
            if not ok:
                ctx.violation("parse_timedelta:%s-input:value" % type(arg).__name__, "parse_timedelta(%r) -> %r" % (arg, got))
        # a number without unit uses the default unit (documented parameter)
        for default, mult in (("seconds", 1), ("ms", Fraction(1, 1000)), ("minutes", 60)):
            ctx.count("parse_timedelta_unit_checks")
            try:
                got = pt("7", default=default)
            except Exception as e:  # noqa: BLE001
                ctx.exception(e, prefix="parse_timedelta:default-unit")
                continue
            if abs(Fraction(got) - 7 * mult) > Fraction(1, 10 ** 12):
                ctx.violation("parse_timedelta:default-unit:value", "parse_timedelta('7', default=%r) -> %r" % (default, got))
        ctx.sample = {"documented": True}
    elif kind == "keys":
        rng = random.Random(case["rseed"])
        seen = {}
        for _ in range(case["n"]):
            key, feat = _rand_key(rng)
            lab = _key_label(feat)
            ctx.count("key_split_calls")
            ctx.op("key:" + lab)
            try:
                hash(key)
            except TypeError:
                continue
            try:
                got = key_split(key)
            except Exception as e:  # noqa: BLE001
                ctx.exception(e, prefix="key_split:%s" % lab, key=repr(key))
                continue
            if not isinstance(got, str):
                ctx.violation("key_split:%s:not-a-str" % lab, "key_split(%r) -> %r" % (key, got))
            seen[lab] = got
        ctx.sample = {"results": dict(list(seen.items())[:6])}
    elif kind == "natsort":
        rng = random.Random(case["rseed"])
        last = None
        for i in range(case["n"]):
            if i % 3 == 0:
                # prefix + digits pairs: documented natural order
                p = rng.choice(("f", "part-", "x_", "chunk", ""))
                a, b = rng.randrange(10 ** rng.randint(1, 5)), rng.randrange(10 ** rng.randint(1, 5))
                sa, sb = "%s%d" % (p, a), "%s%d" % (p, b)
                ctx.count("natural_sort_key_calls", 2)
                try:
                    ka, kb = natural_sort_key(sa), natural_sort_key(sb)
                    less = ka < kb
                except Exception as e:  # noqa: BLE001
                    ctx.exception(e, prefix="natural_sort_key:prefix+digits")
                    continue
                if less != (a < b):
                    ctx.violation("natural_sort_key:prefix+digits:order", "%r vs %r: keys %r %r" % (sa, sb, ka, kb))
                continue
            s = _rand_str(rng)
            feat = "non-decimal-digit-run" if _has_nondecimal_digit_run(s) else ("ascii" if s.isascii() else "unicode")
            ctx.count("natural_sort_key_calls")
            ctx.op("natsort:" + feat)
            try:
                got = natural_sort_key(s)
            except Exception as e:  # noqa: BLE001
                ctx.exception(e, prefix="natural_sort_key:%s" % feat, s=s)
                continue
            if not isinstance(got, (list, tuple)) or not all(isinstance(p, (str, int)) and not isinstance(p, bool) for p in got):
                ctx.violation("natural_sort_key:%s:shape" % feat, "natural_sort_key(%r) -> %r" % (s, got))
            last = got
        ctx.sample = {"last": last}
    else:  # pragma: no cover
        raise AssertionError(kind)


CLAIM = ("Every format_bytes / parse_bytes / parse_timedelta / key_split / natural_sort_key call made on the generated inputs "
         "(complete lists of band boundaries, rounding edges, band tops, powers of two/ten and all small integers; the full "
         "unit x case x numeric-prefix product; seeded random integers below 2**60, random keys and strings) was checked against "
         "exact integer/rational arithmetic and the documented length/shape bounds. Held means: no counterexample among the "
         "calls observed; the 2**60 integers are not enumerated.")
TECHNIQUE = "runtime monitoring: return-value oracle (exact Fraction arithmetic, printed-precision bound derived from the output string), complete edge lists + random"
PENDING = {
    "format_bytes:n>=999.995PiB:len>10": "format_bytes returns 11 characters ('1000.00 PiB' .. '1024.00 PiB') for 999.995 PiB <= n < 2**60, documented <= 10",
    "parse_timedelta:num=leading-dot:parsed-as-1<num>": "parse_timedelta('.5s') == 1.5: a '1' is prepended whenever the text does not START with a digit",
    "key_split:empty-tuple:IndexError@utils.py:key_split": "key_split(()) / key_split(((), 1)) raise IndexError: s[0] is taken outside the try block",
    "key_split:bytes-not-utf8:UnicodeDecodeError@utils.py:key_split": "key_split(b'\\xff') raises UnicodeDecodeError: s.decode() is outside the try block",
    "natural_sort_key:non-decimal-digit-run:ValueError@utils.py:natural_sort_key": "natural_sort_key('\u00b2') raises ValueError: str.isdigit() accepts characters int() rejects",
}
