"""C19 — elementwise and broadcasting array operations equal NumPy.

Monitor: NumPy differential.  Each case rebuilds small arrays from a JSON
description, runs the same operation on dask.array (real code, sync scheduler,
a seeded tenth on threads) and on NumPy, and compares shape, dtype and values
(NaN == NaN); the lazy .shape/.dtype/.chunks are compared with the computed value.

Calibration
* int ** negative int is value dependent in NumPy (raises unless empty): excluded.
* dask `where=`/`out=` are exercised through da.<ufunc>(x, y, where=mask, out=o); with
  `where=` NumPy leaves unselected output elements uninitialised unless `out=` is given,
  so `where=` is only generated together with `out=`.

Sibling facet (vf/mon/siblings.py): every case is also built a second time with ONE result-relevant parameter changed
(another scalar / NumPy operand / astype target / clip bound, else another operation of the same family).
The two lazily built collections must not share output keys unless their stand-alone values are equal (label
``<op>:<param>-not-in-name:siblings-share-keys``); for a seeded ~15 % of the cases both are also computed in one graph and
compared with their stand-alone values (``<op>:<param>:differs-when-computed-with-sibling``).  Counters siblings_built /
siblings_computed_together / siblings_with_different_values have floors.
"""
from __future__ import annotations

import operator
import random
import warnings

import numpy as np

from ..gen import arrays as A
from ..mon import siblings as S
from ..mon.compare import compare_arrays, lazy_meta_mismatch

PROP = "C19"
RULE = ("cases = (operation, operand shapes/dtypes/data seeds, chunkings, second operand kind dask|numpy|scalar). "
        "Complete part: all chunkings of both operands for shapes (3,), (2,3) and (1,3)+(2,1) under + and a comparison; "
        "random part: shapes 0-3 d with lengths 0-6 (zero-length and 0-d included), 10 dtypes, 40 binary/unary "
        "operations, astype, clip, where=/out=. non-trivial = some operand axis split into >=2 chunks; distinct = "
        "distinct (op, shapes, dtypes, chunks, operand kind).")
ASSUMPTIONS = ["NumPy 2.x defines the expected values, dtype and broadcasting", "sync scheduler (threads for a tenth)"]
BUDGET = {"quick": 40, "thorough": 500}
FLOORS = {"quick": {"evaluations": 2500, "distinct_nontrivial": 1200, "counters": {"compared": 2200, "lazy_meta_checked": 2200},
                    "max_skipped_fraction": 0.35},
          "thorough": {"evaluations": 40000, "distinct_nontrivial": 20000, "counters": {"compared": 35000},
                       "max_skipped_fraction": 0.35}}
# sibling facet (vf/mon/siblings.py): ~45 % of the smallest count of the five quick seeds on the unchanged tree; thorough =
# quick floor x (thorough / quick stream size) x 0.6.  A run in which the facet never executed is INCONCLUSIVE.
FLOORS["quick"]["counters"].update({"siblings_built": 2000, "siblings_computed_together": 290, "siblings_with_different_values": 210})
FLOORS["thorough"]["counters"].update({"siblings_built": 10000, "siblings_computed_together": 1450, "siblings_with_different_values": 1050})
EXHAUSTIVE_SPACE = "all chunkings of both operands for shapes (3,)+(3,), (2,3)+(2,3), (1,3)+(2,1) under add and less-than"
CLAIM = ("Every generated elementwise/broadcast expression was computed by the real dask.array and compared with NumPy on "
         "the same data (shape, dtype, values with NaN==NaN) and with its own lazy metadata; held = no mismatch and no "
         "dask exception inside the domain on the executions observed.")
LEVEL_NOTE = "NumPy is the reference; domain limited to constructs the statement names (see module docstring)"
TECHNIQUE = "runtime monitoring: NumPy differential oracle over generated inputs and complete small chunking spaces"

BIN = ["add", "sub", "mul", "truediv", "floordiv", "mod", "pow", "and_", "or_", "xor", "lt", "le", "eq", "ne", "gt", "ge"]
BINUF = ["maximum", "minimum", "hypot", "arctan2", "logical_and", "logical_or", "fmax", "fmin", "copysign", "logaddexp",
         "add", "multiply", "greater", "not_equal", "bitwise_and", "left_shift"]
UN = ["neg", "abs", "invert", "pos"]
UNUF = ["sqrt", "exp", "sin", "cos", "isnan", "isfinite", "isinf", "sign", "floor", "ceil", "conj", "real", "imag",
        "logical_not", "square", "cbrt", "rint", "signbit", "angle", "log1p", "expm1", "fabs", "trunc", "deg2rad"]
SCALARS = [2, -1, 0, 0.5, True, ("float32", 1.5), ("int8", 3), 1j, ("uint8", 200)]


def cases(tier, seed):
    rng = random.Random(seed * 9973 + 5)
    for (s1, s2) in (((3,), (3,)), ((2, 3), (2, 3)), ((1, 3), (2, 1))):
        for c1 in A.all_chunkings(s1):
            for c2 in A.all_chunkings(s2):
                for op in ("add", "lt"):
                    yield {"space": "exhaustive", "kind": "bin", "op": op, "s1": list(s1), "s2": list(s2),
                           "c1": [list(c) for c in c1], "c2": [list(c) for c in c2], "d1": "int64", "d2": "float64",
                           "yk": "dask", "seed": 1}
    n = 7000 if tier == "quick" else 60000
    for i in range(n):
        s1 = A.rand_shape(rng, maxnd=3, maxlen=6)
        s2 = list(s1)
        for a in range(len(s2)):
            if rng.random() < 0.3:
                s2[a] = 1
        s2 = tuple(s2[rng.randint(0, len(s2)):])
        if rng.random() < 0.15:  # first operand broadcasts instead
            s1, s2 = s2, s1
        kind = rng.choice(("bin", "bin", "rbin", "binuf", "un", "unuf", "astype", "clip", "whereout", "where3"))
        d = {"kind": kind, "s1": list(s1), "s2": list(s2), "d1": rng.choice(A.DTYPES), "d2": rng.choice(A.DTYPES),
             "c1": [list(c) for c in A.rand_chunks(rng, s1)], "c2": [list(c) for c in A.rand_chunks(rng, s2)],
             "yk": rng.choice(("dask", "dask", "numpy", "scalar")), "seed": rng.randrange(2 ** 31),
             "threads": rng.random() < 0.1}
        if kind in ("bin", "rbin"):
            d["op"] = rng.choice(BIN)
        elif kind in ("binuf", "whereout"):
            d["op"] = rng.choice(BINUF)
        elif kind == "un":
            d["op"] = rng.choice(UN)
        elif kind == "unuf":
            d["op"] = rng.choice(UNUF)
        elif kind == "astype":
            # also casts that keep the scalar type / width but change unit or byte order
            d["op"] = rng.choice(A.DTYPES + ["datetime64[s]", "datetime64[ms]", "datetime64[D]", "timedelta64[s]",
                                             "timedelta64[h]", "timedelta64[ms]", ">i4", ">f8", "float16", "<U4", "S3"])
            if rng.random() < 0.35:
                d["d1"] = rng.choice(("datetime64[ns]", "timedelta64[ns]", "int32", "float64"))
        elif kind == "clip":
            d["op"] = sorted([rng.randint(-3, 3), rng.randint(-3, 3)])
        else:
            d["op"] = "where"
        if d["yk"] == "scalar":
            d["scalar"] = rng.randrange(len(SCALARS))
        yield d


def _scalar(i):
    s = SCALARS[i]
    return np.dtype(s[0]).type(s[1]) if isinstance(s, tuple) else s


def run_case(case, ctx):
    import dask
    import dask.array as da

    kind, op = case["kind"], case["op"]
    x = A.rand_data(case["seed"], case["s1"], case["d1"])
    y = A.rand_data(case["seed"] + 1, case["s2"], case["d2"])
    c1, c2 = A.chunks_of_desc(case["c1"]), A.chunks_of_desc(case["c2"])
    dx = da.from_array(x, chunks=c1)
    yk = case["yk"]
    if yk == "dask":
        dy = da.from_array(y, chunks=c2)
    elif yk == "numpy":
        dy = y
    else:
        y = dy = _scalar(case["scalar"])
    opname = op if isinstance(op, str) else kind
    ctx.op(kind + ":" + str(opname))
    ctx.sig = (kind, str(op), case["s1"], case["s2"], case["d1"], case["d2"], case["c1"], case["c2"], yk)
    ctx.nontrivial = A.has_split(c1) or (yk == "dask" and A.has_split(c2))
    if kind in ("bin", "rbin") and op == "pow" and np.asarray(y if kind == "bin" else x).dtype.kind in "iu" \
            and np.asarray(x if kind == "bin" else y).dtype.kind in "iub":
        ctx.reject("integer ** integer is value dependent in NumPy")
        return
    if kind in ("bin", "rbin") and op in ("eq", "ne"):
        k1, k2 = np.asarray(x).dtype.kind, np.asarray(y).dtype.kind
        if (k1 in "Mm") != (k2 in "Mm") or {k1, k2} == {"M", "m"}:
            # Calibration: ndarray.__eq__ on incomparable dtypes is not the `equal` ufunc (NumPy falls back to
            # an all-False result after the ufunc loop lookup fails); the statement is about ufunc semantics.
            ctx.reject("==/!= between datetime-like and other dtypes is a NumPy richcompare fallback, not a ufunc")
            return

    def build(X, Y, mod, op=op, cond_rem=0):
        if kind == "bin":
            return getattr(operator, op)(X, Y)
        if kind == "rbin":
            return getattr(operator, op)(Y, X)
        if kind == "binuf":
            return getattr(mod, op)(X, Y)
        if kind == "un":
            return getattr(operator, op)(X)
        if kind == "unuf":
            return getattr(mod, op)(X)
        if kind == "astype":
            return X.astype(op)
        if kind == "clip":
            return mod.clip(X, op[0], op[1])
        if kind == "where3":
            return mod.where(X > 0, X, Y)
        if kind == "whereout":
            if op in ("greater", "not_equal") and type(Y) is int and getattr(X, "dtype", None) is not None \
                    and X.dtype.kind in "iu" and not (np.iinfo(X.dtype).min <= Y <= np.iinfo(X.dtype).max):
                # Calibration: NumPy 2.5.3 itself dies with SIGSEGV in np.greater(uint8_array, -1, where=m, out=o) (a
                # comparison with a Python int outside the integer dtype's range, together with where=/out=); the
                # reference cannot be evaluated, so the case is outside the domain (thorough seed 0, case 14448).
                raise ValueError("reference crashes: comparison with an out-of-range Python int under where=/out=")
            shape = np.broadcast_shapes(np.shape(X), np.shape(Y))
            cond = (np.arange(int(np.prod(shape)) if shape else 1).reshape(shape) % 2) == cond_rem
            # probe the result dtype on the NumPy side to allocate `out`
            with np.errstate(all="ignore"):
                probe = getattr(np, op)(x, y)
            if mod is np:
                out = np.zeros(shape, dtype=probe.dtype)
                getattr(np, op)(X, Y, where=cond, out=out)
                return out
            out = da.zeros(shape, dtype=probe.dtype, chunks=tuple(max(1, s) for s in shape) or ())
            res = getattr(da, op)(X, Y, where=cond, out=out)
            return out if res is None else res
        raise AssertionError(kind)

    with warnings.catch_warnings():
        warnings.simplefilter("ignore")
        with np.errstate(all="ignore"):
            try:
                e = build(x, y, np)
            except Exception as ex:  # noqa: BLE001
                ctx.reject("numpy: %s: %s" % (type(ex).__name__, ex))
                return
            try:
                r = build(dx, dy, da)
                if not isinstance(r, da.Array):
                    ctx.violation("%s:%s:result-not-a-dask-array" % (kind, opname), "got %r" % (type(r),))
                    return
                rv = r.compute(scheduler="threads" if case.get("threads") else "sync")
            except NotImplementedError as ex:
                ctx.unsupported(str(ex))
                return
            except Exception as ex:  # noqa: BLE001
                ctx.exception(ex, prefix="%s:%s:%s" % (kind, opname, _feat(case, x, y)))
                return
    ctx.count("compared")
    m = compare_arrays(rv, e, exact=True)
    if m:
        ctx.violation("%s:%s:%s:%s" % (kind, opname, _feat(case, x, y), m[0]), m[1], lazy=(str(r.shape), str(r.dtype)))
    ctx.count("lazy_meta_checked")
    m = lazy_meta_mismatch(r, rv)
    if m:
        ctx.violation("%s:%s:%s:%s" % (kind, opname, _feat(case, x, y), m[0]), m[1])
    ctx.sample = {"op": str(op), "chunks": [case["c1"], case["c2"]], "result_shape": list(np.shape(rv)), "dtype": str(np.asarray(rv).dtype)}
    # sibling facet: the same expression with ONE parameter changed must not share keys with this one
    param, thunk, desc = _sibling(case, kind, op, yk, dx, dy, build, da)
    if thunk is not None:
        S.check(ctx, kind, param, r, thunk, va=rv, describe=desc)


_ASTYPE_SIBS = ["int8", "int32", "int64", "uint8", "float32", "float64", "complex128", ">i4", ">f8", "float16"]
_BINARY = ("bin", "rbin", "binuf", "where3", "whereout")


def _sibling(case, kind, op, yk, dx, dy, build, da):
    """(parameter name, thunk building the sibling, description): another scalar / NumPy operand / astype target /
    clip bound, else another operation of the same family."""
    srng = S.rng_for(case)
    if kind == "astype":
        op2 = srng.choice([d for d in _ASTYPE_SIBS if d != op])
        return "dtype", (lambda: build(dx, dy, da, op=op2)), {"dtype": op2}
    if kind == "clip":
        op2 = [op[0] - 1, op[1]] if srng.random() < 0.5 else [op[0], op[1] - 1 if op[1] - 1 >= op[0] else op[1] + 1]
        return "bound", (lambda: build(dx, dy, da, op=op2)), {"bounds": op2}
    if kind == "whereout" and srng.random() < 0.5:
        # the same ufunc call with the complementary where= mask
        return "where-mask", (lambda: build(dx, dy, da, cond_rem=1)), {"where": "complement"}
    if kind in _BINARY and yk == "scalar" and srng.random() < 0.75:
        j = srng.choice([i for i in range(len(SCALARS)) if i != case["scalar"]])
        return "scalar", (lambda: build(dx, _scalar(j), da)), {"scalar": repr(SCALARS[j])}
    if kind in _BINARY and yk == "numpy" and srng.random() < 0.75:
        y2 = A.rand_data(case["seed"] + 2, case["s2"], case["d2"])
        return "numpy-operand", (lambda: build(dx, y2, da)), {"seed": "+2"}
    pool = {"bin": BIN, "rbin": BIN, "binuf": BINUF, "whereout": BINUF, "un": UN, "unuf": UNUF}.get(kind)
    if not pool:
        return None, None, None
    op2 = srng.choice([o for o in pool if o != op])
    return "op", (lambda: build(dx, dy, da, op=op2)), {"op": op2}


def _feat(case, x, y):
    f = []
    if 0 in np.shape(x) or 0 in np.shape(y):
        f.append("zero-length")
    if np.ndim(x) == 0 or (case["yk"] != "scalar" and np.ndim(y) == 0):
        f.append("0-d")
    if np.shape(x) != np.shape(y) and case["yk"] != "scalar":
        f.append("broadcast")
    f.append("y=" + case["yk"])
    kinds = "".join(sorted({np.asarray(x).dtype.kind, np.asarray(y).dtype.kind}))
    f.append("kinds=" + kinds)
    return "&".join(f)
