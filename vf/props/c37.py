"""C37 — DataFrame reductions and aggregations equal pandas.

Monitor: pandas differential.  Every case is ONE description (frame seed, partitioning, operation, target
columns, keyword options, split_every) from which the same program is run on the real dask.dataframe
collection (sync scheduler) and on pandas over the concatenated frame; the computed value is compared with the
pandas value (object kind, labels and their order, dtype, values within rounding tolerance).

Domain (from the statement/quantifier): sum, prod, min, max, count, mean, var, std, sem, any, all, idxmin,
idxmax, nunique, value_counts (Series), mode, nlargest/nsmallest, describe (rows count/mean/std/min/max only),
cov/corr, len; Series and DataFrame targets; axis 0/1 where dask has axis=1; skipna, numeric_only, min_count
(sum/prod), ddof (var/std/sem), split_every in {2, 3, False, None, omitted}; columns int64 / str / float with
NaN / float / bool / datetime / categorical / nullable Int64 / nullable boolean; partitionings by from_pandas
(npartitions, chunksize incl. single-row partitions), from_map / from_delayed row slices INCLUDING EMPTY
partitions, cleared divisions.  pandas raising -> reject.  dask's nlargest/nsmallest have no `keep`.

Keyword x tree stratum (`kwtree` cases).  "Equal pandas for any split_every" includes every keyword of the pandas
signature that the dask method accepts: its effect has to survive the intermediate combine level(s) of the tree
reduction (or the shuffle of the split_out path).  For every operation x target the stratum enumerates each
non-default keyword value ALONE (plus random combinations): skipna=False, numeric_only=True (frame holding a
non-numeric column), min_count in {1, 2, valid+1, 1000}, ddof in {0, 2}, axis=1, value_counts sort in {True, False} /
ascending=True / dropna=False / normalize=True, nunique/mode dropna=False, nlargest/nsmallest n in {1,2,3,7,40},
cov/corr min_periods in {jmin, jmin+1, jmax, jmax+1, 3, 5} (jmin/jmax = smallest/largest number of jointly valid rows
over the column pairs, diagonal included: values above and below the joint count of some pair) on NaN-heavy c and d
(`sparse`: 60-65 % NaN, or `joint2`: the pair (c, d) has exactly 2 jointly valid rows - the default boundary);
x split_every in {2, 3 on 5-11 partitions; None or omitted (= 8) on 9-17 partitions} so that an intermediate combine
level exists; x split_out in {omitted, 1, True, 2} for the Series methods that accept it (value_counts, nunique,
unique); Series.unique is generated here as the split_out companion of nunique.  Data: 10-45 rows, NaN/NA bearing
columns preferred for skipna/dropna/min_count, missing values injected into the str / categorical / datetime column
(`na`), all valid values made falsy/truthy for any/all(skipna=False) (`flat`).  Observability: the lowered graph is
inspected before compute (`tree_levels` = deepest TreeReduce combine level j >= 1 present, `shuffle` = shuffle tasks
present), so "multi-level tree" is an observed fact, not a computation from split_every and npartitions.  A keyword
counts (`kw_tree:<op>:<kw>`, `kw_shuffle:..`, `kw_rowwise:<op>:axis` - axis=1 has no tree, >= 5 partitions instead)
only when pandas, re-run with that keyword left out, raises or answers differently on the same data.  Not coverable:
idxmin/idxmax skipna=False with a tree (pandas refuses whenever an NA is present, and without NA the keyword has no
effect); all(skipna=False) differs from the default only on nullable columns (known findings); DataFrame.nunique has
no tree (one shuffle per column); len has no keyword; describe only split_every.  median/quantile are approximate
in dask for more than one partition and first/last are not DataFrame reductions: outside the statement.

Comparison discipline
* Series/DataFrame results: vf.gen.frames.compare, ordered, rtol 1e-9 (pandas.testing atol 1e-8), dtype facet
  on; scalars: |r-e| <= 1e-9*|e| + 1e-9*max(1,|data|max); NaN/NA/NaT are all "missing" for a scalar.
* value_counts: multiset of (value, count|proportion) + index name + result name; order facet only when sort is
  True or omitted (pandas default True): counts non-increasing, non-decreasing under ascending=True (ties
  unspecified); sort=False promises no order a partitioned computation could reproduce.
* unique: the SET of values (missing markers unified, no value twice) + dtype; no order.
* mode / nlargest / nsmallest / idxmin / idxmax: exact, ordered (sorted modes; keep='first' is documented;
  first occurrence for idx*).
* describe: only the rows count/mean/std/min/max that pandas produces are compared; a wanted row that is absent
  from the dask result is the symptom `rows`.
* dtype facet is restricted to non-empty frames and to results holding at least one non-missing value (pandas
  leaves the dtype of an empty / all-missing reduction to the accident of its code path, e.g. Float64 for an Int64
  sum whose min_count is not met).

Labels: `<op family>:<causal features>:<symptom>`.  Two steps.  (1) Ablation finds the causal features: the failing
description is re-run with one feature removed at a time (single column, nullable column cast to float64,
series<->frame, skipna, numeric_only, min_count, ddof, split_every, single partition, empty partitions dropped,
all-NA partitions merged); a feature is causal only if removing it makes the same symptom disappear.
(2) `_canonical` keeps the features that DEFINE a mechanism and drops its trigger variants (which partition was
empty / all-NA / merely second, series or frame path, tree level, empty frame, exception location): one label per
mechanism, and for mechanisms tied to a column dtype class (nullable / datetime / str / categorical) one label
per op family and symptom class (`raises`, `dtype`, `lost-NA`, ...; every axis=1 reduction is the family
`rowwise`).  A failure whose causal features fit none of these rules keeps its full ablation label, so a different
defect (e.g. every mutant below: plain columns, `multi-partition` / `split_every-tree`) is still reported as new.

Calibration (false alarms corrected)
* DataFrame.value_counts does not exist in dask and the statement's value_counts is the Series one: Series only.
* unordered categorical under order based reductions (min/max/idxmin/idxmax/nlargest): pandas refuses min/max but
  happens to answer idxmin/idxmax through the codes; the reduction is not defined there -> not generated.
* row-wise (axis=1) reductions only over int/float/bool/nullable columns: pandas answers mixed str/datetime/
  categorical rows through object coercion and refuses the same program on an empty partition of the same schema.
* empty frame: pandas accepts on an empty frame programs it refuses on data (nothing is evaluated); an empty-frame
  case is rejected unless pandas also answers for a non-empty frame of the same schema.
* missing markers: NaN / None / NA / NaT are all "missing" in the values facet (scalars and elements of object /
  nullable results); the dtype facet still reports float64 vs Float64 on non-empty frames.
* Timedelta results (std of datetime) are computed through float64: compared with rounding tolerance (they
  differed by 1 microsecond).
* values facet first, dtype facet second: symptom `dtype` means "values equal, dtype differs".
* frames.compare files every pandas message containing "[index]:" under `index`; re-classified as `values`;
  values mismatches are refined to `spurious-NA` / `lost-NA` / `values` so that the label ablation cannot drift
  from one mechanism into another that merely has the same coarse symptom.
* var/std/sem with ddof >= number of valid values on a NULLABLE column: pandas answers inf there (numpy's M/0 in
  the masked reduction) but NaN for numpy-backed columns; no single pandas rule -> rejected.
* min_periods (cov/corr, frame and series): generated with values >= 2 only - dask documents "min_periods must be
  >= 2" and pandas' 0/1 give the same numbers as 2 (a pair with fewer than 2 joint rows is NaN anyway).  That Cov
  ignores an explicit min_periods was first set aside as outside the domain; it is a keyword of the pandas signature
  that dask accepts, so it is now checked (known finding `cov/corr:min_periods>2:lost-NA`, fix in fixes_ready/C37_05).
* mode(dropna=False): pandas puts a missing mode FIRST for categorical / datetime columns (sorted by code / i8) and
  LAST otherwise, dask always last; the place of the missing marker among the sorted modes is an accident of the
  pandas code path -> missing entries are moved to the end on both sides before the ordered comparison.
* value_counts order under an explicit sort=True / ascending=True is a mechanism of its own: the static label
  `value_counts:sort-omitted:order` is only used when `sort` is left to dask's default (None).
* dtype-class labels keep the causal options of the keyword stratum (dropna= / sort= / normalize= / ascending= /
  split_out / tree-path), so that e.g. `value_counts:categorical-column&split_out>1:length` (known) cannot absorb a
  dropna defect on a categorical column; split_out True and 2 are one feature (`split_out>1`, the shuffle path),
  value_counts sort=True and split_out=1 are one feature (`tree-path`) when the failure needs the TreeReduce path.
* frames hold plain columns plus at most one column of a special class (or a wide subset under
  numeric_only=True): every class is covered without multiplying labels by their cross products.

Genuine defects (PENDING, findings_proposed/C37.md): the suspected DESIGN §6 #18 defects were reproduced
(`min/max:skipna=False&empty-partition:spurious-NA`, `var:skipna=False&split_every-tree&empty-partition:spurious-NA`,
`idxmin/idxmax:all-NA-partition:ValueError@...`), plus wrong values of min/max(skipna=False) over mixed-kind frames,
alphabetically sorted idxmin/idxmax results, unsorted value_counts, and many failures on nullable / datetime columns.
Several PENDING labels share a root cause (R1..R9 in the findings file): the same defect reached through a
different trigger (empty partition vs. all-NA partition vs. plain second partition, series vs. frame path).
Found by the keyword x tree stratum: `value_counts:categorical-column&split_out>1:length` (an empty disk-shuffle output
partition is handed the non-empty meta of the categorical value_counts chunk; fix offered in fixes_ready/C37_04).
"""
from __future__ import annotations

import itertools
import random
import warnings

PROP = "C37"
RULE = ("cases = (frame seed/rows/index kind, partitioning description, operation, target series|frame + columns, "
        "options skipna/numeric_only/axis/min_count/ddof, split_every). Complete part: a fixed 6-row frame x all its "
        "partitionings (see EXHAUSTIVE_SPACE) x every operation x skipna x three targets; random part: 0-30 rows, 7 index "
        "kinds, 9 column dtypes, from_pandas/from_map/from_delayed partitionings with empty and single-row partitions. "
        "Keyword x tree stratum: every operation x target x each non-default keyword value alone (skipna, numeric_only, "
        "min_count, ddof, axis, sort, ascending, dropna, normalize, n) x split_every {2, 3, None/omitted} on 5-17 "
        "partitions (an intermediate combine level exists) x split_out {omitted, 1, True, 2} where accepted, plus random "
        "keyword combinations. non-trivial = at least 2 partitions and 2 rows; distinct = distinct description.")
ASSUMPTIONS = ["pandas 3.0.5 on the concatenated frame defines the expected value", "sync scheduler",
               "python-backed str dtype (pyarrow import stub); Arrow strings are not exercised"]
BUDGET = {"quick": 90, "thorough": 480}
# keyword x tree coverage floors (~45 % of the minimum over seeds 0 1 2 7 12345 on the unchanged tree): a keyword counts
# only with an intermediate combine level observed in the graph (kw_tree), the split_out shuffle on >= 5 partitions
# (kw_shuffle) or axis=1 on >= 5 partitions (kw_rowwise), and only where the pandas default answers differently
_KW_FLOORS_QUICK = {
    "kw_tree:cov:min_periods": 23, "kw_tree:corr:min_periods": 20, "covcorr_pair_with_2_joint_rows": 35,
    "covcorr_pair_with_2_joint_rows&min_periods": 27,
    "kw_rowwise:all:axis": 6, "kw_rowwise:any:axis": 6, "kw_rowwise:count:axis": 9,
    "kw_rowwise:idxmax:axis": 6, "kw_rowwise:idxmin:axis": 4, "kw_rowwise:max:axis": 8,
    "kw_rowwise:mean:axis": 8, "kw_rowwise:min:axis": 10, "kw_rowwise:nunique:axis": 10,
    "kw_rowwise:prod:axis": 8, "kw_rowwise:sem:axis": 8, "kw_rowwise:std:axis": 7,
    "kw_rowwise:sum:axis": 10, "kw_rowwise:var:axis": 8, "kw_shuffle:nunique:dropna": 26,
    "kw_shuffle:value_counts:ascending": 24, "kw_shuffle:value_counts:dropna": 32,
    "kw_shuffle:value_counts:normalize": 37, "kw_shuffle:value_counts:sort": 21,
    "kw_tree:all:skipna": 1, "kw_tree:any:skipna": 8, "kw_tree:corr:numeric_only": 6,
    "kw_tree:count:numeric_only": 8, "kw_tree:cov:numeric_only": 5, "kw_tree:idxmax:numeric_only": 4,
    "kw_tree:idxmin:numeric_only": 6, "kw_tree:max:numeric_only": 8, "kw_tree:max:skipna": 53,
    "kw_tree:mean:numeric_only": 9, "kw_tree:mean:skipna": 52, "kw_tree:min:numeric_only": 7,
    "kw_tree:min:skipna": 53, "kw_tree:mode:dropna": 20, "kw_tree:mode:numeric_only": 14,
    "kw_tree:nlargest:n": 92, "kw_tree:nsmallest:n": 88, "kw_tree:nunique:dropna": 14,
    "kw_tree:prod:min_count": 9, "kw_tree:prod:numeric_only": 9, "kw_tree:prod:skipna": 51,
    "kw_tree:sem:ddof": 18, "kw_tree:sem:numeric_only": 10, "kw_tree:sem:skipna": 57,
    "kw_tree:std:ddof": 13, "kw_tree:std:numeric_only": 8, "kw_tree:std:skipna": 54,
    "kw_tree:sum:min_count": 10, "kw_tree:sum:numeric_only": 9, "kw_tree:sum:skipna": 51,
    "kw_tree:value_counts:ascending": 30, "kw_tree:value_counts:dropna": 35,
    "kw_tree:value_counts:normalize": 52, "kw_tree:value_counts:sort": 42, "kw_tree:var:ddof": 18,
    "kw_tree:var:numeric_only": 10, "kw_tree:var:skipna": 56,
}
_KW_FLOORS_THOROUGH = {      # ~40 % of thorough seed 0
    "kw_tree:cov:min_periods": 85, "kw_tree:corr:min_periods": 83, "covcorr_pair_with_2_joint_rows": 190,
    "covcorr_pair_with_2_joint_rows&min_periods": 90,
    "kw_rowwise:all:axis": 46, "kw_rowwise:any:axis": 43, "kw_rowwise:count:axis": 62,
    "kw_rowwise:idxmax:axis": 45, "kw_rowwise:idxmin:axis": 43, "kw_rowwise:max:axis": 55,
    "kw_rowwise:mean:axis": 55, "kw_rowwise:min:axis": 58, "kw_rowwise:nunique:axis": 70,
    "kw_rowwise:prod:axis": 53, "kw_rowwise:sem:axis": 53, "kw_rowwise:std:axis": 45,
    "kw_rowwise:sum:axis": 70, "kw_rowwise:var:axis": 61, "kw_shuffle:nunique:dropna": 191,
    "kw_shuffle:value_counts:ascending": 157, "kw_shuffle:value_counts:dropna": 203,
    "kw_shuffle:value_counts:normalize": 222, "kw_shuffle:value_counts:sort": 126,
    "kw_tree:all:skipna": 10, "kw_tree:any:skipna": 45, "kw_tree:corr:numeric_only": 44,
    "kw_tree:count:numeric_only": 54, "kw_tree:cov:numeric_only": 39,
    "kw_tree:idxmax:numeric_only": 37, "kw_tree:idxmin:numeric_only": 37,
    "kw_tree:max:numeric_only": 56, "kw_tree:max:skipna": 241, "kw_tree:mean:numeric_only": 70,
    "kw_tree:mean:skipna": 224, "kw_tree:min:numeric_only": 56, "kw_tree:min:skipna": 234,
    "kw_tree:mode:dropna": 153, "kw_tree:mode:numeric_only": 122, "kw_tree:nlargest:n": 445,
    "kw_tree:nsmallest:n": 449, "kw_tree:nunique:dropna": 116, "kw_tree:prod:min_count": 40,
    "kw_tree:prod:numeric_only": 57, "kw_tree:prod:skipna": 214, "kw_tree:sem:ddof": 107,
    "kw_tree:sem:numeric_only": 58, "kw_tree:sem:skipna": 246, "kw_tree:std:ddof": 104,
    "kw_tree:std:numeric_only": 60, "kw_tree:std:skipna": 234, "kw_tree:sum:min_count": 47,
    "kw_tree:sum:numeric_only": 62, "kw_tree:sum:skipna": 223, "kw_tree:value_counts:ascending": 192,
    "kw_tree:value_counts:dropna": 238, "kw_tree:value_counts:normalize": 324,
    "kw_tree:value_counts:sort": 295, "kw_tree:var:ddof": 106, "kw_tree:var:numeric_only": 63,
    "kw_tree:var:skipna": 243,
}
FLOORS = {
    "quick": {"evaluations": 4000, "distinct_nontrivial": 3400, "max_skipped_fraction": 0.3,
              "counters": {"compared": 3700, "dtype_facet_checked": 3700, "empty_part": 870, "allna_part": 1100,
                           "single_row_part": 1950, "skipna_false": 820, "tree": 2150, "axis1": 215,
                           "multi_level_tree_cases": 2100, "shuffle_path_cases": 225, **_KW_FLOORS_QUICK},
              "sets": {"op_options": 710, "partition_shapes": 1400, "multi_level_tree_ops": 38, "tree_configs": 82,
                       "nondefault_kw": 170}},
    "thorough": {"evaluations": 30000, "distinct_nontrivial": 25000, "max_skipped_fraction": 0.3,
                 "counters": {"compared": 28900, "dtype_facet_checked": 28500, "empty_part": 7400, "allna_part": 5700,
                              "single_row_part": 13800, "skipna_false": 5100, "tree": 12900, "axis1": 2000,
                              "multi_level_tree_cases": 12000, "shuffle_path_cases": 1800, **_KW_FLOORS_THOROUGH},
                 "sets": {"op_options": 1600, "partition_shapes": 8900, "multi_level_tree_ops": 38, "tree_configs": 85,
                          "nondefault_kw": 200}},
}
EXHAUSTIVE_SPACE = {
    "quick": ("fixed 6-row frame: all 32 compositions into non-empty consecutive partitions + all weak compositions "
              "(empty partitions anywhere) into <=3 partitions (52 partitionings) x 22 operations x skipna in {True, False} "
              "where it applies x targets {Series float-with-NaN, DataFrame int/float-NaN/float/bool}, "
              "split_every=2, from_map partitions"),
    "thorough": ("fixed 6-row frame: all 32 compositions + all weak compositions into <=4 partitions (126 partitionings) "
                 "x 22 operations x skipna x targets {Series float-with-NaN, DataFrame int/float-NaN/float/bool, Series "
                 "nullable Int64}, split_every=2, from_map partitions"),
}
CLAIM = ("Every generated reduction/aggregation was computed by the real dask.dataframe and compared with pandas on the "
         "concatenated frame (kind, labels, dtype, values within rounding tolerance; documented tie rules for "
         "value_counts/mode/nlargest). Held = no mismatch and no dask exception inside the domain on the executions "
         "observed, apart from the listed known findings.")
LEVEL_NOTE = "pandas is the reference; domain limited to the operations and options the statement names"
TECHNIQUE = "runtime monitoring: pandas differential oracle over a complete small partitioning space + random frames"
CASE_TIMEOUT = 120
# known findings (known_findings.d/C37.json; root causes R1..R10 in findings_proposed/C37.md).  Fixed and removed:
# idxmin/idxmax:unsorted-columns:index (fixes_ready/C37_01), std:datetime-column:raises (C37_02, C37_03),
# var:ddof>=count:lost-NA (fixes_ready/C37_03).
PENDING = {
    'min/max:skipna=False&empty-partition:spurious-NA':
        'min/max(skipna=False) return NaN as soon as one partition is empty (Series and DataFrame)',
    'var:skipna=False&empty-partition:spurious-NA':
        'var/std/sem(skipna=False) return NaN when a partition is empty and a tree level combines it (split_every < npartitions)',
    'min/max:skipna=False&object-chunk-rows:wrong-value':
        'DataFrame.min/max(skipna=False) lose a NaN or return a wrong extreme when the per-partition result rows are object dtype (bool/str/datetime next to numeric columns, or a bool column next to the NaN of an empty partition)',
    'min/max:empty-or-all-NA-partition:dtype':
        'min/max of int64/bool/nullable-int columns come back float64 (or object) when a partition is empty or all-NA',
    'min/max:non-numeric-column&empty-partition:raises':
        "DataFrame.min/max raise TypeError ('>=' not supported between 'float' and 'str' / 'Timestamp') for a frame holding a str or datetime column when a partition is empty",
    'idxmin/idxmax:all-NA-partition:ValueError@dataframe/dask_expr/_reductions.py:chunk':
        "idxmin/idxmax raise 'Encountered all NA values' when ONE partition is all-NA in a column (e.g. a single-row partition holding NaN)",
    'idxmin/idxmax:nullable-column:raises':
        "idxmin/idxmax(skipna=False) (and axis=1) of a nullable Int64/boolean column raise 'Encountered an NA value with skipna=False' although the data has no NA",
    'idxmin/idxmax:str-column:raises':
        "idxmin/idxmax(skipna=False) of a str column raise 'Encountered an NA value with skipna=False'",
    'idxmin/idxmax:nullable-column:values':
        'DataFrame.idxmax over a float column and a nullable boolean column returns a later label than pandas for the boolean column (first occurrence expected)',
    'idxmin/idxmax:numeric_only=True&no-numeric-column:raises':
        "DataFrame.idxmin/idxmax(numeric_only=True) raise 'attempt to get argmax of an empty sequence' when no column is numeric (pandas: empty Series)",
    'mode:numeric_only=True&no-numeric-column:raises':
        "DataFrame.mode(numeric_only=True) raises 'No objects to concatenate' when no column is numeric (pandas: empty DataFrame)",
    'mode:categorical-column:length':
        'mode of an EMPTY categorical column returns every category (pandas: empty)',
    'value_counts:sort-omitted:order':
        'Series.value_counts() is not sorted by count (pandas default sort=True), even with one partition',
    'min/max:nullable-column:raises':
        "min/max(skipna=False) of a nullable Int64/boolean Series, or of a frame holding one, raise 'boolean value of NA is ambiguous' when a partition result is NA",
    'any/all:nullable-column:raises':
        "any/all(skipna=False) of a frame holding a nullable column raise TypeError 'boolean value of NA is ambiguous' / ValueError 'cannot convert float NaN to bool'",
    'any/all:nullable-column:lost-NA':
        'Series.any(skipna=False) of a nullable column answers False where pandas answers <NA> (Kleene logic)',
    'var:nullable-column:raises':
        'DataFrame.var/std/sem raise TypeError "float() argument must be ... not \'NAType\'" for a frame holding a nullable column with NA',
    'var:nullable-column:dtype':
        'DataFrame.var/std/sem of a frame holding a nullable column return float64 where pandas returns Float64',
    'describe:nullable-column:raises':
        'describe() of a nullable Int64 column raises TypeError "Cannot interpret \'Int64Dtype()\' as a data type"',
    'describe:nullable-column:dtype':
        'describe() of a frame holding a nullable column (when it does not raise) has float64 where pandas has Float64',
    'rowwise:nullable-column:raises':
        "axis=1 reductions (min/max/mean/any/all/idxmin/idxmax with skipna=False; sem/std/idxmax always) over a frame holding a nullable column raise 'Metadata inference failed'",
    'nlargest/nsmallest:nullable-column:index':
        'DataFrame.nlargest(n, [nullable key, float key]) over several partitions returns other rows than pandas (key with NA, duplicate index labels)',
    'mean:datetime-column:raises':
        'mean of a datetime column (Series, or DataFrame holding one) raises "\'DatetimeArray\' ... does not support operation \'sum\'" (pandas: Timestamp)',
    'describe:datetime-column:rows':
        "describe() of a datetime column has no 'mean' row (pandas has one)",
    'cov/corr:datetime-column:raises':
        'DataFrame.corr(numeric_only=True) raises TypeError for a frame holding a datetime column (pandas drops it and answers)',
    'nunique:signed-zero&multi-partition:values':
        'nunique counts -0.0 and +0.0 as two values when the data is spread over several partitions (hash shuffle of the '
        'split_out path; value_counts() and unique() with split_out != 1 list both zeros for the same reason)',
    'cov/corr:min_periods>2:lost-NA':
        'DataFrame/Series cov/corr ignore an explicit min_periods: Cov.aggregate_kwargs does not forward it, the aggregate '
        'step always uses 2 (fix offered: fixes_ready/C37_05)',
    'value_counts:categorical-column&split_out>1:length':
        'Series.value_counts(split_out=True|2) of a categorical column repeats categories with count 0: an empty disk-shuffle '
        'output partition is handed the non-empty chunk meta (fix offered: fixes_ready/C37_04)',
}

SKIPNA_OPS = ("sum", "prod", "min", "max", "mean", "var", "std", "sem", "any", "all", "idxmin", "idxmax")
OTHER_OPS = ("count", "nunique", "value_counts", "mode", "nlargest", "nsmallest", "describe", "cov", "corr", "len")
AXIS1_OPS = ("sum", "prod", "min", "max", "mean", "var", "std", "sem", "any", "all", "idxmin", "idxmax", "count", "nunique")
NUMONLY_OPS = ("sum", "prod", "min", "max", "mean", "var", "std", "sem", "idxmin", "idxmax", "count", "mode", "cov", "corr")
ORDER_OPS = ("min", "max", "idxmin", "idxmax", "nlargest", "nsmallest")
DESCRIBE_ROWS = ("count", "mean", "std", "min", "max")
FAMILY = {"min": "min/max", "max": "min/max", "idxmin": "idxmin/idxmax", "idxmax": "idxmin/idxmax", "sum": "sum/prod",
          "prod": "sum/prod", "any": "any/all", "all": "any/all", "cov": "cov/corr", "corr": "cov/corr",
          "nlargest": "nlargest/nsmallest", "nsmallest": "nlargest/nsmallest"}

# series column pools (pandas decides what is defined: an exception on the pandas side is a reject)
POOL = {
    "sum": "acdenmacdnb", "prod": "acdenm", "min": "abcdetnm", "max": "abcdetnm", "mean": "acdetnm",
    "var": "acdenm", "std": "acdenmt", "sem": "acdenm", "any": "acdenm", "all": "acdenm",
    "idxmin": "acdetnm", "idxmax": "acdetnm", "count": "abcdetknm", "nunique": "abcdetknm",
    "value_counts": "abcdetknm", "mode": "abcdetknm", "nlargest": "acdnt", "nsmallest": "acdnt",
    "describe": "acdnt", "cov": "acden", "corr": "acden", "len": "abcdetknm", "unique": "abcdetknm",
}
NUMERIC = "acdn"
PLAIN = "acde"
NUMBOOL = "acdnem"
WIDE = "abcdetknm"
CLASS = {"a": None, "c": None, "d": None, "e": None, "n": "nullable", "m": "nullable", "t": "datetime",
         "k": "categorical", "b": "str"}
CANON = "daecnmtkb"      # order in which single columns are tried by the label ablation


def _fixed_frame():
    import numpy as np
    import pandas as pd

    nan = np.nan
    df = pd.DataFrame({
        "a": np.array([1, 3, 0, 3, 2, 1], dtype="int64"),
        "b": pd.array(["x", "y", "x", "z", "y", "x"], dtype="str"),
        "c": [nan, 1.5, nan, nan, -2.25, 1.5],
        "d": [2.0, -1.0, 2.0, 0.0, -3.0, 2.0],
        "e": [True, False, False, True, True, False],
        "t": pd.to_datetime("2020-01-01") + pd.to_timedelta([5, 1, 5, 30, 2, 7], unit="h"),
        "k": pd.Categorical(["p", "q", "q", "r", "p", "q"], categories=["p", "q", "r", "unused"]),
        "n": pd.array([pd.NA, 4, 1, pd.NA, 4, 0], dtype="Int64"),
        "m": pd.array([True, pd.NA, False, False, pd.NA, True], dtype="boolean"),
    })
    df.index = pd.Index([3, 5, 6, 8, 9, 12], name="idx")
    return df


def _fixed_partitionings(tier):
    seen, out = set(), []
    cands = []
    for r in range(0, 6):          # all 32 compositions into non-empty parts
        cands.extend(list(c) for c in itertools.combinations(range(1, 6), r))
    for k in range(1, (4 if tier == "quick" else 5)):   # weak compositions into k parts: empty partitions anywhere
        cands.extend(list(c) for c in itertools.combinations_with_replacement(range(7), k - 1))
    for c in cands:
        if tuple(c) not in seen:
            seen.add(tuple(c))
            out.append(c)
    return out


FIXED_TARGETS = (("series", "c"), ("frame", "acde"), ("series", "n"))


def cases(tier, seed):
    rng = random.Random(seed * 7873 + 37)
    # ---- complete sub-space -------------------------------------------------------------
    for cuts in _fixed_partitionings(tier):
        part = {"how": "slices", "cuts": cuts}
        for target, cols in (FIXED_TARGETS if tier == "thorough" else FIXED_TARGETS[:2]):
            for op in SKIPNA_OPS:
                for skipna in (True, False):
                    yield _fixed_case(op, target, cols, part, {"skipna": skipna})
            for op in OTHER_OPS:
                if not (op == "value_counts" and target == "frame"):
                    yield _fixed_case(op, target, cols, part, {})
    # ---- random -----------------------------------------------------------------------
    k = 3000 if tier == "quick" else 40000
    for _ in range(k):
        yield _rand_case(rng)
    # ---- keyword x tree stratum ---------------------------------------------------------
    yield from _kw_cases(tier, random.Random(seed * 9973 + 3737))


# ------------------------------------------------------------------------------------------
# keyword x tree stratum: every keyword whose effect must survive the combine step of the tree reduction (or the
# shuffle of the split_out path), on >= 5 partitions so that an intermediate combine level exists

KW_OPS = SKIPNA_OPS + OTHER_OPS + ("unique",)
SPLIT_OUT_OPS = ("value_counts", "nunique", "unique")        # Series methods that accept split_out
DEFAULT_TREE_OPS = ("value_counts", "nlargest", "nsmallest", "unique")   # split_every defaults to None (= 8)
DROPNA_OPS = ("value_counts", "nunique", "unique", "mode", "count")
KW_DEFAULTS = {"skipna": True, "numeric_only": False, "min_count": 0, "ddof": 1, "axis": 0, "sort": None,
               "ascending": False, "dropna": True, "normalize": False, "n": 5, "min_periods": None}
SPLIT_OUTS = ("omit", 1, True, 2)


def _kw_table(op, target):
    """keyword -> non-default values, for the keywords the dask method accepts"""
    t = {}
    if op in SKIPNA_OPS:
        t["skipna"] = (False,)
    if op in NUMONLY_OPS and target == "frame":
        t["numeric_only"] = (True,)
    if op in ("sum", "prod"):
        t["min_count"] = (1, 2, "v+1", 1000)
    if op in ("var", "std", "sem"):
        t["ddof"] = (0, 2)
    if op == "value_counts":
        t.update(sort=(True, False), ascending=(True,), dropna=(False,), normalize=(True,))
    if op in ("nunique", "mode"):
        t["dropna"] = (False,)
    if op in ("nlargest", "nsmallest"):
        t["n"] = (1, 2, 3, 7, 40)
    if op in ("cov", "corr"):
        # relative to the joint (pairwise non-missing) counts of the used columns, diagonal included: jmin+1 puts at
        # least one pair below the threshold, jmax keeps at least one pair at it; dask documents min_periods >= 2
        t["min_periods"] = ("jmin+1", "jmax", "jmax+1", "jmin", 3, 5)
    if op in AXIS1_OPS and target == "frame":
        t["axis"] = (1,)
    return t


def _kw_targets(op):
    if op in ("value_counts", "unique"):
        return ("series",)
    return ("series", "frame")


def _kw_cases(tier, rng):
    reps = 2 if tier == "quick" else 6
    for op in KW_OPS:
        for target in _kw_targets(op):
            table = _kw_table(op, target)
            singles = [(k, v) for k, vals in table.items() for v in vals] or [None]
            sos = SPLIT_OUTS if (op in SPLIT_OUT_OPS and target == "series") else ("omit",)
            for single in singles:
                for se in (2, 3, "default"):
                    for so in sos:
                        # keywords that are often refused by pandas or fail before a graph exists get more tries
                        more = single and (single[0] in ("numeric_only", "axis") or op in ("any", "all"))
                        for _ in range(reps * 2 if more else reps):
                            yield _kw_case(rng, op, target, table, single, se, so, 0.25)
    opw = KW_OPS + ("value_counts",) * 5 + ("nunique", "unique", "mode") * 2
    for _ in range(1400 if tier == "quick" else 12000):
        op = rng.choice(opw)
        target = rng.choice(_kw_targets(op))
        so = rng.choice(SPLIT_OUTS) if (op in SPLIT_OUT_OPS and target == "series") else "omit"
        yield _kw_case(rng, op, target, _kw_table(op, target), None, rng.choice((2, 3, "default")), so, 0.45)


def _kw_case(rng, op, target, table, single, se, so, extra_p):
    from ..gen import frames as F

    kw = {}
    if single:
        kw[single[0]] = single[1]
    for k, vals in table.items():
        # axis=1 has no tree at all: only as the single keyword, or rarely
        if k not in kw and rng.random() < (0.08 if k == "axis" else extra_p):
            kw[k] = rng.choice(vals)
    if op in ("nlargest", "nsmallest") and "n" not in kw:
        kw["n"] = rng.choice((1, 2, 3, 5, 7, 40))
    if se == "default":        # None = 8 (the default of DEFAULT_TREE_OPS): an intermediate level needs > 8 partitions
        nparts = rng.choice((9, 10, 12, 17))
        se = "omit" if (op in DEFAULT_TREE_OPS and rng.random() < 0.5) else None
    else:
        nparts = rng.choice((5, 6, 7, 9, 11))
    n = rng.randint(2 * nparts, max(45, 2 * nparts))
    how = rng.choice(("npartitions",) * 11 + ("slices",) * 6 + ("delayed",) * 3)
    if how == "npartitions":
        part = {"how": how, "n": nparts, "clear": rng.random() < 0.15}
    else:
        cuts = sorted(rng.sample(range(1, n), nparts - 1))
        if rng.random() < 0.25:           # one empty partition
            i = rng.randrange(len(cuts))
            cuts[i] = cuts[i - 1] if i else 0
        part = {"how": how, "cuts": sorted(cuts)}
    case = {"op": op, "seed": rng.randrange(2 ** 31), "nrows": n, "index": rng.choice(F.INDEX_KINDS), "part": part,
            "kw": kw, "target": target, "kwtree": True}
    if se != "omit":
        case["se"] = se
    if so != "omit":
        case["so"] = so
    na_wanted = any(k in kw for k in ("skipna", "dropna", "min_count")) or op in DROPNA_OPS
    if op in ("any", "all") and "skipna" in kw and rng.random() < 0.6:
        # skipna only matters for any/all when the valid values alone give the opposite answer: every valid value of
        # the NaN/NA bearing columns is made falsy (any) / truthy (all)
        case["flat"] = op
    if target == "series":
        pool = POOL[op]
        nas = [c for c in pool if c in "cnm"]
        if op in DROPNA_OPS and rng.random() < 0.3:
            case["col"] = rng.choice([c for c in pool if c in "bkt"])
            case["na"] = case["col"]              # missing values injected into the str / categorical / datetime column
        elif na_wanted and nas and rng.random() < 0.8:
            case["col"] = rng.choice(nas + ["c"])
        else:
            case["col"] = rng.choice(pool)
        if op in ("cov", "corr"):
            case["col2"] = rng.choice(POOL[op])
    else:
        special = "nm" if op in ("describe", "cov", "corr", "nlargest", "nsmallest") else "nmtbk"
        nonnum = "bkbkt" if op in ("cov", "corr") else "tbk"
        if op in ORDER_OPS:
            special, nonnum = special.replace("k", ""), nonnum.replace("k", "")
        cols = rng.sample(PLAIN, rng.randint(2, 4))
        if na_wanted and "c" not in cols:
            cols[rng.randrange(len(cols))] = "c"
        if kw.get("numeric_only"):
            cols.insert(rng.randint(0, len(cols)), rng.choice(nonnum))     # the default would see a non-numeric column
        elif rng.random() < 0.3:
            cols.insert(rng.randint(0, len(cols)), rng.choice(special))
        if kw.get("axis") == 1:
            cols = [c for c in cols if c in NUMBOOL]
            if len(cols) < 2:
                cols = rng.sample(NUMBOOL, 2)
            kw.pop("numeric_only", None)
        if op in DROPNA_OPS and rng.random() < 0.3:
            na = [c for c in cols if c in "bkt"]
            if na:
                case["na"] = na[0]
        case["cols"] = sorted(cols, key=WIDE.index) if rng.random() < 0.7 else cols
        if op in ("nlargest", "nsmallest"):
            cs = [c for c in case["cols"] if c in "acdnt"] or case["cols"]
            kw["columns"] = rng.choice(cs) if rng.random() < 0.7 else rng.sample(cs, min(2, len(cs)))
    if op in ("cov", "corr") and ("min_periods" in kw or rng.random() < 0.4):
        # NaN-heavy c and d: few jointly valid rows per column pair ("joint2": the pair (c, d) has exactly 2)
        case["sparse"] = rng.choice(("heavy", "heavy", "joint2"))
        if target == "series":
            if rng.random() < 0.8:
                case["col"], case["col2"] = rng.choice((("c", "d"), ("d", "c"), ("c", "a"), ("d", "n"), ("e", "c")))
        else:
            case["cols"] = list(case["cols"]) + [x for x in "cd" if x not in case["cols"]]
    return case


def _fixed_case(op, target, cols, part, kw):
    c = {"space": "exhaustive", "fixed": True, "op": op, "target": target, "part": part, "kw": dict(kw), "se": 2}
    if target == "series":
        c["col"] = cols
        if op in ("cov", "corr"):
            c["col2"] = "d"
    else:
        c["cols"] = list(cols)
        if op in ("nlargest", "nsmallest"):
            c["kw"]["columns"] = "c"
    if op in ("nlargest", "nsmallest"):
        c["kw"]["n"] = 2
    return c


OPW = (SKIPNA_OPS + OTHER_OPS) * 2 + ("var", "mean", "idxmax", "idxmin", "min", "max", "sem", "sum", "count", "nunique")


def _rand_case(rng):
    from ..gen import frames as F

    op = rng.choice(OPW)
    u = rng.random()
    n = 0 if u < 0.03 else (rng.randint(1, 4) if u < 0.25 else rng.randint(5, 30))
    index = rng.choice(F.INDEX_KINDS)
    if rng.random() < 0.12:
        part = {"how": "chunksize", "n": 1}                      # single-row partitions
    else:
        part = F.rand_partition_desc(rng, n)
    case = {"op": op, "seed": rng.randrange(2 ** 31), "nrows": n, "index": index, "part": part, "kw": {}}
    se = rng.choice((2, 3, False, None, "omit"))
    if se != "omit":
        case["se"] = se
    kw = case["kw"]
    target = "series" if (rng.random() < 0.5 or op == "value_counts") else "frame"
    case["target"] = target
    wide = WIDE.replace("k", "") if op in ORDER_OPS else WIDE
    if target == "series":
        case["col"] = rng.choice(POOL[op])
        if op in ("cov", "corr"):
            case["col2"] = rng.choice(POOL[op])
    else:
        u = rng.random()
        # frames: plain columns (int64 / float-NaN / float / bool) plus AT MOST ONE column of a special class
        # (nullable, datetime, str, categorical) - every class is covered, their cross products are not multiplied -
        # or a wide random subset filtered by numeric_only=True
        special = "nm" if op in ("describe", "cov", "corr", "nlargest", "nsmallest") else "nmtbk"
        if op in ORDER_OPS:
            special = special.replace("k", "")
        if u < 0.75 or op not in NUMONLY_OPS:
            cols = rng.sample(PLAIN, rng.randint(1, 4))
            if rng.random() < 0.5:
                sp = rng.choice(special)
                if rng.random() < 0.2:
                    cols = [sp]
                else:
                    cols.insert(rng.randint(0, len(cols)), sp)
        else:
            cols = rng.sample(wide, rng.randint(2, len(wide)))
            kw["numeric_only"] = True
        if op in AXIS1_OPS and rng.random() < 0.3:
            # row-wise: only columns on which the reduction is defined column-wise too (pandas answers mixed
            # str/datetime/categorical rows through object coercion, and refuses the same program on an empty frame)
            kw["axis"] = 1
            cols = [c for c in cols if c in NUMBOOL] or rng.sample(NUMBOOL, 2)
        case["cols"] = sorted(cols, key=WIDE.index) if rng.random() < 0.6 else cols
        if op in NUMONLY_OPS and "numeric_only" not in kw and rng.random() < 0.3:
            kw["numeric_only"] = rng.random() < 0.5
    if op in SKIPNA_OPS and rng.random() < 0.6:
        kw["skipna"] = rng.random() < 0.55
    if op in ("sum", "prod") and rng.random() < 0.35:
        kw["min_count"] = rng.choice((0, 1, 2, 5))
    if op in ("var", "std", "sem") and rng.random() < 0.4:
        kw["ddof"] = rng.choice((0, 1, 2))
    if op in ("nlargest", "nsmallest"):
        kw["n"] = rng.choice((1, 2, 3, 5, 40))
        if target == "frame":
            cs = [c for c in case["cols"] if c in "acdnt"] or case["cols"]
            kw["columns"] = rng.choice(cs) if rng.random() < 0.7 else rng.sample(cs, min(2, len(cs)))
    return case


# ------------------------------------------------------------------------------------------
# building and running one description

def shard_setup(tier, seed):
    from ..gen import frames as F

    F.setup()
    import dask

    dask.config.set(scheduler="sync")


def _frame(case):
    from ..gen import frames as F

    if case.get("fixed"):
        pdf = _fixed_frame()
    else:
        pdf = F.rand_frame(case["seed"], nrows=case["nrows"], index=case["index"], cols="wide")
    if case.get("na"):                                    # missing values in the str / categorical / datetime column
        import numpy as np

        for col in case["na"]:
            mask = np.random.default_rng([case["seed"], ord(col)]).random(len(pdf)) < 0.25
            pdf[col] = pdf[col].mask(mask)
    if case.get("sparse") and len(pdf):                   # NaN-heavy float columns c and d (cov/corr)
        import numpy as np

        r = np.random.default_rng([case["seed"], 77])
        n = len(pdf)
        if case["sparse"] == "joint2" and n >= 6:
            perm = r.permutation(n)
            ka, kb = int(r.integers(1, max(2, (n - 2) // 2))), int(r.integers(1, max(2, (n - 2) // 2)))
            both, only_c, only_d = perm[:2], perm[2:2 + ka], perm[2 + ka:2 + ka + kb]
            keep_c, keep_d = np.zeros(n, bool), np.zeros(n, bool)
            keep_c[both] = keep_c[only_c] = True
            keep_d[both] = keep_d[only_d] = True
            cvals = pdf["c"].fillna(0.25)                 # the 2 joint rows must hold values in both columns
            pdf["c"] = cvals.where(keep_c)
            pdf["d"] = pdf["d"].where(keep_d)
        else:
            pdf["c"] = pdf["c"].where(r.random(n) >= 0.65)
            pdf["d"] = pdf["d"].where(r.random(n) >= 0.6)
    if case.get("flat"):                                  # valid values of c / n / m all falsy (any) or truthy (all)
        v = case["flat"] == "all"
        pdf["c"] = pdf["c"].where(pdf["c"].isna(), 1.0 if v else 0.0)
        pdf["n"] = pdf["n"].where(pdf["n"].isna(), 1 if v else 0)
        pdf["m"] = pdf["m"].where(pdf["m"].isna(), v)
    if case.get("poszero") and "c" in pdf:                # only used by the label ablation: -0.0 -> +0.0
        pdf["c"] = pdf["c"] + 0.0
    for col, dt in (case.get("cast") or {}).items():     # only used by the label ablation
        pdf[col] = pdf[col].astype(dt)
    return pdf


def _select(obj, case):
    if case["target"] == "series":
        return obj[case["col"]]
    return obj[list(case["cols"])]


def _program(obj, base, case, dask_side, info=None):
    """The same program for both sides; `obj` is the selected frame/series, `base` the whole frame."""
    op = case["op"]
    kw = dict(case["kw"])
    if dask_side and "se" in case:
        kw["split_every"] = case["se"]
    if dask_side and "so" in case:
        kw["split_out"] = case["so"]
    if op == "len":
        return len(obj)
    if op in ("cov", "corr") and case["target"] == "series":
        r = getattr(obj, op)(base[case["col2"]], **kw)
    else:
        r = getattr(obj, op)(**kw)
    if dask_side and hasattr(r, "compute"):
        if info is not None:
            info.update(_graph_shape(r))
        r = r.compute(scheduler="sync")
    return r


def _graph_shape(coll):
    """what the lowered graph holds: intermediate combine levels of a TreeReduce (keys (<cls>-tree-<token>, j >= 1, i))
    and shuffle tasks (the split_out path)"""
    try:
        g = coll.__dask_graph__()
    except Exception:  # noqa: BLE001 - compute() will raise the same error inside the monitored call
        return {}
    levels, shuffle = 0, False
    for k in g:
        name = k[0] if isinstance(k, tuple) else k
        if not isinstance(name, str):
            continue
        if "shuffle" in name:
            shuffle = True
        if isinstance(k, tuple) and len(k) == 3 and "-tree-" in name and isinstance(k[1], int) and k[1] > levels:
            levels = k[1]
    return {"tree_levels": levels, "shuffle": shuffle}


def _resolve(case, pdf):
    """symbolic keyword values: min_count 'v+1' = one more than the smallest number of valid values of a used column"""
    if case["kw"].get("min_count") == "v+1":
        v = min([int(pdf[c].notna().sum()) for c in _used_columns(case)] or [0])
        case = _variant(case, kw_min_count=v + 1)
    mp = case["kw"].get("min_periods")
    if isinstance(mp, str):
        # joint (pairwise non-missing) counts over the numeric columns used, diagonal included
        cols = [c for c in _used_columns(case) if c in NUMBOOL]
        joint = [int((pdf[x].notna() & pdf[y].notna()).sum()) for i, x in enumerate(cols) for y in cols[i:]] or [0]
        v = (min(joint) if mp.startswith("jmin") else max(joint)) + (1 if mp.endswith("+1") else 0)
        case = _variant(case, kw_min_periods=max(2, v))
    return case


class _Outcome:
    __slots__ = ("status", "symptom", "msg", "facts", "result", "expected", "exc")

    def __init__(self, status, symptom=None, msg="", facts=None, result=None, expected=None, exc=None):
        self.status, self.symptom, self.msg, self.facts = status, symptom, msg, facts
        self.result, self.expected, self.exc = result, expected, exc


def _exc_symptom(ex):
    from ..core.ctx import exc_label

    lab = exc_label(ex)
    # Reduction.combine / Reduction.aggregate are the same wrapper at different tree levels
    for fn in (":combine", ":aggregate"):
        if lab.endswith("_reductions.py" + fn):
            lab = lab[: -len(fn)] + ":combine|aggregate"
    return lab


def _evaluate(case):
    """status: reject | unsupported | envlimited | ok (symptom None) | bad (symptom = mismatch kind or exception label)"""
    import dask
    import numpy as np

    from ..core.ctx import through_shim
    from ..gen import frames as F

    pdf = _frame(case)
    case = _resolve(case, pdf)
    with warnings.catch_warnings():
        warnings.simplefilter("ignore")
        try:
            with np.errstate(all="ignore"):
                expected = _program(_select(pdf, case), pdf, case, False)
        except Exception as ex:  # noqa: BLE001 - the reference refuses
            return _Outcome("reject", msg="%s: %s" % (type(ex).__name__, str(ex)[:60]))
        if case["op"] in ("var", "std", "sem") and "ddof" in case["kw"]:
            nul = [c for c in _used_columns(case) if CLASS[c] == "nullable" and c not in (case.get("cast") or {})]
            if nul and min(int(pdf[c].notna().sum()) for c in nul) <= case["kw"]["ddof"]:
                # pandas is self-inconsistent here: NaN for numpy-backed columns, inf (numpy's M/0) for masked ones
                return _Outcome("reject", msg="ddof >= valid count on a nullable column: pandas has no single rule")
        if len(pdf) == 0 and not case.get("fixed"):
            # pandas accepts on an EMPTY frame programs it refuses on data (nothing is evaluated): the reduction is
            # "defined" only if pandas also answers for a non-empty frame of the same schema
            probe = _variant(case, nrows=6)
            pp = _frame(probe)
            try:
                with np.errstate(all="ignore"):
                    _program(_select(pp, probe), pp, probe, False)
            except Exception as ex:  # noqa: BLE001
                return _Outcome("reject", msg="only vacuously defined on the empty frame: %s" % type(ex).__name__)
        ddf = F.partition(pdf, case["part"])
        parts = dask.compute(*ddf.to_delayed(), scheduler="sync")
        facts = _facts(case, pdf, parts)
        try:
            with np.errstate(all="ignore"):
                result = _program(_select(ddf, case), ddf, case, True, facts)
        except NotImplementedError as ex:
            return _Outcome("unsupported", msg=str(ex)[:80], facts=facts)
        except Exception as ex:  # noqa: BLE001
            if through_shim(ex):
                return _Outcome("envlimited", msg="%s: %s" % (type(ex).__name__, ex), facts=facts)
            return _Outcome("bad", _exc_symptom(ex), "%s: %s" % (type(ex).__name__, str(ex)[:300]), facts, None, expected, ex)
        try:
            mm = _compare(case, result, expected, pdf, facts)
        except Exception as ex:  # noqa: BLE001 - comparison must never escape
            mm = ("compare-error", "%s: %s" % (type(ex).__name__, ex))
    if mm:
        return _Outcome("bad", mm[0], mm[1], facts, result, expected)
    return _Outcome("ok", None, "", facts, result, expected)


def _used_columns(case):
    if case["target"] == "series":
        return [case["col"]] + ([case["col2"]] if "col2" in case else [])
    return list(case["cols"])


def _facts(case, pdf, parts):
    lens = [len(p) for p in parts]
    cols = _used_columns(case)
    allna = False
    for p in parts:
        if len(p):
            for c in cols:
                if p[c].isna().all() and not pdf[c].isna().all():
                    allna = True
    se = case.get("se")
    sz = False
    if "c" in cols and len(pdf):
        import numpy as np

        z = pdf["c"].to_numpy()
        z = z[z == 0]
        sz = bool(len(z) and np.signbit(z).any() and not np.signbit(z).all())
    joint2 = False
    if case["op"] in ("cov", "corr"):
        num = [c for c in cols if c in NUMBOOL]
        joint2 = any(int((pdf[x].notna() & pdf[y].notna()).sum()) == 2 for i, x in enumerate(num) for y in num[i + 1:])
    return {"joint2": joint2, "signed_zero": sz,"min_valid": int(min([pdf[c].notna().sum() for c in cols] or [0])), "n": len(pdf), "nparts": len(parts), "lens": lens, "empty_part": len(pdf) > 0 and 0 in lens,
            "allna_part": allna, "single_row_part": 1 in lens, "tree_levels": 0, "shuffle": False,
            "tree":isinstance(se, int) and not isinstance(se, bool) and len(parts) > se}


def _scale(pdf, case):
    import numpy as np

    m = 1.0
    for c in _used_columns(case):
        if c in "acdn" and len(pdf) and pdf[c].notna().any():
            m = max(m, float(np.nanmax(np.abs(pdf[c].astype("float64").to_numpy(na_value=np.nan)))))
    return m


def _compare(case, r, e, pdf, facts):
    import pandas as pd

    from ..gen import frames as F

    op = case["op"]
    check_dtype = facts["n"] > 0
    if op == "len":
        return None if (isinstance(r, int) and r == e) else ("values", "len %r vs %r" % (r, e))
    if op == "value_counts":
        return _cmp_value_counts(case, r, e, check_dtype)
    if op == "unique":
        return _cmp_unique(r, e, check_dtype)
    if op == "mode" and case["kw"].get("dropna") is False:
        # the place of a missing mode among the sorted modes is an accident of pandas' code path (first for
        # categorical / datetime, last otherwise): missing entries are moved to the end on both sides
        r, e = _missing_last(r), _missing_last(e)
    if op == "describe":
        if not isinstance(r, type(e)):
            return ("kind", "got %s, expected %s" % (type(r).__name__, type(e).__name__))
        rows = [x for x in DESCRIBE_ROWS if x in e.index]
        missing = [x for x in rows if x not in r.index]
        if missing:
            return ("rows", "describe result lacks row(s) %s (has %s)" % (missing, list(r.index)))
        r, e = r.loc[rows], e.loc[rows]
    if isinstance(e, (pd.Series, pd.DataFrame)):
        return _cmp_pandas(r, e, True, check_dtype)
    return _cmp_scalar(r, e, _scale(pdf, case), check_dtype)


def _missing_last(x):
    import numpy as np
    import pandas as pd

    def one(s):
        return s.iloc[np.argsort(s.isna().to_numpy(), kind="stable")].reset_index(drop=True)

    if isinstance(x, pd.Series):
        return one(x)
    if isinstance(x, pd.DataFrame) and x.columns.is_unique and len(x.columns):
        return pd.DataFrame({c: one(x[c]) for c in x.columns}, columns=x.columns)
    return x


def _norm_dtype(dt):
    s = str(dt)
    return "strlike" if s in ("object", "str", "string", "string[python]") else s


def _plain(x):
    """Values facet only: every missing marker (None/NaN/NA/NaT) of an object or nullable column becomes NaN and
    Timedelta elements become float microseconds (they are computed through floats: rounding tolerance applies)."""
    import numpy as np
    import pandas as pd

    def one(s):
        if s.dtype.kind == "m":
            out = s.astype("int64").astype("float64") / 1e3
            out[s.isna()] = np.nan
            return out
        if s.dtype == object or isinstance(s.dtype, (pd.core.arrays.masked.BaseMaskedDtype,)):
            vals = [np.nan if (v is None or v is pd.NA or v is pd.NaT or (isinstance(v, float) and v != v))
                    else (v.value / 1e3 if isinstance(v, pd.Timedelta) else v) for v in s.astype(object)]
            out = pd.Series(vals, index=s.index, name=s.name, dtype=object)
            try:
                return out.astype("float64") if all(isinstance(v, (int, float, np.integer, np.floating)) and
                                                    not isinstance(v, (bool, np.bool_)) for v in vals) else out
            except (TypeError, ValueError):
                return out
        return s

    if isinstance(x, pd.Series):
        return one(x)
    if isinstance(x, pd.DataFrame) and len(x.columns):
        out = pd.concat([one(x.iloc[:, i]) for i in range(x.shape[1])], axis=1)
        out.columns = x.columns
        return out
    return x


def _na_direction(pr, pe):
    """refine a values mismatch: `spurious-NA` (missing where pandas has a value), `lost-NA` (a value where pandas
    has missing), else `values`"""
    try:
        rm, em = pr.isna().to_numpy(), pe.isna().to_numpy()
        if rm.shape == em.shape:
            if (rm & ~em).any():
                return "spurious-NA"
            if (em & ~rm).any():
                return "lost-NA"
    except Exception:  # noqa: BLE001
        pass
    return "values"


def _cmp_pandas(r, e, ordered, check_dtype):
    """values first (missing markers unified), then the dtype facet: symptom `dtype` means 'values equal, dtype not'"""
    import pandas as pd

    from ..gen import frames as F

    if type(r) is not type(e):
        return ("kind", "got %s, expected %s" % (type(r).__name__, type(e).__name__))
    pr, pe = _plain(r), _plain(e)
    mm = _reclass(F.compare(pr, pe, ordered=ordered, rtol=1e-9, check_dtype=False))
    if mm and mm[0] == "values" and ordered:
        mm = (_na_direction(pr, pe), mm[1])
    if mm or not check_dtype:
        return mm
    # pandas leaves the dtype of an all-missing result to the accident of its code path: dtype facet only where
    # the expected result holds at least one value
    if isinstance(e, pd.Series):
        if _norm_dtype(r.dtype) != _norm_dtype(e.dtype) and len(e) and not e.isna().all():
            return ("dtype", "dtype %s vs expected %s" % (r.dtype, e.dtype))
    else:
        for c in range(len(e.columns)):
            if len(e) and e.iloc[:, c].isna().all():
                continue
            if _norm_dtype(r.dtypes.iloc[c]) != _norm_dtype(e.dtypes.iloc[c]):
                return ("dtype", "column %r dtype %s vs expected %s" % (e.columns[c], r.dtypes.iloc[c], e.dtypes.iloc[c]))
    return None


def _reclass(mm):
    """frames.compare classifies by words in the pandas message; '[index]:' inside a values message is not an
    index mismatch."""
    if not mm:
        return mm
    kind, msg = mm
    low = msg.lower()
    if kind == "index" and not (".index" in low or "index classes" in low or "index are different" in low
                                or "columns" in low or "multiindex" in low):
        kind = "values"
    return (kind, msg)


def _skind(v):
    import numpy as np
    import pandas as pd

    if v is pd.NA:
        return "NA"
    if v is pd.NaT:
        return "NaT"
    if isinstance(v, (bool, np.bool_)):
        return "bool"
    if isinstance(v, (int, np.integer)):
        return "int"
    if isinstance(v, (float, np.floating)):
        return "float"
    if isinstance(v, str):
        return "str"
    return type(v).__name__


def _cmp_scalar(r, e, scale, check_dtype):
    import numpy as np
    import pandas as pd

    if isinstance(r, (pd.Series, pd.DataFrame, pd.Index, np.ndarray)) and getattr(r, "ndim", 1) > 0:
        return ("kind", "got %s, expected scalar %r" % (type(r).__name__, e))
    rk, ek = _skind(r), _skind(e)
    if isinstance(r, pd.Timedelta) and isinstance(e, pd.Timedelta) and not (pd.isna(r) or pd.isna(e)):
        # computed through float64: rounding tolerance in the unit of the result
        return None if abs(r.value - e.value) <= 1e-9 * abs(e.value) + 2000 else ("values", "scalar %r vs expected %r" % (r, e))
    try:
        rna, ena = bool(pd.isna(r)), bool(pd.isna(e))
    except (TypeError, ValueError):
        rna = ena = False
    if rna or ena:
        if rna != ena:
            return ("spurious-NA" if rna else "lost-NA", "scalar %r vs expected %r" % (r, e))
        return None   # NaN / NA / NaT are all "missing" for a scalar (frames.compare discipline)
    if ek in ("float", "int", "bool") and rk in ("float", "int", "bool"):
        if ek == "float" or rk == "float":
            ok = abs(float(r) - float(e)) <= 1e-9 * abs(float(e)) + 1e-9 * scale or (np.isinf(e) and r == e)
        else:
            ok = int(r) == int(e)
        if not ok:
            return ("values", "scalar %r vs expected %r" % (r, e))
        if check_dtype and rk != ek:
            return ("dtype", "scalar %r is %s, expected %r is %s" % (r, rk, e, ek))
        return None
    try:
        if r == e:
            if check_dtype and rk != ek:
                return ("dtype", "scalar %r is %s, expected %r is %s" % (r, type(r).__name__, e, type(e).__name__))
            return None
    except Exception:  # noqa: BLE001
        pass
    return ("values", "scalar %r vs expected %r" % (r, e))


def _cmp_value_counts(case, r, e, check_dtype):
    import pandas as pd

    from ..gen import frames as F

    if not isinstance(r, pd.Series):
        return ("kind", "got %s, expected Series" % type(r).__name__)
    mm = _cmp_pandas(r, e, False, check_dtype)
    if mm:
        return mm
    if r.index.name != e.index.name:
        return ("name", "index name %r vs expected %r" % (r.index.name, e.index.name))
    kw = case["kw"]
    if len(r) > 1 and kw.get("sort", True) in (True, None):
        # pandas sort=True (its default): sorted by count, descending unless ascending=True (ties unspecified);
        # sort=False promises no order that a partitioned computation could reproduce -> multiset only
        v = [float(x) for x in r.to_numpy()]
        if kw.get("ascending"):
            v = v[::-1]
        if not all(v[i] >= v[i + 1] for i in range(len(v) - 1)):
            return ("order", "counts not %s: %s" % ("non-decreasing" if kw.get("ascending") else "non-increasing",
                                                    [round(x, 3) for x in (v[::-1] if kw.get("ascending") else v)][:12]))
    return None


def _cmp_unique(r, e, check_dtype):
    """Series.unique: pandas gives an array in order of first appearance, dask a Series whose order depends on the
    partitioning/shuffle: the SET of values (missing markers unified, each value once) and the dtype are compared"""
    import pandas as pd

    if not isinstance(r, pd.Series):
        return ("kind", "got %s, expected a Series of the unique values" % type(r).__name__)

    def norm(vals):
        out = []
        for v in vals:
            try:
                miss = bool(pd.isna(v))
            except (TypeError, ValueError):
                miss = False
            out.append(("~missing",) if miss else (type(v).__name__ if isinstance(v, str) else "", v))
        return out

    rv, ev = norm(list(r.astype(object))), norm(list(pd.Series(e).astype(object)))
    if len(rv) != len(set(rv)):
        return ("duplicates", "unique() holds a value twice: %r" % (list(r)[:12],))
    if set(rv) != set(ev):
        rm, em = ("~missing",) in rv, ("~missing",) in ev
        kind = "spurious-NA" if (rm and not em) else ("lost-NA" if (em and not rm) else "values")
        return (kind, "unique values %r vs expected %r" % (list(r)[:12], list(e)[:12]))
    if check_dtype and len(ev) and _norm_dtype(r.dtype) != _norm_dtype(pd.Series(e).dtype):
        return ("dtype", "dtype %s vs expected %s" % (r.dtype, pd.Series(e).dtype))
    return None


# ------------------------------------------------------------------------------------------
# label = op family : causal features (found by ablation) : symptom

def _variant(case, **changes):
    v = {k: (dict(x) if isinstance(x, dict) else (list(x) if isinstance(x, list) else x)) for k, x in case.items()}
    kw = v["kw"]
    for k, x in changes.items():
        if k.startswith("kw_"):
            if x is _DROP:
                kw.pop(k[3:], None)
            else:
                kw[k[3:]] = x
        elif x is _DROP:
            v.pop(k, None)
        else:
            v[k] = x
    return v


_DROP = object()


def _repro(v, symptom):
    try:
        o = _evaluate(v)
    except Exception:  # noqa: BLE001 - a variant the harness cannot build is "no repro"
        return False
    return o.status == "bad" and o.symptom == symptom


def _gone(v, symptom):
    """option ablation: True when removing the option removes the symptom.  A `dtype` symptom that disappears only
    because the variant's expected result is all-missing (dtype facet not applicable) is not evidence."""
    import pandas as pd

    try:
        o = _evaluate(v)
    except Exception:  # noqa: BLE001
        return True
    if o.status == "bad" and o.symptom == symptom:
        return False
    if symptom == "dtype" and o.status == "ok":
        e = o.expected
        try:
            if isinstance(e, (pd.Series, pd.DataFrame)) and (len(e) == 0 or bool(pd.isna(e).all(axis=None))):
                return False
            if not isinstance(e, (pd.Series, pd.DataFrame)) and bool(pd.isna(e)):
                return False
        except Exception:  # noqa: BLE001
            pass
    return True


def _single(case, col):
    ch = {}
    if case["target"] == "series":
        ch["col"] = col
    else:
        ch["cols"] = [col]
        if "columns" in case["kw"]:
            ch["kw_columns"] = col
    return _variant(case, **ch)


def _label(case, out):
    """ablation (causal features) -> canonical mechanism label.

    The ablation tells WHICH features are causal; the canonical label keeps only the features that define a
    mechanism and drops the trigger variants of that mechanism (which partition happened to be empty / all-NA /
    merely second, series or frame path, tree level, empty frame, exception location), so that one defect has one
    label (or a small closed family by symptom class) while a defect with other causal features keeps its own label.
    """
    fam, feats, sym, cur = _attribute(case, out)
    return _canonical(fam, feats, sym, cur)


def _canonical(fam, feats, sym, cur):
    F = set(feats)
    exc = "@" in sym
    symclass = "raises" if exc else sym
    classes = set()
    for f in feats:
        if f.endswith("-column") and f != "multi-column":
            classes |= set(f[: -len("-column")].split("+"))
    cols = set(_used_columns(cur))
    # R1: the NaN chunk result of an EMPTY partition wins under skipna=False
    if fam in ("min/max", "var", "std", "sem") and {"skipna=False", "empty-partition"} <= F and sym == "spurious-NA" \
            and not classes:
        return "%s:skipna=False&empty-partition:spurious-NA" % ("var" if fam != "min/max" else fam)
    # R2: chunk rows of mixed column kinds (or bool/str/datetime next to the NaN of an empty partition) are object
    # dtype; min/max(skipna=False) over object columns loses NaN / picks a wrong extreme
    if fam == "min/max" and "skipna=False" in F and sym in ("lost-NA", "values") and "nullable" not in classes \
            and (cols & set("ebtk") or "bool" in (cur.get("cast") or {}).values()):
        return "min/max:skipna=False&object-chunk-rows:wrong-value"
    # R5: an empty / all-NA partition's NaN chunk result changes the dtype or cannot be compared with str/datetime
    if fam == "min/max" and sym == "dtype" and classes <= {"nullable"} and F & {"empty-partition", "all-NA-partition"}:
        return "min/max:empty-or-all-NA-partition:dtype"
    if fam == "min/max" and exc and classes and classes <= {"str", "datetime"} and "empty-partition" in F:
        return "min/max:non-numeric-column&empty-partition:raises"
    # R12: an explicit min_periods never reaches the aggregate step (frame and series path, any partitioning)
    if fam == "cov/corr" and "min_periods>2" in F and not classes and not exc:
        return "cov/corr:min_periods>2:%s" % sym
    # R9: numeric_only=True leaves no column
    if fam in ("mode", "idxmin/idxmax") and "numeric_only=True" in F and exc and cols and cols <= set("btk"):
        return "%s:numeric_only=True&no-numeric-column:raises" % fam
    # dtype-class mechanisms (nullable / datetime / str / categorical columns): one label per op family and symptom
    # class; every axis=1 reduction is the same map_partitions(M.<op>, axis=1) with meta inferred on meta_nonempty
    if classes:
        f2 = "rowwise" if "axis=1" in F else fam
        if f2 in ("std", "sem") and "nullable" in classes:
            f2 = "var"
        # causal options of the keyword x tree stratum stay in the label (a dtype-class label must not absorb a
        # defect of the dropna / sort / normalize / split_out handling); split_out=True and =2 are the same shuffle path
        extra = []
        for f in feats:
            if f.startswith(("dropna=", "sort=", "normalize=", "ascending=", "split_out", "tree-path")) and f not in extra:
                extra.append(f)
        return "%s:%s:%s" % (f2, "&".join(["+".join(sorted(classes)) + "-column"] + extra), symclass)
    if "signed-zero" in F and fam in ("nunique", "value_counts", "unique") and "multi-partition" in F:
        # R10: the hash shuffle of the split_out path sends -0.0 and +0.0 to different output partitions; nunique,
        # value_counts() and unique() all go through it: one mechanism, one label (the one first found, for nunique)
        return "nunique:signed-zero&multi-partition:values"
    if fam == "value_counts" and "split_every-tree" in F:
        # a failure of the intermediate combine level: which partition fed it (empty / all-NA / any) is a trigger variant
        feats = [f for f in feats if f not in ("multi-partition", "all-NA-partition", "empty-partition")]
    return"%s:%s:%s" % (fam, "&".join(feats) or "any", sym)


def _min_cols(cur, s):
    """greedy column minimisation of a frame target keeping the symptom; special dtypes are dropped first"""
    cols = list(cur["cols"])
    ref = cur["kw"].get("columns")
    ref = [ref] if isinstance(ref, str) else list(ref or [])
    for c in sorted(cols, key=CANON.index, reverse=True):
        if len(cols) == 1:
            break
        if c in ref:
            continue
        trial = [x for x in cols if x != c]
        if _repro(_variant(cur, cols=trial), s):
            cols = trial
    return cols


def _merge_allna(cur, facts):
    """partitioning in which every all-NA (or empty) partition has been merged into a neighbour (left one first),
    repeated until no such partition is left or a single partition remains"""
    pdf = _frame(cur)
    cols = _used_columns(cur)
    bounds = [0]
    for ln in facts["lens"]:
        bounds.append(bounds[-1] + ln)

    def bad(i):
        p = pdf.iloc[bounds[i]:bounds[i + 1]]
        return len(p) == 0 or any(p[c].isna().all() and not pdf[c].isna().all() for c in cols)

    changed = True
    while changed and len(bounds) > 2:
        changed = False
        for i in range(len(bounds) - 1):
            if bad(i):
                del bounds[i if i > 0 else 1]
                changed = True
                break
    how = cur["part"]["how"] if cur["part"]["how"] in ("slices", "delayed") else "slices"
    return {"how": how, "cuts": bounds[1:-1]}


def _attribute(case, out):
    s = out.symptom
    op = case["op"]
    fam = FAMILY.get(op, op)
    if op == "value_counts" and s == "order" and case["kw"].get("sort") is None:
        return ("value_counts", ["sort-omitted"], "order", case)   # static predicate: sort left to dask's default
    feats = []
    cur = case
    multi = op in ("cov", "corr") or case["kw"].get("axis") == 1
    # -- columns / dtype class
    classes = set()
    if cur["target"] == "frame":
        cols = list(cur["cols"])
        if cols != sorted(cols) and not _repro(_variant(cur, cols=sorted(cols)), s):
            feats.append("unsorted-columns")
            cols = None
        else:
            cols = _min_cols(cur, s)
            cur = _variant(cur, cols=cols)
        if cols is not None:
            nullable = {c: "float64" for c in cols if CLASS[c] == "nullable"}
            if nullable and _repro(_variant(cur, cast=nullable), s):
                cur = _variant(cur, cast=nullable)
                nullable = {}
            if "m" in nullable and fam == "min/max" and _repro(_variant(cur, cast={"m": "bool"}), s):
                # a nullable boolean WITHOUT NA that fails just like a plain bool column (object dtype chunk rows next
                # to numeric columns, R2) is not a nullable-dtype mechanism
                cur = _variant(cur, cast={"m": "bool"})
                del nullable["m"]
            classes = {CLASS[c] for c in cols if CLASS[c] and (CLASS[c] != "nullable" or c in nullable)}
            if len(cols) > 1 and not multi:
                feats.append("multi-column")
            if len(cols) == 1 and not multi:
                col = cols[0]
                if classes:     # substitute a plain column: a generic mechanism is not a dtype mechanism
                    for sub in "dcae":
                        v = _single(cur, sub)
                        if _repro(v, s):
                            cur, col, classes = v, sub, set()
                            break
                sv = _variant(cur, target="series", col=col, cols=_DROP, kw_numeric_only=_DROP, kw_columns=_DROP, kw_axis=_DROP)
                if _repro(sv, s):
                    cur = sv
                else:
                    feats.append("frame")
            elif multi:
                feats.append("axis=1" if case["kw"].get("axis") == 1 else "frame")
    else:
        used = _used_columns(cur)
        nullable = {c: "float64" for c in used if CLASS[c] == "nullable"}
        if nullable and _repro(_variant(cur, cast=nullable), s):
            cur = _variant(cur, cast=nullable)
            nullable = {}
        classes = {CLASS[c] for c in used if CLASS[c] and (CLASS[c] != "nullable" or c in nullable)}
        if multi:
            feats.append("series")
        else:
            col = used[0]
            if classes:
                for sub in "dcae":
                    v = _single(cur, sub)
                    if _repro(v, s):
                        cur, col, classes = v, sub, set()
                        break
            if op not in ("value_counts", "unique"):
                fv = _variant(cur, target="frame", cols=[col], col=_DROP, so=_DROP)
                if op in ("nlargest", "nsmallest"):
                    fv["kw"]["columns"] = col
                if not _repro(fv, s):
                    feats.append("series")
    # -- op family: std/sem are var + post-processing; every axis=1 reduction is map_partitions(M.<op>, axis=1)
    if op in ("std", "sem") and _repro(_variant(cur, op="var", kw_axis=cur["kw"].get("axis", _DROP)), s):
        fam = "var"
        cur = _variant(cur, op="var")
    if cur["kw"].get("axis") == 1 and cur["op"] != "sum":
        v = _variant(cur, op="sum", kw_ddof=_DROP)
        if _repro(v, s):
            fam, cur = "rowwise", v
    elif cur["kw"].get("axis") == 1:
        fam = "rowwise" if _repro(_variant(cur, op="max", kw_min_count=_DROP), s) else fam
    if classes:
        feats.append("+".join(sorted(classes)) + "-column")
    if out.facts.get("signed_zero") and not _repro(_variant(cur, poszero=True), s):
        feats.append("signed-zero")          # the column holds both -0.0 and +0.0
    if out.facts["n"] == 0:
        v = _variant(cur, nrows=6, part={"how": "npartitions", "n": 1})
        if not cur.get("fixed") and _repro(v, s):
            cur = v
        else:
            feats.append("empty-frame")
    # -- options
    kw = cur["kw"]
    if kw.get("skipna") is False and _gone(_variant(cur, kw_skipna=_DROP), s):
        feats.append("skipna=False")
    if kw.get("numeric_only") is True and _gone(_variant(cur, kw_numeric_only=_DROP), s):
        feats.append("numeric_only=True")
    if kw.get("min_count") and _gone(_variant(cur, kw_min_count=_DROP), s):
        feats.append("min_count>0")
    if kw.get("dropna") is False and _gone(_variant(cur, kw_dropna=_DROP), s):
        feats.append("dropna=False")
    if kw.get("min_periods") is not None and _gone(_variant(cur, kw_min_periods=_DROP), s):
        feats.append("min_periods>2")
    elif cur.get("sparse") and _gone(_variant(cur, sparse=_DROP), s):
        feats.append("sparse-pairs")            # NaN-heavy columns: few jointly valid rows per column pair
    if kw.get("normalize") and _gone(_variant(cur, kw_normalize=_DROP), s):
        feats.append("normalize=True")
    tree_path = False
    if cur["op"] == "value_counts":
        # sort=True and split_out=1 (the default for a categorical column) both select the TreeReduce path; when the
        # failure needs that path (gone on the shuffle path), neither of them is causal on its own
        so = cur.get("so", 1 if cur.get("col") == "k" and not cur.get("cast") else True)
        if ((so is not True and so == 1) or kw.get("sort")) and _gone(_variant(cur, so=True, kw_sort=_DROP), s):
            feats.append("tree-path")
            tree_path = True
    if not tree_path and kw.get("sort") is not None and _gone(_variant(cur, kw_sort=_DROP), s):
        feats.append("sort=%s" % kw["sort"])
    if kw.get("ascending") and _gone(_variant(cur, kw_ascending=_DROP), s):
        feats.append("ascending=True")
    if not tree_path and "so" in cur and _gone(_variant(cur, so=_DROP), s):
        # True and 2 are the same shuffle path; 1 is the tree path
        feats.append("split_out=1" if (cur["so"] is not True and cur["so"] == 1) else "split_out>1")
    if cur.get("na") and _gone(_variant(cur, na=_DROP), s):
        feats.append("missing-values")          # NaN/NaT injected into the str / categorical / datetime column
    if cur.get("flat") and _gone(_variant(cur, flat=_DROP), s):
        feats.append("all-valid-values-%s" % ("truthy" if cur["flat"] == "all" else "falsy"))
    oc = _evaluate(cur)
    facts = oc.facts or out.facts
    if kw.get("ddof", 1) != 1 and _gone(_variant(cur, kw_ddof=_DROP), s):
        feats.append("ddof>=count" if facts["min_valid"] <= kw["ddof"] else "ddof!=1")
    if (cur["se"] is not False if "se" in cur else cur["op"] in DEFAULT_TREE_OPS) and not _repro(_variant(cur, se=False), s):
        feats.append("split_every-tree")
    # -- partitioning
    if facts["n"] > 0:
        part = cur["part"]
        one = {"how": part["how"], "cuts": []} if part["how"] in ("slices", "delayed") else \
            {"how": "npartitions", "n": 1, "clear": bool(part.get("clear"))}
        if facts["nparts"] > 1 and not _repro(_variant(cur, part=one), s):
            n = facts["n"]
            cuts = sorted({min(max(0, c), n) for c in part.get("cuts", [])} - {0, n})
            if facts["empty_part"] and not _repro(_variant(cur, part={"how": part["how"], "cuts": cuts}), s):
                feats.append("empty-partition")         # gone when the empty partitions are dropped
            elif facts["allna_part"] and not s.endswith(":combine|aggregate") and \
                    not _repro(_variant(cur, part=_merge_allna(cur, facts)), s):
                feats.append("all-NA-partition")        # gone when every all-NA partition is merged into a neighbour
            else:
                feats.append("multi-partition")
    return (fam, feats, s, cur)


def _strict_same(a, b):
    import pandas as pd

    if isinstance(a, (pd.Series, pd.DataFrame)):
        return type(a) is type(b) and a.shape == b.shape and bool(a.equals(b)) and list(a.index) == list(b.index)
    if isinstance(b, (pd.Series, pd.DataFrame)):
        return False
    try:
        if bool(pd.isna(a)) or bool(pd.isna(b)):
            return bool(pd.isna(a)) and bool(pd.isna(b))
        return bool(a == b)
    except Exception:  # noqa: BLE001
        return False


def _effective_kws(case, expected):
    """keywords passed with a non-default value ON DATA WHERE THE DEFAULT GIVES ANOTHER RESULT: pandas is re-run with
    the keyword left out; it must raise or answer differently (sort=True is pandas' own default but not dask's: it
    counts when the counts are not all equal, i.e. when the order is observable)"""
    import numpy as np
    import pandas as pd

    pdf = _frame(case)
    rc = _resolve(case, pdf)
    eff = []
    for k, v in case["kw"].items():
        if k not in KW_DEFAULTS or v == KW_DEFAULTS[k] and type(v) is type(KW_DEFAULTS[k]):
            continue
        if k == "sort" and v is True:
            if isinstance(expected, pd.Series) and expected.nunique() > 1:
                eff.append(k)
            continue
        var = _variant(rc, **{"kw_" + k: _DROP})
        try:
            with warnings.catch_warnings(), np.errstate(all="ignore"):
                warnings.simplefilter("ignore")
                other = _program(_select(pdf, var), pdf, var, False)
        except Exception:  # noqa: BLE001 - the default is refused on this data: the keyword matters
            eff.append(k)
            continue
        if not _strict_same(expected, other):
            eff.append(k)
    return eff


def run_case(case, ctx):
    from ..gen import frames as F

    F.setup()
    import dask

    dask.config.set(scheduler="sync")
    out = _evaluate(case)
    op = case["op"]
    ctx.op("%s:%s" % (op, case["target"]))
    if out.status == "reject":
        ctx.reject(op + ": " + out.msg)
        return
    if out.status == "unsupported":
        ctx.unsupported(op + ": " + out.msg)
        return
    if out.status == "envlimited":
        ctx.envlimited(out.msg)
        return
    facts = out.facts
    ctx.count("compared")
    ctx.nontrivial = facts["nparts"] >= 2 and facts["n"] >= 2
    for k in ("empty_part", "allna_part", "single_row_part", "tree"):
        if facts[k]:
            ctx.count(k)
    kw = case["kw"]
    if kw.get("axis") == 1:
        ctx.count("axis1")
    if kw.get("skipna") is False:
        ctx.count("skipna_false")
    if facts["n"] > 0:
        ctx.count("dtype_facet_checked")
    # keyword x tree coverage: an intermediate combine level was really present in the lowered graph (or the
    # split_out shuffle, or - for axis=1, which has no tree - at least 5 partitions), and the keyword mattered
    multi = facts["tree_levels"] >= 1
    shuf = facts["shuffle"] and facts["nparts"] >= 5
    if multi:
        ctx.count("multi_level_tree_cases")
        ctx.distinct("multi_level_tree_ops", "%s:%s" % (op, case["target"]))
    if shuf:
        ctx.count("shuffle_path_cases")
    if facts["joint2"]:
        ctx.count("covcorr_pair_with_2_joint_rows")        # the min_periods boundary (default 2) is exercised
        if kw.get("min_periods") is not None:
            ctx.count("covcorr_pair_with_2_joint_rows&min_periods")
    if multi or shuf or (kw.get("axis") == 1 and facts["nparts"] >= 5):
        se, so = repr(case.get("se", "omit")), repr(case.get("so", "omit"))
        ctx.distinct("tree_configs", (op, "tree" if multi else ("shuffle" if shuf else "rowwise"), se, so))
        for k in _effective_kws(case, out.expected):
            if k == "axis":
                ctx.count("kw_rowwise:%s:axis" % op)
            else:
                if multi:
                    ctx.count("kw_tree:%s:%s" % (op, k))
                if shuf:
                    ctx.count("kw_shuffle:%s:%s" % (op, k))
            ctx.distinct("nondefault_kw", (op, k, repr(kw[k]), "tree" if multi else ("shuffle" if shuf else "rowwise"), se, so))
    ctx.distinct("op_options",(op, case["target"], sorted(kw.items(), key=str), repr(case.get("se", "omit")),
                                repr(case.get("so", "omit"))))
    ctx.distinct("partition_shapes", facts["lens"])
    if out.status == "bad":
        detail = dict(facts=facts, result=repr(out.result)[:300], expected=repr(out.expected)[:300])
        if out.exc is not None:
            import traceback

            detail["traceback"] = "".join(traceback.format_exception(type(out.exc), out.exc, out.exc.__traceback__))[-2500:]
        ctx.violation(_label(case, out), out.msg, **detail)
    ctx.sample = {"op": op, "kw": kw, "lens": facts["lens"], "expected": repr(out.expected)[:120]}
