"""C37 — DataFrame reductions and aggregations equal pandas.

DRAFT (being calibrated)
"""
from __future__ import annotations

import itertools
import random
import warnings

PROP = "C37"
RULE = "draft"
ASSUMPTIONS = ["pandas 3.0.5 on the concatenated frame defines the expected value", "sync scheduler",
               "python-backed str dtype (pyarrow import stub)"]
BUDGET = {"quick": 60, "thorough": 500}
FLOORS = {"quick": {"evaluations": 10, "distinct_nontrivial": 5}, "thorough": {"evaluations": 10, "distinct_nontrivial": 5}}
EXHAUSTIVE_SPACE = None
CLAIM = "draft"
LEVEL_NOTE = "pandas is the reference"
TECHNIQUE = "runtime monitoring: pandas differential oracle"
CASE_TIMEOUT = 60
PENDING = {}

SKIPNA_OPS = ("sum", "prod", "min", "max", "mean", "var", "std", "sem", "any", "all", "idxmin", "idxmax")
OTHER_OPS = ("count", "nunique", "value_counts", "mode", "nlargest", "nsmallest", "describe", "cov", "corr", "len")
AXIS1_OPS = ("sum", "prod", "min", "max", "mean", "var", "std", "sem", "any", "all", "idxmin", "idxmax", "count", "nunique")
DESCRIBE_ROWS = ("count", "mean", "std", "min", "max")

# series column pools (pandas decides what is defined: a TypeError on the pandas side is a reject)
POOL = {
    "sum": "acdenmacdnb", "prod": "acdenm", "min": "abcdetnmk", "max": "abcdetnmk", "mean": "acdetnm",
    "var": "acdenm", "std": "acdenmt", "sem": "acdenm", "any": "acdenm", "all": "acdenm",
    "idxmin": "acdetnm", "idxmax": "acdetnm", "count": "abcdetknm", "nunique": "abcdetknm",
    "value_counts": "abcdetknm", "mode": "abcdetknm", "nlargest": "acdnt", "nsmallest": "acdnt",
    "describe": "acdnt", "cov": "acden", "corr": "acden", "len": "abcdetknm",
}
NUMERIC = "acdn"
NUMBOOL = "acdnem"
WIDE = "abcdetknm"

FIXED_CUTS = None


def _fixed_frame():
    import numpy as np
    import pandas as pd

    nan = np.nan
    df = pd.DataFrame({
        "a": np.array([1, 3, 0, 3, 2, 1], dtype="int64"),
        "b": pd.array(["x", "y", "x", "z", "y", "x"], dtype="str"),
        "c": [nan, 1.5, nan, nan, -2.25, 1.5],
        "d": [2.0, -1.0, 2.0, 0.0, -3.0, 2.0],
        "e": [True, False, False, True, True, False],
        "t": pd.to_datetime("2020-01-01") + pd.to_timedelta([5, 1, 5, 30, 2, 7], unit="h"),
        "k": pd.Categorical(["p", "q", "q", "r", "p", "q"], categories=["p", "q", "r", "unused"]),
        "n": pd.array([pd.NA, 4, 1, pd.NA, 4, 0], dtype="Int64"),
        "m": pd.array([True, pd.NA, False, False, pd.NA, True], dtype="boolean"),
    })
    df.index = pd.Index([3, 5, 6, 8, 9, 12], name="idx")
    return df


def _weak_compositions(total, k):
    """all cut lists (k-1 non-decreasing cut points in 0..total) = weak compositions into k parts"""
    return [list(c) for c in itertools.combinations_with_replacement(range(total + 1), k - 1)]


def _fixed_partitionings(tier):
    seen, out = set(), []
    cands = []
    for r in range(0, 6):          # all 32 compositions into non-empty parts
        cands.extend(list(c) for c in itertools.combinations(range(1, 6), r))
    for k in range(1, (4 if tier == "quick" else 5)):   # weak compositions: empty partitions anywhere
        cands.extend(_weak_compositions(6, k))
    for c in cands:
        if tuple(c) not in seen:
            seen.add(tuple(c))
            out.append(c)
    return out


def cases(tier, seed):
    rng = random.Random(seed * 7873 + 37)
    # ---- complete sub-space -------------------------------------------------------------
    for cuts in _fixed_partitionings(tier):
        part = {"how": "slices", "cuts": cuts}
        for target in ("series", "frame"):
            for op in SKIPNA_OPS:
                for skipna in (True, False):
                    yield _fixed_case(op, target, part, {"skipna": skipna})
            for op in OTHER_OPS:
                if not (op == "value_counts" and target == "frame"):
                    yield _fixed_case(op, target, part, {})
    # ---- random -----------------------------------------------------------------------
    k = 5000 if tier == "quick" else 90000
    for _ in range(k):
        yield _rand_case(rng)


def _fixed_case(op, target, part, kw):
    c = {"space": "exhaustive", "fixed": True, "op": op, "target": target, "part": part, "kw": dict(kw), "se": 2}
    if target == "series":
        c["col"] = "c"
        if op in ("cov", "corr"):
            c["col2"] = "d"
    else:
        c["cols"] = list("acdn")
        if op in ("nlargest", "nsmallest"):
            c["kw"]["columns"] = "c"
    if op in ("nlargest", "nsmallest"):
        c["kw"]["n"] = 2
    return c


OPW = (SKIPNA_OPS + OTHER_OPS) * 2 + ("var", "mean", "idxmax", "idxmin", "min", "max", "sem", "sum", "count", "nunique")


def _rand_case(rng):
    from ..gen import frames as F

    op = rng.choice(OPW)
    u = rng.random()
    n = 0 if u < 0.03 else (rng.randint(1, 4) if u < 0.25 else rng.randint(5, 30))
    index = rng.choice(F.INDEX_KINDS)
    if rng.random() < 0.12:
        part = {"how": "chunksize", "n": 1}                      # single-row partitions
    else:
        part = F.rand_partition_desc(rng, n)
    case = {"op": op, "seed": rng.randrange(2 ** 31), "nrows": n, "index": index, "part": part, "kw": {}}
    se = rng.choice((2, 3, False, None, "omit"))
    if se != "omit":
        case["se"] = se
    kw = case["kw"]
    target = "series" if (rng.random() < 0.5 or op == "value_counts") else "frame"
    case["target"] = target
    if target == "series":
        case["col"] = rng.choice(POOL[op])
        if op in ("cov", "corr"):
            case["col2"] = rng.choice(POOL[op])
    else:
        u = rng.random()
        if op in ("describe", "cov", "corr") or u < 0.55:
            pool = NUMBOOL if op not in ("describe", "nlargest", "nsmallest") else NUMERIC
            cols = rng.sample(pool, rng.randint(1, min(4, len(pool))))
        elif u < 0.8:
            cols = rng.sample(WIDE, rng.randint(2, len(WIDE)))
            if op in SKIPNA_OPS + ("count", "mode", "cov", "corr"):
                kw["numeric_only"] = True
        else:
            cols = rng.sample(WIDE, rng.randint(1, 4))
        case["cols"] = sorted(cols, key=WIDE.index) if rng.random() < 0.7 else cols
        if op in AXIS1_OPS and rng.random() < 0.3:
            kw["axis"] = 1
        if op in SKIPNA_OPS + ("count", "mode", "cov", "corr") and "numeric_only" not in kw and rng.random() < 0.3:
            if op not in ("any", "all"):
                kw["numeric_only"] = rng.random() < 0.5
    if op in SKIPNA_OPS and rng.random() < 0.6:
        kw["skipna"] = rng.random() < 0.55
    if op in ("sum", "prod") and rng.random() < 0.35:
        kw["min_count"] = rng.choice((0, 1, 2, 5))
    if op in ("var", "std", "sem") and rng.random() < 0.4:
        kw["ddof"] = rng.choice((0, 1, 2))
    if op in ("nunique", "mode") and rng.random() < 0.4:
        kw["dropna"] = rng.random() < 0.5
    if op == "value_counts":
        if rng.random() < 0.4:
            kw["sort"] = rng.random() < 0.6
        if rng.random() < 0.25:
            kw["ascending"] = True
        if rng.random() < 0.3:
            kw["dropna"] = False
        if rng.random() < 0.25:
            kw["normalize"] = True
    if op in ("nlargest", "nsmallest"):
        kw["n"] = rng.choice((1, 2, 3, 5, 40))
        if target == "frame":
            cs = [c for c in case["cols"] if c in "acdnt"] or case["cols"]
            kw["columns"] = rng.choice(cs) if rng.random() < 0.7 else rng.sample(cs, min(2, len(cs)))
    if op in ("cov", "corr") and rng.random() < 0.3:
        kw["min_periods"] = rng.choice((2, 3, 5))
    if op in ("count", "len", "describe") and target == "series":
        pass
    return case


# ------------------------------------------------------------------------------------------
# building and running one description

def shard_setup(tier, seed):
    from ..gen import frames as F

    F.setup()
    import dask

    dask.config.set(scheduler="sync")


def _frame(case):
    from ..gen import frames as F

    if case.get("fixed"):
        return _fixed_frame()
    return F.rand_frame(case["seed"], nrows=case["nrows"], index=case["index"], cols="wide")


def _select(obj, case):
    if case["target"] == "series":
        return obj[case["col"]]
    return obj[list(case["cols"])]


def _program(obj, base, case, dask_side):
    """The same program for both sides; `obj` is the selected frame/series, `base` the whole frame."""
    op = case["op"]
    kw = dict(case["kw"])
    if dask_side and "se" in case:
        kw["split_every"] = case["se"]
    if op == "len":
        return len(obj)
    if op in ("cov", "corr") and case["target"] == "series":
        r = getattr(obj, op)(base[case["col2"]], **kw)
    else:
        r = getattr(obj, op)(**kw)
    if dask_side and hasattr(r, "compute"):
        r = r.compute(scheduler="sync")
    if op == "describe":
        r = r.loc[[x for x in DESCRIBE_ROWS if x in r.index]]
    return r


def _evaluate(case):
    """-> (status, payload): ("reject", why) | ("unsupported", why) | ("exc", exception) |
    ("ok", (mismatch-or-None, facts))"""
    import dask
    import numpy as np
    import pandas as pd

    from ..gen import frames as F

    pdf = _frame(case)
    with warnings.catch_warnings():
        warnings.simplefilter("ignore")
        try:
            with np.errstate(all="ignore"):
                expected = _program(_select(pdf, case), pdf, case, False)
        except Exception as ex:  # noqa: BLE001 - the reference refuses
            return "reject", "%s: %s" % (type(ex).__name__, str(ex)[:80])
        ddf = F.partition(pdf, case["part"])
        parts = dask.compute(*ddf.to_delayed(), scheduler="sync")
        facts = _facts(case, pdf, parts)
        try:
            with np.errstate(all="ignore"):
                result = _program(_select(ddf, case), ddf, case, True)
        except NotImplementedError as ex:
            return "unsupported", str(ex)[:80]
        except Exception as ex:  # noqa: BLE001
            return "exc", (ex, facts)
        try:
            mm = _compare(case, result, expected, pdf, facts)
        except Exception as ex:  # noqa: BLE001 - comparison must never escape
            mm = ("compare-error", "%s: %s" % (type(ex).__name__, ex))
    return "ok", (mm, facts, result, expected)


def _used_columns(case):
    if case["target"] == "series":
        return [case["col"]] + ([case["col2"]] if "col2" in case else [])
    return list(case["cols"])


def _facts(case, pdf, parts):
    lens = [len(p) for p in parts]
    cols = _used_columns(case)
    allna = False
    for p in parts:
        if len(p):
            for c in cols:
                if p[c].isna().all() and not pdf[c].isna().all():
                    allna = True
    return {"n": len(pdf), "nparts": len(parts), "lens": lens, "empty_part": len(pdf) > 0 and 0 in lens,
            "allna_part": allna, "single_row_part": 1 in lens,
            "has_na": bool(len(pdf) and pdf[cols].isna().any().any())}


def _scale(pdf, case):
    import numpy as np

    m = 1.0
    for c in _used_columns(case):
        if c in "acdn" and len(pdf):
            v = np.nanmax(np.abs(pdf[c].astype("float64").to_numpy(na_value=np.nan))) if pdf[c].notna().any() else 0.0
            m = max(m, float(v))
    return m


def _compare(case, r, e, pdf, facts):
    import numpy as np
    import pandas as pd

    from ..gen import frames as F

    op = case["op"]
    check_dtype = facts["n"] > 0
    if op == "len":
        return None if (isinstance(r, int) and r == e) else ("values", "len %r vs %r" % (r, e))
    if op == "value_counts":
        return _cmp_value_counts(case, r, e, check_dtype)
    if isinstance(e, (pd.Series, pd.DataFrame)):
        return _reclass(F.compare(r, e, ordered=True, rtol=1e-9, check_dtype=check_dtype))
    return _cmp_scalar(r, e, _scale(pdf, case), check_dtype)


def _reclass(mm):
    """frames.compare classifies by words in the pandas message; '[index]:' in a values message is not an index
    mismatch."""
    if not mm:
        return mm
    kind, msg = mm
    low = msg.lower()
    if kind == "index" and not (".index" in low or "index classes" in low or "index are different" in low
                                or "columns" in low or "multiindex" in low):
        kind = "values"
    return (kind, msg)


def _skind(v):
    import numpy as np
    import pandas as pd

    if v is pd.NA:
        return "NA"
    if v is pd.NaT:
        return "NaT"
    if isinstance(v, (bool, np.bool_)):
        return "bool"
    if isinstance(v, (int, np.integer)):
        return "int"
    if isinstance(v, (float, np.floating)):
        return "float"
    if isinstance(v, str):
        return "str"
    return type(v).__name__


def _cmp_scalar(r, e, scale, check_dtype):
    import numpy as np
    import pandas as pd

    if isinstance(r, (pd.Series, pd.DataFrame, pd.Index, np.ndarray)) and getattr(r, "ndim", 1) > 0:
        return ("kind", "got %s, expected scalar %r" % (type(r).__name__, e))
    rk, ek = _skind(r), _skind(e)
    try:
        rna, ena = bool(pd.isna(r)), bool(pd.isna(e))
    except (TypeError, ValueError):
        rna = ena = False
    if rna or ena:
        if rna != ena:
            return ("values", "scalar %r vs expected %r" % (r, e))
        return None   # NaN / NA / NaT are all "missing" for a scalar (frames.compare discipline)
    if ek in ("float", "int", "bool") and rk in ("float", "int", "bool"):
        if ek == "float" or rk == "float":
            ok = abs(float(r) - float(e)) <= 1e-9 * abs(float(e)) + 1e-9 * scale or (np.isinf(e) and r == e)
        else:
            ok = int(r) == int(e)
        if not ok:
            return ("values", "scalar %r vs expected %r" % (r, e))
        if check_dtype and rk != ek:
            return ("dtype", "scalar %r is %s, expected %r is %s" % (r, rk, e, ek))
        return None
    try:
        if r == e:
            if check_dtype and rk != ek:
                return ("dtype", "scalar %r is %s, expected %r is %s" % (r, type(r).__name__, e, type(e).__name__))
            return None
    except Exception:  # noqa: BLE001
        pass
    return ("values", "scalar %r vs expected %r" % (r, e))


def _cmp_value_counts(case, r, e, check_dtype):
    import pandas as pd

    from ..gen import frames as F

    if not isinstance(r, pd.Series):
        return ("kind", "got %s, expected Series" % type(r).__name__)
    mm = _reclass(F.compare(r, e, ordered=False, rtol=1e-9, check_dtype=check_dtype))
    if mm:
        return mm
    if r.index.name != e.index.name:
        return ("name", "index name %r vs expected %r" % (r.index.name, e.index.name))
    if case["kw"].get("sort", True) and len(r) > 1:
        v = r.to_numpy()
        asc = case["kw"].get("ascending", False)
        ok = all(v[i] <= v[i + 1] for i in range(len(v) - 1)) if asc else all(v[i] >= v[i + 1] for i in range(len(v) - 1))
        if not ok:
            return ("order", "counts not %s: %s" % ("non-decreasing" if asc else "non-increasing", list(v)[:12]))
    return None


# ------------------------------------------------------------------------------------------
def _label(case, facts, symptom):
    op = case["op"]
    feats = [case["target"]]
    if facts["n"] == 0:
        feats.append("empty-frame")
    if case["kw"].get("axis") == 1:
        feats.append("axis=1")
    if case["kw"].get("skipna") is False:
        feats.append("skipna=False")
    if facts["empty_part"]:
        feats.append("empty-partition")
    if facts["allna_part"]:
        feats.append("all-NA-partition")
    return "%s:%s:%s" % (op, "&".join(feats), symptom)


def run_case(case, ctx):
    from ..gen import frames as F

    F.setup()
    import dask

    dask.config.set(scheduler="sync")
    status, payload = _evaluate(case)
    ctx.op(case["op"] + ":" + case["target"])
    if status == "reject":
        ctx.reject(payload)
        return
    if status == "unsupported":
        ctx.unsupported(payload)
        return
    if status == "exc":
        ex, facts = payload
        from ..core.ctx import exc_label, through_shim

        if through_shim(ex):
            ctx.envlimited(str(ex))
            return
        ctx.violation(_label(case, facts, exc_label(ex)), "%s: %s" % (type(ex).__name__, str(ex)[:300]), facts=facts)
        return
    mm, facts, result, expected = payload
    ctx.count("compared")
    ctx.nontrivial = facts["nparts"] >= 2 and facts["n"] >= 2
    for k in ("empty_part", "allna_part", "single_row_part"):
        if facts[k]:
            ctx.count(k)
    if mm:
        ctx.violation(_label(case, facts, mm[0]), mm[1], facts=facts, result=repr(result)[:300], expected=repr(expected)[:300])
    ctx.sample = {"op": case["op"], "lens": facts["lens"], "expected": repr(expected)[:120]}
