"""C06 -- dask.order.order is a dependency-consistent total order.

Monitor: every call of the real ``dask.order.order`` made by this module (on
generated graphs, on borrowed array / bag / delayed graphs, and -- through a
wrapper contract on ``dask.local.order`` -- by the synchronous scheduler while
the borrowed collections are computed) is checked against exactly what the
statement says:

  * key set of the result == key set of the graph,
  * priorities pairwise distinct,
  * every key's priority > priority of each of its dependencies inside the graph,
  * cyclic graphs are rejected with an error (any exception type), acyclic ones
    are not.

Dependencies are the ones the harness wrote into the graph (generated graphs) or
the ones found by the harness's own structural walker ``_walk`` (borrowed
graphs); no dask helper (``get_dependencies``, ``DependenciesMapping``,
``GraphNode.dependencies``) is consulted.  Termination is observed with a
logical line-count bound (sys.monitoring) on ``order`` and all of its nested
functions.

Calibration (unchanged tree, seeds 0,1,2,7,12345 quick + one thorough run)
---------------------------------------------------------------------------
* Genuine defect 1 (findings_proposed/C06.md, labels ``order:striplists>=2:*``):
  whenever >= 2 non-task list nodes with >= 2 dependencies are stripped as
  leaves, the second and later ones get ``len(dsk) - 1 - n_removed`` computed
  on the *shrinking* ``dsk``; the value collides with a priority of the
  remaining graph and is <= the priority of one of the list's own dependencies.
* Genuine defect 2 (labels ``order:legacy-arg-names-external-key:*``): in a
  graph that mixes legacy tuples/lists and task-spec nodes, when a task-spec
  node references a key outside the graph and a legacy node names the same key
  as an argument, order() inserts an artificial DataNode under that name into
  the dict its DependenciesMapping reads from; after the first leaf/root
  stripping clears the mapping's cache the legacy node's dependencies are
  recomputed against the enlarged dict and no longer agree with ``dependents``.
  Seen as KeyError / AssertionError / ZeroDivisionError / a bogus "Cycle
  detected" on acyclic graphs and as a genuine infinite loop (replayed by hand
  with a 10 s alarm under PYTHONHASHSEED=0).  It also occurs on a *borrowed*
  graph: the raw (mixed) graph of ``da.stack([x, 2*x])`` for
  ``x = da.from_array(...)`` with one root block key left out.
* Genuine defect 3 (label ``order:striplists>=2+data-root-only-under-striplists:
  acyclic-rejected:IndexError@order.py:get_target``), first seen in the thorough
  run among the sampled n = 6 programs: a literal with >= 2 dependents is
  removed by the data-root stripping and parked in ``requires_data_task`` of its
  dependents; when all of those are non-task lists that are themselves stripped
  as leaves in later passes, the literal never gets a priority and the main
  loop ends in ``leaf_nodes_sorted.pop()`` on an empty list.  Needs list nodes
  nested three deep (>= 6 keys), hence the dedicated "tower" generator.
* Defects 1 and 2 were committed to /repo by the lead (d6fa8cf, d4e40d1) while
  this module was being calibrated; the fix for defect 3 is delivered as
  fixes_ready/C06_01_orphaned_data_roots.patch.  PENDING is empty.
* Step bound: the first bound (quadratic with factor 40) let two 150-key
  non-terminating calls of defect 2 run into the 120 s wall watchdog on a heavily
  loaded machine; order() was measured at <= 165 lines per (key + edge), the
  bound is now 20 000 + 4 000 (n+e) + 2 (n+e)^2.
* No false alarm was observed.  Checked during development, outside the module:
  the harness' dependency lists agree with DependenciesMapping on 52 331
  generated nodes and ``_walk`` agrees with it on 4 975 borrowed nodes; with the
  fixes proposed for defects 1 and 2 applied to a scratch copy of the unchanged
  tree the quick run held (368 474 order() calls), and with the fix proposed for
  defect 3 applied to a scratch copy of the tree at d4e40d1 the quick run held
  for seeds 0, 3, 11 (incl. 1 500 tower programs each), i.e. every alarm seen
  belongs to one of the three mechanisms.  A first, wrong version of the defect-3
  fix (orphaned roots numbered in set order) was refuted by this monitor
  (``priority-not-above-dependency:of-other``).
* Harness error corrected: recipe ``rechunk`` called ``cumsum()`` without axis.
* Literals are ``0.5`` / ``None`` so that a datum can never equal a generated
  key (with int keys the literal ``1`` would be a reference in a legacy graph).
"""
from __future__ import annotations

import itertools
import random

PROP = "C06"
RULE = ("cases = DAG programs (n, upper-triangular dependency mask, per-node kind in {T legacy task, N legacy non-task "
        "(literal / alias / list), S task-spec Task, D task-spec DataNode / Alias / List, L legacy list, X nested legacy "
        "task, Y nested task-spec Task}, optional single back edge) each run under variants external-reference mode x "
        "return_stats x key style/permutation; all shapes on n<=4 x all T/N/S/D kind vectors enumerated completely, all "
        "single-back-edge cyclic variants of those shapes, sampled n=5,6, random layered / tree-reduction / diamond / "
        "fan graphs to 200 nodes with planted cycles, towers of nested list nodes over tasks and shared literals "
        "(n = 4..8), graphs borrowed from dask arrays, bags and delayed values (raw, "
        "optimized, with roots dropped = external references, with an alias back edge) plus the order() calls the "
        "synchronous scheduler makes while computing them; non-trivial = at least one dependency edge; distinct = "
        "distinct (n, edges, kinds, back edge) program or borrowed recipe+parameters")
ASSUMPTIONS = [
    "the dependency relation of a generated graph is the one the harness wrote into it (legacy references are written as "
    "keys that exist in the graph, literals can never equal a key; task-spec references are TaskRef/Alias targets)",
    "for borrowed graphs the harness' structural walker reads Task.args/kwargs, Alias.target and TaskRef.key of the real "
    "task-spec classes (their data layout is trusted, their dependency computation is not used)",
]
BUDGET = {"quick": 60, "thorough": 540}
FLOORS = {
    # measured (quick, seed 0, tree at d4e40d1): 26 233 cases, 25 150 distinct non-trivial, 238 016 order() calls,
    # acyclic_checked 222 606, cyclic_rejected 15 251, edges_checked 793 595, external_ref_calls 122 131,
    # return_stats_calls 117 087, line_events 147 M, tower_programs 1 500 (1 273 with the data-root feature), shapes 2 607
    "quick": {"evaluations": 12000, "distinct_nontrivial": 11500,
              "counters": {"order_calls": 107000, "acyclic_checked": 100000, "cyclic_rejected": 6800,
                           "edges_checked": 355000, "external_ref_calls": 55000, "return_stats_calls": 52000,
                           "borrowed_graphs": 230, "scheduler_order_calls": 50, "big_graphs": 220,
                           "tower_programs": 700, "data_root_only_under_striplists_programs": 550,
                           "line_events": 65000000},
              "sets": {"shapes": 1100, "borrowed_recipes": 10}},
    # measured (thorough, seed 0, tree at d4e40d1): 297 785 cases, 244 281 distinct non-trivial, 1 624 780 order() calls,
    # acyclic_checked 1 437 225, cyclic_rejected 182 858, edges_checked 8 150 767, external_ref_calls 729 878,
    # return_stats_calls 736 447, line_events 1 128 M, tower_programs 40 000 (32 979 with the data-root feature), shapes 31 796
    "thorough": {"evaluations": 130000, "distinct_nontrivial": 110000,
                 "counters": {"order_calls": 700000, "acyclic_checked": 580000, "cyclic_rejected": 85000,
                              "edges_checked": 3200000, "external_ref_calls": 320000, "return_stats_calls": 320000,
                              "borrowed_graphs": 2400, "scheduler_order_calls": 550, "big_graphs": 5500,
                              "tower_programs": 18000, "data_root_only_under_striplists_programs": 14000,
                              "line_events": 450000000},
                 "sets": {"shapes": 14000, "borrowed_recipes": 10}},
}
EXHAUSTIVE_SPACE = {
    "quick": "all DAG shapes on n<=4 nodes (upper-triangular adjacency: 1+1+2+8+64) x all kind vectors over {T,N,S,D}^n x "
             "external refs {none, shared, per-node} x {(str keys, return_stats off), (str, on), (int, off), (tuple, on)}; all single "
             "back-edge (incl. self-loop) cyclic variants of the n<=4 shapes x uniform kind vectors x external refs x return_stats",
    "thorough": "all DAG shapes on n<=4 nodes x all kind vectors over {T,N,S,D}^n x external refs {none, shared, per-node} x "
                "return_stats x key styles {str,int,tuple} x {identity, reversed} labelling; all single back-edge cyclic "
                "variants of the n<=3 shapes x all kind vectors and of the n=4 shapes x uniform + 12 sampled kind vectors; "
                "all 1024 shapes on n=5 x uniform + 6 sampled kind vectors x the 12 quick variants",
}
LEVEL_NOTE = ("trusts the harness' own edge lists / structural walker and the small closure routine; order() and everything "
              "it calls is the code under observation")
CLAIM = ("Every call of dask.order.order observed (all DAG shapes on <=4 nodes with every assignment of task / data / alias / "
         "list / task-spec node kinds, with and without external references and return_stats, three key styles; sampled "
         "5-6 node programs; random structured graphs to 200 nodes; graphs borrowed from dask arrays, bags and delayed "
         "objects, and the calls the synchronous scheduler itself makes) returned priorities for exactly the graph's keys, "
         "pairwise distinct and above the priorities of all in-graph dependencies, and every cyclic variant raised; "
         "termination is a logical line-count bound.  Held means: no counterexample among the executions observed, except "
         "the mechanisms listed as known findings.")
TECHNIQUE = ("runtime monitoring: return-value contract on the real order() (key set, distinctness, dependency edges from the "
             "harness' own program) + sys.monitoring step bound; complete small space + structured random + borrowed graphs")
CASE_TIMEOUT = 120

# All mechanisms found during calibration have fixes: d6fa8cf (list-leaf priorities), d4e40d1 (legacy argument naming an
# external key) in /repo, and fixes_ready/C06_01_orphaned_data_roots.patch (data root only under stripped list nodes).
PENDING = {}

STYLES = ("str", "int", "tuple")
BASE_KINDS = "TNSD"
ALL_KINDS = "TNSDLXY"
COINCIDE = "legacy-arg-names-external-key"
LIT = 0.5          # can never equal a generated key (keys are str / int / tuples of those)


def _f(*a, **k):
    return None


# --------------------------------------------------------------------------- cases
def _npairs(n):
    return n * (n - 1) // 2


def _back_edges(n):
    # (j, i) with j <= i : node j additionally depends on node i (i == j: self loop)
    return [(j, i) for i in range(n) for j in range(i + 1)]


def cases(tier, seed):
    rng = random.Random(seed * 104729 + 6)
    thorough = tier == "thorough"
    # ---- complete sub-space: all shapes n<=4 x all kind vectors ------------------
    for n in range(0, 5):
        for mask in range(2 ** _npairs(n)):
            for kinds in itertools.product(BASE_KINDS, repeat=n):
                yield {"space": "exhaustive", "n": n, "mask": mask, "kinds": "".join(kinds), "back": None,
                       "variants": "all2" if thorough else "all"}
    # ---- complete: every single back edge on those shapes ------------------------
    for n in range(1, 5):
        for mask in range(2 ** _npairs(n)):
            for back in _back_edges(n):
                if thorough and n <= 3:
                    kvs = ["".join(k) for k in itertools.product(BASE_KINDS, repeat=n)]
                elif thorough:
                    kvs = [c * n for c in BASE_KINDS] + ["".join(rng.choice(ALL_KINDS) for _ in range(n)) for _ in range(12)]
                else:
                    kvs = [c * n for c in BASE_KINDS]
                for kinds in kvs:
                    yield {"space": "exhaustive", "n": n, "mask": mask, "kinds": kinds, "back": list(back),
                           "variants": "cyc"}
    if thorough:
        for mask in range(2 ** _npairs(5)):
            kvs = [c * 5 for c in BASE_KINDS] + ["".join(rng.choice(ALL_KINDS) for _ in range(5)) for _ in range(6)]
            for kinds in kvs:
                yield {"space": "exhaustive", "n": 5, "mask": mask, "kinds": kinds, "back": None, "variants": "all"}
    # ---- sampled small programs: more kinds, n = 3..6, permuted labels -----------
    k = 4000 if not thorough else 200000
    for _ in range(k):
        n = rng.choice((3, 4, 4, 5, 5, 5, 6, 6, 6))
        dens = rng.choice((0.25, 0.4, 0.6, 0.85))
        mask = 0
        for b in range(_npairs(n)):
            if rng.random() < dens:
                mask |= 1 << b
        mode = rng.random()
        if mode < 0.25:
            kinds = "".join(rng.choice("TNLX") for _ in range(n))        # legacy only
        elif mode < 0.5:
            kinds = "".join(rng.choice("SDY") for _ in range(n))         # task-spec only
        else:
            kinds = "".join(rng.choice(ALL_KINDS) for _ in range(n))
        back = None
        if rng.random() < 0.25:
            back = list(rng.choice(_back_edges(n)))
        yield {"n": n, "mask": mask, "kinds": kinds, "back": back, "variants": "sample",
               "vseed": rng.randrange(2 ** 31)}
    # ---- towers of non-task list nodes over tasks and shared data roots (n = 4..8) ---------
    # (the leaf stripping and the data-root stripping of order() interleave only when list nodes are nested at
    #  least three deep over a shared literal, which needs >= 6 nodes and is rare in the uniform sample above)
    k = 1500 if not thorough else 40000
    for _ in range(k):
        nt, nd, nl = rng.choice((1, 1, 2)), rng.choice((1, 1, 2)), rng.choice((2, 3, 3, 4))
        n = nt + nd + nl
        kinds = "".join(rng.choice("TTS") for _ in range(nt)) + "".join(rng.choice("NND") for _ in range(nd)) \
            + "".join(rng.choice("NNL") for _ in range(nl))
        mask = 0
        for i in range(nt + nd, n):
            chosen = {j for j in range(i) if rng.random() < 0.55}
            if i > nt + nd and rng.random() < 0.8:
                chosen.add(i - 1)
            while len(chosen) < 2:
                chosen.add(rng.randrange(i))
            for j in chosen:
                mask |= 1 << (i * (i - 1) // 2 + j)
        if nt == 2 and rng.random() < 0.5:
            mask |= 1 << (1 * 0 // 2 + 0)          # second task depends on the first
        yield {"n": n, "mask": mask, "kinds": kinds, "back": None, "variants": "sample", "tower": True,
               "vseed": rng.randrange(2 ** 31)}
    # ---- random larger structured graphs -------------------------------------------
    k = 500 if not thorough else 12000
    for _ in range(k):
        yield {"big": rng.choice(("layered", "tree", "diamond", "fan", "random", "chainmix")),
               "n": rng.choice((7, 10, 15, 25, 40, 60, 100, 150, 200)), "gseed": rng.randrange(2 ** 31),
               "cycles": rng.choice((0, 0, 0, 1, 2)), "kindmode": rng.choice(("legacy", "spec", "mixed", "tasks", "tasks")),
               "variants": "sample", "vseed": rng.randrange(2 ** 31)}
    # ---- borrowed graphs --------------------------------------------------------------
    k = 40 if not thorough else 400
    for r in range(k):
        for recipe in range(len(RECIPES)):
            yield {"borrow": recipe, "pseed": rng.randrange(2 ** 31), "compute": r % 4 == 0}


# --------------------------------------------------------------------------- graph construction
def _names(n, style, perm):
    if style == "str":
        names = ["k%d" % i for i in range(n)]
    elif style == "int":
        names = list(range(n))
    elif style == "tuple":
        names = [("x", i) for i in range(n)]
    else:  # mixed
        names = [("x", i, 0) if i % 3 == 0 else ("k%d" % i if i % 3 == 1 else i + 100) for i in range(n)]
    if perm == "rev":
        names.reverse()
    elif perm:
        random.Random(perm).shuffle(names)
    return names


def _ext_name(style, i):
    # i is None: the shared external key
    if style == "str":
        return "ext" if i is None else "ext%d" % i
    if style == "int":
        return 10 ** 6 if i is None else 10 ** 6 + 1 + i
    return ("ext",) if i is None else ("ext", i)


def _deps_of(case):
    """Dependency lists of the generated program: deps[i] = sorted node indices i depends on."""
    n = case["n"]
    if case.get("big"):
        return _big_deps(case)
    deps = [[] for _ in range(n)]
    b = 0
    for i in range(n):
        for j in range(i):
            if case["mask"] >> b & 1:
                deps[i].append(j)
            b += 1
    if case.get("back"):
        j, i = case["back"]
        if i not in deps[j]:
            deps[j].append(i)
    return deps


def _big_deps(case):
    n, kind = case["n"], case["big"]
    rng = random.Random(case["gseed"])
    deps = [set() for _ in range(n)]
    if kind == "layered":
        layers, i = [], 0
        while i < n:
            w = min(n - i, rng.randint(1, max(2, n // 5)))
            layers.append(list(range(i, i + w)))
            i += w
        for li in range(1, len(layers)):
            for v in layers[li]:
                src = layers[li - 1] if rng.random() < 0.8 else layers[rng.randrange(li)]
                for d in rng.sample(src, min(len(src), rng.randint(1, 3))):
                    deps[v].add(d)
    elif kind == "tree":
        # leaves first, k-ary reduction towards the last node; optional map stage in front
        k = rng.choice((2, 2, 3, 4))
        level = list(range(max(1, (n * (k - 1) + 1) // k)))
        nxt = len(level)
        while len(level) > 1 and nxt < n:
            new = []
            for s in range(0, len(level), k):
                if nxt >= n:
                    new.extend(level[s:])
                    break
                for d in level[s:s + k]:
                    deps[nxt].add(d)
                new.append(nxt)
                nxt += 1
            level = new
        for v in range(nxt, n):          # leftovers hang off random earlier nodes
            deps[v].add(rng.randrange(v))
    elif kind == "diamond":
        v, prev = 1, 0
        while v < n:
            w = min(n - v - 1, rng.randint(2, 4))
            if w < 2:
                deps[v].add(prev)
                prev = v
                v += 1
                continue
            mids = list(range(v, v + w))
            for m in mids:
                deps[m].add(prev)
            join = v + w
            for m in mids:
                deps[join].add(m)
            prev, v = join, join + 1
    elif kind == "fan":
        # some roots, a wide middle depending on random roots, some reducers over the middle
        r = max(1, n // 8)
        red = max(1, n // 8)
        mid = list(range(r, max(r + 1, n - red)))
        for m in mid:
            for d in rng.sample(range(r), min(r, rng.randint(1, 2))):
                deps[m].add(d)
        for v in range(mid[-1] + 1, n):
            for d in rng.sample(mid, min(len(mid), rng.randint(2, max(2, len(mid) // 2)))):
                deps[v].add(d)
    elif kind == "chainmix":
        # several chains with cross links
        heads = []
        for v in range(n):
            if not heads or rng.random() < 0.15:
                heads.append(v)
            else:
                h = rng.randrange(len(heads))
                deps[v].add(heads[h])
                if rng.random() < 0.2:
                    deps[v].add(heads[rng.randrange(len(heads))])
                heads[h] = v
        for v in range(n):
            deps[v].discard(v)
    else:
        m = rng.randint(n - 1, 3 * n)
        for _ in range(m):
            a, b = rng.sample(range(n), 2)
            deps[max(a, b)].add(min(a, b))
    for _ in range(case.get("cycles", 0)):
        if rng.random() < 0.15:
            v = rng.randrange(n)
            deps[v].add(v)
        else:
            # close a cycle along an existing path when there is one, else a 2-cycle
            v = rng.randrange(n)
            walk = [v]
            while deps[walk[-1]] and len(walk) < 6 and rng.random() < 0.8:
                cand = [d for d in deps[walk[-1]] if d not in walk]
                if not cand:
                    break
                walk.append(rng.choice(sorted(cand)))
            if len(walk) == 1:
                w = rng.randrange(n)
                deps[v].add(w)
                deps[w].add(v)
            else:
                deps[walk[-1]].add(walk[0])
    return [sorted(d) for d in deps]


def _big_kinds(case, deps):
    rng = random.Random(case["gseed"] ^ 0x5BD1)
    mode = case["kindmode"]
    out = []
    for i, d in enumerate(deps):
        if mode == "tasks":
            c = "T"
        elif mode == "legacy":
            c = rng.choice("TTTTNLX")
        elif mode == "spec":
            c = rng.choice("SSSSDY")
        else:
            c = rng.choice("TTSSNDLXY")
        out.append(c)
    return "".join(out)


def _build(deps, kinds, names, style, extmode, extmask=0):
    """Write the program as a dask graph.  Returns (dsk, number of external keys really referenced (task-spec
    TaskRef / Alias targets), whether a legacy node names one of those external keys as a plain argument)."""
    from dask._task_spec import Alias, DataNode, List, Task, TaskRef

    dsk = {}
    real, mentioned = set(), set()      # external names referenced by task-spec nodes / named as literals by legacy nodes
    for i, dl in enumerate(deps):
        k = names[i]
        ds = [names[j] for j in dl]
        kind = kinds[i]
        ext = None
        if extmode == 1:
            ext = _ext_name(style, None)
        elif extmode == 2:
            ext = _ext_name(style, i)
        elif extmode == 3 and extmask >> (i % 60) & 1:
            ext = _ext_name(style, i % 3)
        if ext is not None and kind in "TNLX" and not (kind == "N" and len(ds) == 1):
            mentioned.add(ext)
        if kind == "T":
            v = (_f,) + tuple(ds) + ((ext,) if ext is not None else ())
        elif kind == "N":
            if not ds:
                v = LIT if ext is None else ext        # a string/tuple naming no key of the graph: a literal
            elif len(ds) == 1:
                v = ds[0]
            else:
                v = list(ds) + ([ext] if ext is not None else [])
        elif kind == "L":
            v = list(ds) + ([ext] if ext is not None else [])
            if len(ds) >= 3:
                v = [v[:1], v[1:]]                      # nested list, same references
        elif kind == "X":
            if not ds:
                v = (_f, (_f, LIT), [None])
            else:
                v = (_f, (_f, ds[0]), list(ds[1:]), LIT) + ((ext,) if ext is not None else ())
        elif kind == "S":
            args = [TaskRef(d) for d in ds]
            if ext is not None:
                args.append(TaskRef(ext))
                real.add(ext)
            v = Task(k, _f, *args)
        elif kind == "D":
            if not ds:
                if extmode == 2 or (extmode == 3 and ext is not None):
                    v = Alias(k, ext)
                    real.add(ext)
                else:
                    v = DataNode(k, LIT)
            elif len(ds) == 1:
                v = Alias(k, ds[0])
            else:
                args = [TaskRef(d) for d in ds]
                if ext is not None:
                    args.append(TaskRef(ext))
                    real.add(ext)
                v = List(*args)
        elif kind == "Y":
            if not ds:
                v = Task(k, _f, DataNode(None, LIT), flag=LIT)
            else:
                inner = [Task(None, _f, TaskRef(ds[0]))]
                if len(ds) > 2:
                    inner.append(List(*[TaskRef(d) for d in ds[1:-1]]))
                kw = {"kw": TaskRef(ds[-1])} if len(ds) > 1 else {}
                if ext is not None:
                    kw["e"] = TaskRef(ext)
                    real.add(ext)
                v = Task(k, _f, *inner, **kw)
        else:
            raise ValueError(kind)
        dsk[k] = v
    return dsk, len(real), bool(real & mentioned)


# --------------------------------------------------------------------------- harness-side facts
def _cyclic(deps):
    """Iterative three-colour DFS on the harness' own dependency lists."""
    n = len(deps)
    color = [0] * n
    for s in range(n):
        if color[s]:
            continue
        stack = [(s, 0)]
        color[s] = 1
        while stack:
            v, p = stack.pop()
            if p < len(deps[v]):
                stack.append((v, p + 1))
                w = deps[v][p]
                if color[w] == 1:
                    return True
                if color[w] == 0:
                    color[w] = 1
                    stack.append((w, 0))
            else:
                color[v] = 2
    return False


def _striplists(deps, kinds):
    """Indices of legacy non-task nodes with >= 2 in-graph dependencies whose dependents (if any) are all such
    nodes already counted: the list/alias-like leaves.  Pure input feature, used for labels only."""
    n = len(deps)
    dependents = [set() for _ in range(n)]
    for i, dl in enumerate(deps):
        for j in dl:
            dependents[j].add(i)
    out = set()
    changed = True
    while changed:
        changed = False
        for i in range(n):
            if i in out or kinds[i] not in "NL" or len(deps[i]) < 2:
                continue
            if dependents[i] <= out and i not in deps[i]:
                out.add(i)
                changed = True
    return out


def _data_root_only_under_striplists(deps, kinds, strip):
    """Input feature: some dependency-free non-task node (legacy literal / list / DataNode) has >= 2 dependents and all of
    them are list leaves in the sense of _striplists."""
    n = len(deps)
    for r in range(n):
        if deps[r] or kinds[r] not in "NDL":      # literal, DataNode, or a list that references no key of the graph
            continue
        dependents = {i for i in range(n) if r in deps[i]}
        if len(dependents) >= 2 and dependents <= strip:
            return True
    return False


_CODES = None


def _codes():
    global _CODES
    if _CODES is None:
        import dask.order as do

        seen = []

        def rec(code):
            seen.append(code)
            for c in code.co_consts:
                if hasattr(c, "co_code"):
                    rec(c)
        for fn in (do.order, do._connecting_to_roots, do.ndependencies):
            rec(fn.__code__)
        _CODES = seen
    return _CODES


def _prio(v):
    return v.priority if hasattr(v, "priority") else v


def _call_and_check(ctx, dsk, keys, depkeys, cyclic, feat, strip_keys, info, stats=False, depsarg=None):
    """Run the real order() under the step bound and apply the contract.

    keys: list of the graph's keys; depkeys: {key: [in-graph dependency keys]} from the harness;
    feat: input-feature part of the label; strip_keys: keys that are list leaves (label refinement)."""
    import dask.order as do
    from vf.mon.steps import StepBoundExceeded, bounded

    n = len(keys)
    e = sum(len(v) for v in depkeys.values())
    # measured: order() executes <= 165 lines per (key + edge), linearly, up to 200 keys; the bound is > 20x that
    bound = 20000 + 4000 * (n + e) + 2 * (n + e) ** 2
    ctx.count("order_calls")
    if stats:
        ctx.count("return_stats_calls")
    try:
        with bounded(_codes(), bound) as st:
            if depsarg is not None:
                out = do.order(dsk, dependencies=depsarg, return_stats=stats)
            else:
                out = do.order(dsk, return_stats=stats) if stats else do.order(dsk)
        ctx.count("line_events", st.count)
    except StepBoundExceeded:
        ctx.violation("order:%s:nontermination" % feat,
                      "order executed more than %d lines on a graph with %d keys / %d edges" % (bound, n, e), **info)
        return None
    except Exception as exc:  # noqa: BLE001
        if cyclic:
            ctx.count("cyclic_rejected")
            ctx.op("cyclic-rejected-with:" + type(exc).__name__)
            return None
        if feat == COINCIDE:
            # one input predicate, one mechanism (see findings_proposed/C06.md); the exception type only depends on
            # which bookkeeping structure trips first, so it is reported in the message, not in the label
            from vf.core.ctx import exc_label
            ctx.violation("order:%s:acyclic-rejected" % feat, "%s: %s" % (exc_label(exc), str(exc)[:200]), **info)
        else:
            ctx.exception(exc, prefix="order:%s:acyclic-rejected" % feat, **info)
        return None
    _check_result(ctx, out, keys, depkeys, cyclic, feat, strip_keys, info, stats)
    return out


def _feat_for(feat, who, strip_keys):
    # two input predicates can hold at once; a symptom located at a list leaf of a graph with >= 2 list leaves
    # belongs to the list-leaf mechanism
    if who.endswith("striplist") and len(strip_keys) >= 2:
        return "striplists>=2"
    return feat


def _check_result(ctx, out, keys, depkeys, cyclic, feat, strip_keys, info, stats=False):
    if cyclic:
        ctx.violation("order:%s:cyclic-accepted" % feat, "order returned %r for a cyclic graph" % (out,), **info)
        return
    ctx.count("acyclic_checked")
    if not isinstance(out, dict):
        ctx.violation("order:%s:result-not-a-dict" % feat, repr(out), **info)
        return
    kset = set(keys)
    if set(out) != kset or len(out) != len(keys):
        missing = [k for k in keys if k not in out]
        extra = [k for k in out if k not in kset]
        sym = "keys-missing" if missing and not extra else ("foreign-keys" if extra and not missing else "keyset-differs")
        ctx.violation("order:%s:%s" % (feat, sym), "missing=%r extra=%r result=%r" % (missing, extra, out), **info)
        return
    pr = {}
    for k in keys:
        v = out[k]
        if stats and not hasattr(v, "priority"):
            ctx.violation("order:%s:return_stats-value-without-priority" % feat, "%r -> %r" % (k, v), **info)
            return
        pr[k] = _prio(v)
    seen = {}
    for k in keys:
        p = pr[k]
        if p in seen:
            who = "involves-striplist" if (k in strip_keys or seen[p] in strip_keys) else "among-others"
            ctx.violation("order:%s:duplicate-priority:%s" % (_feat_for(feat, who, strip_keys), who),
                          "keys %r and %r both have priority %r in %r" % (seen[p], k, p, out), **info)
            break
        seen[p] = k
    ne = 0
    bad = None
    for k in keys:
        pk = pr[k]
        for d in depkeys[k]:
            ne += 1
            if not pk > pr[d] and bad is None:
                bad = (k, d)
    ctx.count("edges_checked", ne)
    if bad is not None:
        k, d = bad
        who = "of-striplist" if k in strip_keys else "of-other"
        ctx.violation("order:%s:priority-not-above-dependency:%s" % (_feat_for(feat, who, strip_keys), who),
                      "key %r has priority %r, its dependency %r has %r in %r" % (k, pr[k], d, pr[d], out), **info)


# --------------------------------------------------------------------------- variants
def _variants(case):
    v = case["variants"]
    if v == "cyc":
        return [(ext, stats, STYLES[(ext + stats) % 3], 0, False) for ext in (0, 1, 2) for stats in (False, True)]
    if v == "all":
        # 12 variants: external refs x {(str, stats off), (str, stats on), (int, stats off), (tuple, stats on)}
        return [(ext, stats, style, 0, False) for ext in (0, 1, 2)
                for style, stats in (("str", False), ("str", True), ("int", False), ("tuple", True))]
    if v == "all2":
        return [(ext, stats, style, perm, False)
                for ext in (0, 1, 2) for stats in (False, True) for style in STYLES for perm in (0, "rev")]
    rng = random.Random(case["vseed"])
    out = []
    for _ in range(3 if not case.get("big") else 2):
        out.append((rng.choice((0, 0, 1, 2, 3, 3)), rng.random() < 0.4, rng.choice(STYLES + ("mixed",)),
                    rng.randrange(1, 10 ** 6), rng.random() < 0.15))
    return out


def run_case(case, ctx):
    if "borrow" in case:
        return _run_borrowed(case, ctx)
    deps = _deps_of(case)
    n = len(deps)
    kinds = case["kinds"] if not case.get("big") else _big_kinds(case, deps)
    cyclic = _cyclic(deps)
    strip = _striplists(deps, kinds)
    nedges = sum(len(d) for d in deps)
    ctx.nontrivial = nedges > 0
    ctx.sig = (n, [tuple(d) for d in deps], kinds) if not case.get("big") else (case["big"], n, case["gseed"], case["cycles"], case["kindmode"])
    if case.get("big"):
        ctx.count("big_graphs")
        ctx.op("big:" + case["big"])
    else:
        ctx.distinct("shapes", (n, case["mask"]))
    ctx.count("cyclic_programs" if cyclic else "acyclic_programs")
    sfeat = "striplists>=2" if len(strip) >= 2 else ("striplists==1" if len(strip) == 1 else "striplists==0")
    if _data_root_only_under_striplists(deps, kinds, strip):
        sfeat += "+data-root-only-under-striplists"
        ctx.count("data_root_only_under_striplists_programs")
    if case.get("tower"):
        ctx.count("tower_programs")
    for ch in set(kinds):
        ctx.op("kind:" + ch)
    extmask = random.Random(case.get("vseed", 0)).getrandbits(60)
    last = None
    for (extmode, stats, style, perm, depsarg) in _variants(case):
        names = _names(n, style, perm)
        dsk, nreal, coincide = _build(deps, kinds, names, style, extmode, extmask)
        keys = list(names)
        depkeys = {names[i]: [names[j] for j in deps[i]] for i in range(n)}
        if nreal:
            ctx.count("external_ref_calls")
        # a legacy node naming (as a plain argument) a key that a task-spec node references outside the graph
        feat = COINCIDE if (coincide and "data-root-only" not in sfeat) else sfeat
        if coincide:
            ctx.count("legacy_arg_names_external_key_calls")
        info = {"graph": _show(dsk), "external_keys_referenced": nreal, "variant": {"ext": extmode, "return_stats": stats, "style": style, "perm": perm,
                                                "dependencies_arg": depsarg},
                "harness_deps": {repr(k): [repr(d) for d in v] for k, v in depkeys.items()} if n <= 8 else None}
        da = {k: set(v) for k, v in depkeys.items()} if depsarg else None
        last = _call_and_check(ctx, dsk, keys, depkeys, cyclic, feat, {names[i] for i in strip}, info, stats=stats, depsarg=da)
    if n <= 8:
        ctx.sample = {"deps": deps, "kinds": kinds, "cyclic": cyclic,
                      "last_result": None if last is None else {repr(k): _prio(v) for k, v in last.items()}}
    else:
        ctx.sample = {"big": case.get("big"), "n": n, "edges": nedges, "cyclic": cyclic}


def _show(dsk):
    if len(dsk) > 12:
        return "%d keys" % len(dsk)
    return {repr(k): repr(v).replace(repr(_f), "f")[:120] for k, v in dsk.items()}


# --------------------------------------------------------------------------- borrowed graphs
def _walk(v, keys, out, atoms=None):
    """Harness' own dependency extraction (execution semantics of graph values):
    task-spec: TaskRef -> key, Alias -> target, DataNode -> nothing, Task -> top-level args/kwargs that are
    TaskRef/GraphNode (raw containers are opaque); legacy: task tuple / list / dict descend, hashable == key -> ref."""
    from dask._task_spec import Alias, DataNode, GraphNode, Task, TaskRef

    stack = [(v, False)]
    while stack:
        w, inspec = stack.pop()
        if isinstance(w, TaskRef):
            out.add(w.key)
        elif isinstance(w, Alias):
            out.add(w.target)
        elif isinstance(w, DataNode):
            pass
        elif isinstance(w, Task):
            for a in w.args:
                if isinstance(a, (TaskRef, GraphNode)):
                    stack.append((a, True))
            for a in w.kwargs.values():
                if isinstance(a, (TaskRef, GraphNode)):
                    stack.append((a, True))
        elif isinstance(w, GraphNode):
            raise TypeError("unknown GraphNode subclass %r" % type(w))
        elif inspec:
            pass
        elif type(w) is tuple and w and callable(w[0]):
            stack.extend((a, False) for a in w[1:])
        elif type(w) is list:
            stack.extend((a, False) for a in w)
        elif type(w) is dict:
            stack.extend((a, False) for a in w.values())
        else:
            try:
                if w in keys:
                    out.add(w)
                elif atoms is not None and type(w) in (str, int, float, tuple):
                    atoms.add(w)          # a legacy argument that names no key of the graph: a literal
            except TypeError:
                pass
    return out


def _inc(x):
    return x + 1


def _addf(a, b):
    return a + b


def _r_ones_sum(rng):
    import dask.array as da
    s, c = rng.choice(((6, 2), (6, 3), (4, 2), (5, 2), (8, 3)))
    return da.ones((s, s), chunks=c).sum()


def _r_xT_mean(rng):
    import dask.array as da
    s, c = rng.choice(((6, 2), (6, 3), (4, 2), (5, 2)))
    x = da.ones((s, s), chunks=c)
    return (x + x.T).mean(axis=rng.choice((0, 1)))


def _r_matmul(rng):
    import dask.array as da
    c = rng.choice((2, 3))
    x = da.ones((6, 6), chunks=c)
    return (x @ x).sum(axis=0)


def _r_rechunk(rng):
    import dask.array as da
    x = da.arange(rng.choice((12, 20, 24)), chunks=rng.choice((3, 4, 5)))
    return x.rechunk(rng.choice((2, 6, 7))).cumsum(axis=0)


def _r_slice_concat(rng):
    import dask.array as da
    x = da.ones((8, 4), chunks=(rng.choice((2, 3)), 2))
    y = da.concatenate([x[1:5], x[::2], x[:, ::-1][:3]], axis=0)
    return y.std(axis=0)


def _r_from_array(rng):
    import numpy as np
    import dask.array as da
    a = np.arange(24).reshape(4, 6)
    x = da.from_array(a, chunks=(2, rng.choice((2, 3))))
    return da.stack([x, x * 2]).max(axis=(0, 1))


def _r_overlap(rng):
    import dask.array as da
    x = da.arange(rng.choice((12, 16)), chunks=4)
    return x.map_overlap(lambda b: b + 1, depth=1, boundary="reflect", dtype=x.dtype)


def _r_store_like(rng):
    # a non-task list leaf over array blocks (the da.store shape the order() comment mentions)
    import dask.array as da
    x = da.ones((4, 4), chunks=2) + 1
    g = dict(x.__dask_graph__())
    ks = [k for row in x.__dask_keys__() for k in row]
    g["store-all"] = ks[: rng.choice((2, 3, 4))]
    return g


def _r_bag_fold(rng):
    import dask.bag as db
    return db.from_sequence(range(rng.choice((10, 17))), npartitions=rng.choice((2, 3, 5))).map(_inc).fold(_addf)


def _r_bag_freq(rng):
    import dask.bag as db
    b = db.from_sequence([i % 4 for i in range(20)], npartitions=rng.choice((2, 4)))
    return b.filter(lambda v: v != 1).frequencies().topk(2, key=lambda kv: kv[1])


def _r_bag_zip(rng):
    import dask.bag as db
    npart = rng.choice((2, 3))
    a = db.from_sequence(range(12), npartitions=npart)
    b = a.map(_inc)
    return db.zip(a, b).map(sum).to_delayed()


def _r_delayed(rng):
    import dask
    inc, add = dask.delayed(_inc), dask.delayed(_addf)
    lv = [inc(i) for i in range(rng.choice((3, 5, 8)))]
    while len(lv) > 1:
        lv = [add(a, b) for a, b in zip(lv[::2], lv[1::2])] + ([lv[-1]] if len(lv) % 2 else [])
    return lv[0]


def _r_delayed_shared(rng):
    import dask
    data = dask.delayed(list(range(5)))      # a data node with several dependents
    parts = [dask.delayed(sum)(data), dask.delayed(len)(data), dask.delayed(max)(data)]
    return dask.delayed(parts[: rng.choice((2, 3))])


RECIPES = [_r_ones_sum, _r_xT_mean, _r_matmul, _r_rechunk, _r_slice_concat, _r_from_array, _r_overlap, _r_store_like,
           _r_bag_fold, _r_bag_freq, _r_bag_zip, _r_delayed, _r_delayed_shared]

_SCHED_CALLS = []


def shard_setup(tier, seed):
    """Contract wrapper on the reference the local scheduler holds to order()."""
    import dask.local as dl
    import dask.order as do

    real = do.order

    def order_contract(dsk, *a, **kw):
        rec = {"dsk": dict(dsk), "kw": dict(kw), "out": None, "exc": None}
        try:
            rec["out"] = real(dsk, *a, **kw)
            return rec["out"]
        except Exception as e:  # noqa: BLE001
            rec["exc"] = e
            raise
        finally:
            _SCHED_CALLS.append(rec)
    order_contract.__wrapped__ = real
    if getattr(dl.order, "__wrapped__", None) is None:
        dl.order = order_contract


def _graph_facts(g):
    keys = list(g)
    kset = set(keys)
    depkeys, ext, atoms = {}, set(), set()
    for k, v in g.items():
        found = _walk(v, kset, set(), atoms)
        depkeys[k] = [d for d in found if d in kset]
        ext.update(d for d in found if d not in kset)
    idx = {k: i for i, k in enumerate(keys)}
    deps = [[idx[d] for d in depkeys[k]] for k in keys]
    coincide = False
    for a in ext:
        try:
            coincide = coincide or a in atoms
        except TypeError:
            pass
    return keys, depkeys, deps, len(ext), coincide


def _run_borrowed(case, ctx):
    import dask
    from dask._task_spec import Alias, convert_legacy_graph

    rng = random.Random(case["pseed"])
    recipe = RECIPES[case["borrow"]]
    name = recipe.__name__[3:]
    try:
        obj = recipe(rng)
    except Exception as e:  # noqa: BLE001 -- building the collection is not this property's business
        ctx.unsupported("recipe %s could not be built: %s: %s" % (name, type(e).__name__, e))
        return
    if isinstance(obj, dict):
        coll, g0 = None, obj
    elif isinstance(obj, list):
        coll, g0 = obj, {}
        for o in obj:
            g0.update(dict(o.__dask_graph__()))
    else:
        coll, g0 = obj, dict(obj.__dask_graph__())
    ctx.distinct("borrowed_recipes", name)
    ctx.op("borrow:" + name)
    variant = rng.choice(("raw", "raw", "optimized", "converted", "dropped-roots", "dropped-roots", "alias-back-edge"))
    g = g0
    try:
        if variant == "optimized" and coll is not None and not isinstance(coll, list):
            (oc,) = dask.optimize(coll)
            g = dict(oc.__dask_graph__())
        elif variant == "converted":
            g = dict(convert_legacy_graph(g0))
    except Exception as e:  # noqa: BLE001
        ctx.unsupported("%s graph of %s could not be produced: %s: %s" % (variant, name, type(e).__name__, e))
        return
    keys, depkeys, deps, nreal, coincide = _graph_facts(g)
    if variant == "dropped-roots":
        roots = [k for k in keys if not depkeys[k] and any(k in v for v in depkeys.values())]
        rng.shuffle(roots)
        drop = set(roots[: rng.randint(1, max(1, len(roots) // 2))])
        g = {k: v for k, v in g.items() if k not in drop}
        keys, depkeys, deps, nreal, coincide = _graph_facts(g)
    elif variant == "alias-back-edge":
        # make some root an alias of a key that (transitively) depends on it
        dependents = {k: [a for a in keys if k in depkeys[a]] for k in keys}
        roots = [k for k in keys if not depkeys[k] and dependents[k]]
        if roots:
            r = rng.choice(roots)
            cur = r
            for _ in range(rng.randint(1, 4)):
                if not dependents[cur]:
                    break
                cur = rng.choice(dependents[cur])
            g = dict(g)
            g[r] = Alias(r, cur)
            keys, depkeys, deps, nreal, coincide = _graph_facts(g)
    cyclic = _cyclic(deps)
    nedges = sum(len(d) for d in deps)
    ctx.nontrivial = nedges > 0
    ctx.sig = ("borrow", name, variant, len(keys), nedges, sorted(map(repr, keys))[:6])
    ctx.count("borrowed_graphs")
    ctx.count("cyclic_programs" if cyclic else "acyclic_programs")
    if nreal:
        ctx.count("external_ref_calls")
    # list leaves of the borrowed graph (legacy list values with >= 2 in-graph deps and no dependents)
    used = {d for v in depkeys.values() for d in v}
    strip = {k for k in keys if type(g[k]) is list and len(depkeys[k]) >= 2 and k not in used}
    sfeat = "striplists>=2" if len(strip) >= 2 else ("striplists==1" if len(strip) == 1 else "striplists==0")
    feat = COINCIDE if coincide else sfeat
    if coincide:
        ctx.count("legacy_arg_names_external_key_calls")
    info = {"recipe": name, "external_keys_referenced": nreal, "variant": variant, "nkeys": len(keys), "graph": _show(g)}
    stats = rng.random() < 0.3
    out = _call_and_check(ctx, g, keys, depkeys, cyclic, feat, strip, info, stats=stats)
    # ---- the calls the synchronous scheduler makes itself ---------------------------------------
    if case.get("compute") and coll is not None:
        del _SCHED_CALLS[:]
        try:
            if isinstance(coll, list):
                dask.compute(*coll, scheduler="sync")
            else:
                coll.compute(scheduler="sync")
        except Exception as e:  # noqa: BLE001
            # the computation itself is not this property's business; only order() calls observed are
            ctx.op("compute-raised:" + type(e).__name__)
        calls, _SCHED_CALLS[:] = list(_SCHED_CALLS), []
        for rec in calls:
            ctx.count("scheduler_order_calls")
            sk, sd, sdeps, snreal, sco = _graph_facts(rec["dsk"])
            scyc = _cyclic(sdeps)
            sinfo = {"recipe": name, "via": "dask.local.get_async", "nkeys": len(sk), "graph": _show(rec["dsk"])}
            sfeat2 = COINCIDE if sco else "scheduler-call"
            ctx.count("order_calls")
            if rec["exc"] is not None:
                if scyc:
                    ctx.count("cyclic_rejected")
                else:
                    ctx.exception(rec["exc"], prefix="order:%s:acyclic-rejected" % sfeat2, **sinfo)
            else:
                _check_result(ctx, rec["out"], sk, sd, scyc, sfeat2, set(), sinfo, bool(rec["kw"].get("return_stats")))
    ctx.sample = {"recipe": name, "variant": variant, "keys": len(keys), "edges": nedges, "cyclic": cyclic,
                  "external_refs": nreal, "max_priority": None if not out else max(_prio(v) for v in out.values())}
