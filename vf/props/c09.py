"""C09 — low-level graph optimisations preserve requested values.

Statement (fixed, /verif/properties.jsonl): cull, inline, inline_functions,
fuse_linear, fuse (any width/height/renaming settings), linear task-spec
fusion, Task.fuse, alias resolution and node substitution each return a graph
that still contains every requested key.  Computing those keys from the new
graph gives the same values as from the original, and any dependency map they
return matches the returned graph.

Monitor.  Every call of a real optimiser on a generated graph is followed by

  (a) requested keys  ⊆  keys of the returned graph,
  (b) the requested keys are computed from the returned graph with the real
      executors (``dask.core.get`` two calls out of three, ``dask.get`` the
      third) and compared, type-strictly, with the harness evaluation of the
      program (``Program.evaluate`` — no dask).  The original graph of every
      form used is evaluated once per case with BOTH executors for ALL keys
      and must agree with the harness evaluation first (otherwise the case is
      rejected: that is the executor's property, not C09's), so "equal to the
      harness value" and "equal to the value from the original graph" coincide,
  (c) a returned dependency map must have exactly the keys of the returned
      graph and, per key, the set ``get_dependencies(returned, k)`` (legacy
      value) / ``node.dependencies`` (GraphNode value).

Domains (read from the code, /repo/dask/optimization.py and _task_spec.py):

* ``cull``                 legacy, task-spec and mixed graphs; keys as key / list / set / nested list.
* ``fuse``                 legacy and mixed graphs (GraphNode values are skipped by design); the requested keys are
                           always passed as ``keys`` (documented: "Keys that must remain in the returned dask graph").
* ``fuse_linear``, ``inline``   legacy graphs only (they rewrite with ``core.subs``).
* ``inline_functions``     legacy and mixed graphs; ``output`` = requested keys.
* ``fuse_linear_task_spec``, ``resolve_aliases``, ``Task.fuse``, ``substitute``, ``_task_spec.cull``: task-spec graphs.
  ``resolve_aliases`` gets the true dependents map of the graph (harness-computed from ``node.dependencies``).
  ``Task.fuse`` only gets task sets with exactly one output (every other member is a dependency of a member).
* Legacy graphs come from ``Program.legacy()``: literals that look like graph syntax are quoted, dict/tuple arguments
  are explicit calls — so nothing depends on undocumented traversal (DESIGN §6 #25 is not touched).

Labels: ``<op>:<feature>:<symptom>`` with symptom in requested-key-missing / evaluation-fails / values /
dependency-map, or ``<op>:<feature>:<Exc>@file:function`` when the optimiser itself raises.

Calibration (unchanged tree)
* genuine (hand-replayed, /verif/findings_proposed/C09.md; both since fixed in /repo, PENDING is empty again):
  - ``fuse(ave_width=inf)`` raises OverflowError (``int(ave_width - 1)``) when a fusion is refused below the top;
  - ``fuse_linear_task_spec`` on chains whose top key is not str-named stores the fused task under ``None`` and
    turns the top key into a self-alias (values lost; ``dask.get`` hangs on the cycle).
* corrections of the check (false alarms / harness faults):
  - ``Task.fuse`` usage: the harness removed inner tasks of the fused set that a task outside the set still
    needed (through another inner task) -> "Missing dependency".  The generator now removes an inner task only
    when no remaining task depends on it (fixpoint).
  - ``substitute({}, key=new)`` on an ``Alias`` returns the alias with its OLD ``.key``.  The statement speaks about
    keys of the returned graph and values, not about the ``.key`` attribute; the attribute check was dropped (values
    are unaffected because graphs are executed by dict key).
  - a returned graph that is cyclic or has a dangling dependency is reported as ``evaluation-fails`` by a harness
    walk and is never handed to the executors (``dask.get`` blocks forever on a self-alias; seen as a watchdog hit).
  - ``dask.core.get`` executes EVERY node of the graph it is given.  After the linear-fusion defect above left an
    unrelated, unrequested self-alias in the graph, ``resolve_aliases`` output was reported as failing although the
    requested keys were computable (thorough run, label ``resolve_aliases:after-linear-fusion:evaluation-fails``).
    The statement is about the requested keys: both executors now get the sub-graph reachable from them (harness walk).
  - graphs were first emitted in topological dict order only; ``fuse_linear_task_spec``/``fuse_linear`` iterate
    ``for key in dsk`` so a seeded mutant (fusing through a shared dependency) escaped.  Reversed / random
    insertion orders were added (generator widened, oracle unchanged).
"""
from __future__ import annotations

import itertools
import random

from ..gen import graphs as G

PROP = "C09"
RULE = ("cases = one graph program each (small DAG shape x node kinds | random 10-60 node program | borrowed array/bag graph); "
        "inside a case every non-empty requested-key subset (n<=4, n=5 thorough) or sampled subsets x a grid of optimiser "
        "settings is run; complete small space first, then sampled n=5/6 shapes with other key styles and mixed "
        "legacy/GraphNode graphs, random programs, borrowed graphs; non-trivial = >=2 non-literal nodes and >=1 edge; "
        "distinct = distinct case description")
ASSUMPTIONS = ["the harness evaluator Program.evaluate (no dask) gives the value a graph denotes",
               "dask.core.get and dask.get execute a graph correctly when they agree with the harness evaluator on the "
               "unoptimised graph (checked per case) — an executor bug that only shows on optimised graphs is reported here",
               "numpy/python reference for borrowed array/bag graphs"]
BUDGET = {"quick": 90, "thorough": 900}
EXHAUSTIVE_SPACE = {
    "quick": "all DAG shapes on n<=4 topologically numbered nodes x all node-kind assignments over {lit,call,alias,seq} "
             "(1900 programs on 4 nodes; the 170 programs on <=3 nodes also with the nested-list/key-like-literal call kind) x all non-empty requested-key "
             "subsets x fixed grid (20 fuse settings, 3 fuse_linear, cull x2 forms, inline_functions x2, linear "
             "task-spec fusion, resolve_aliases; graph dict in topological order, reversed order with every 4th fuse "
             "setting) + per program all inline key subsets x constants on/off, all "
             "single-output task subsets for Task.fuse, all (node, dependency) substitutions",
    "thorough": "same with the nested-list call kind for n<=4 (4226 programs) and the full fuse grid ave_width{1,2,3,inf} x "
                "max_width{default,1,2} x max_height{default,1,2} x max_depth_new_edges{default,1,2} x "
                "rename{on,off,custom} (+ custom renamers returning None / an existing key); all 1024 shapes on 5 nodes "
                "x 3 sampled kind assignments x all 31 requested subsets (quick grid)",
}
LEVEL_NOTE = ("trusts the harness evaluator and, for executing returned graphs, the real dask executors after they have been "
              "cross-checked against the harness evaluator on the unoptimised graph of the same case")
TECHNIQUE = ("runtime monitoring: every optimiser call is followed by key-presence, re-execution against an independent "
             "evaluator, and dependency-map recomputation; complete small space + random + borrowed graphs")
CLAIM = ("Every call of cull / inline / inline_functions / fuse_linear / fuse / fuse_linear_task_spec / Task.fuse / "
         "resolve_aliases / GraphNode.substitute made on the generated graphs was checked: requested keys present, "
         "requested values (re-executed with dask.core.get / dask.get) equal to the harness evaluation and to the "
         "unoptimised graph, returned dependency maps equal to the dependencies recomputed on the returned graph. "
         "Held means no counterexample among the executions observed (complete for the small space named above).")
CASE_TIMEOUT = 120

# Both mechanisms found on the pinned tree were fixed in /repo by the lead (commits "fix: fuse(ave_width=inf) raises
# OverflowError when a fusion is refused" and "fix: fuse_linear_task_spec breaks graphs whose keys are not str or
# (str, ...) tuples"); their labels were
#   fuse:ave_width=inf:OverflowError@optimization.py:fuse
#   fuse_linear_task_spec:keys=some-not-str-named:evaluation-fails
# Nothing fires on the current tree.
PENDING = {}

FLOORS = {
    # ~45 % of the counts of a complete run on the unchanged tree (seed 0: 3170 cases, 1.75 M optimiser calls)
    "quick": {"evaluations": 1500, "distinct_nontrivial": 1400, "max_skipped_fraction": 0.05,
              "counters": {"optimiser_calls": 800000, "requested_subsets": 17000, "requested_values_compared": 2200000,
                           "dependency_maps_checked": 500000, "graphs_changed_by_optimiser": 330000,
                           "evaluated_with_core_get": 130000, "evaluated_with_dask_get": 45000,
                           "baseline_graphs_agreeing_with_harness": 3100,
                           "changed:cull": 43000, "changed:fuse": 130000, "changed:fuse_linear": 24000,
                           "changed:inline": 30000, "changed:inline_functions": 22000,
                           "changed:fuse_linear_task_spec": 7400, "changed:resolve_aliases": 6700,
                           "changed:Task.fuse": 18000, "changed:substitute": 22000},
              "sets": {"fuse_settings": 150}},
    # thorough, unchanged tree, seed 0: 20395+ cases, 34.9 M optimiser calls
    "thorough": {"evaluations": 9500, "distinct_nontrivial": 9000, "max_skipped_fraction": 0.05,
                 "counters": {"optimiser_calls": 15000000, "requested_subsets": 110000,
                              "requested_values_compared": 45000000, "dependency_maps_checked": 13000000,
                              "graphs_changed_by_optimiser": 6000000, "evaluated_with_core_get": 800000,
                              "evaluated_with_dask_get": 280000, "baseline_graphs_agreeing_with_harness": 22000,
                              "changed:cull": 270000, "changed:fuse": 4800000, "changed:fuse_linear": 115000,
                              "changed:inline": 150000, "changed:inline_functions": 150000,
                              "changed:fuse_linear_task_spec": 35000, "changed:resolve_aliases": 26000,
                              "changed:Task.fuse": 150000, "changed:substitute": 270000},
                 "sets": {"fuse_settings": 150}},
}

INF = float("inf")
D = "default"
AVE = (1, 2, 3, INF)
KINDS = {0: ("lit", "call"), 1: ("call", "alias", "seq"), 2: ("call", "seq")}
KINDS_NEST = {0: ("lit", "call"), 1: ("call", "nest", "alias", "seq"), 2: ("call", "nest", "seq")}
STYLES = G.KEY_STYLES
MAXV = 6      # witnesses recorded per case


# ---------------------------------------------------------------------------------------------
# custom key renamers (must return a new key or None; dask guards against collisions itself)

def _ren_fresh(keys):
    return "fused~" + "~".join(map(str, keys))


def _ren_none_odd(keys):
    return None if len(keys) % 2 else _ren_fresh(keys)


def _ren_first(keys):
    return keys[0]


RENAMERS = {"on": True, "off": False, "fresh": _ren_fresh, "none-odd": _ren_none_odd, "first": _ren_first}


def _rn_feat(rn):
    return "rename=" + (rn if rn in ("on", "off") else "custom")


CUSTOM_FUSE = [(2, 1, D, D, "on"), (3, 2, 2, D, "off"), (INF, D, 1, D, "none-odd"), (INF, 1, D, 1, "on"),
               (3, D, 2, 1, "first"), (INF, D, D, 1, "off"), (INF, D, D, D, "first"), (2, D, D, D, "none-odd")]
GRID_QUICK = [(aw, D, D, D, rn) for aw in AVE for rn in ("on", "off", "fresh")] + CUSTOM_FUSE
GRID_FULL = [(aw, mw, mh, md, rn) for aw in AVE for mw in (D, 1, 2) for mh in (D, 1, 2) for md in (D, 1, 2)
             for rn in ("on", "off", "fresh")] + CUSTOM_FUSE
GRIDS = {"quick": GRID_QUICK, "full": GRID_FULL}


def _fuse_kwargs(s):
    aw, mw, mh, md, rn = s
    kw = {"ave_width": aw, "rename_keys": RENAMERS[rn]}
    if mw != D:
        kw["max_width"] = mw
    if mh != D:
        kw["max_height"] = mh
    if md != D:
        kw["max_depth_new_edges"] = md
    return kw


# ---------------------------------------------------------------------------------------------
# case stream

def _kind_product(n, mask, table):
    deps = G.shape_deps(n, mask)
    return itertools.product(*[table[min(2, len(deps[i]))] for i in range(n)])


def _rand_mask(rng, n):
    nb = n * (n - 1) // 2
    mask = rng.getrandbits(nb)
    if rng.random() < 0.5:
        mask &= rng.getrandbits(nb)
    return mask


def _rand_kinds(rng, n, mask):
    deps = G.shape_deps(n, mask)
    return [rng.choice(KINDS_NEST[min(2, len(deps[i]))]) for i in range(n)]


BORROWED_ARRAY = ("sum", "add_T_mean", "slice_sum", "dot", "maxmin", "rechunk_sum", "where_sum", "concat_mean", "ones_sum",
                  "arange_cumsum")
BORROWED_BAG = ("map_fold", "filter_count", "map_list", "frequencies", "sum", "map_filter_max")


def cases(tier, seed):
    rng = random.Random(seed * 1000003 + 909)
    thorough = tier == "thorough"
    # ---- A: complete small space ---------------------------------------------------------------
    for n in range(1, 5):
        table = KINDS_NEST if (thorough or n <= 3) else KINDS
        for mask in G.shapes(n):
            for kinds in _kind_product(n, mask, table):
                yield {"k": "small", "space": "exhaustive", "n": n, "mask": mask, "kinds": list(kinds), "style": "str",
                       "subsets": "all", "grid": "full" if thorough else "quick"}
    if thorough:
        for mask in G.shapes(5):
            for _ in range(3):
                yield {"k": "small", "space": "exhaustive", "n": 5, "mask": mask, "kinds": _rand_kinds(rng, 5, mask),
                       "style": "str", "subsets": "all", "grid": "quick", "pseed": rng.randrange(2 ** 31)}
    # ---- B: sampled small shapes, other key styles, mixed graphs ---------------------------------
    for _ in range(700 if not thorough else 8000):
        n = rng.choice((3, 4, 4, 5, 5, 5)) if not thorough else rng.choice((4, 5, 5, 6, 6, 6))
        mask = _rand_mask(rng, n)
        yield {"k": "small", "n": n, "mask": mask, "kinds": _rand_kinds(rng, n, mask), "style": rng.choice(STYLES),
               "subsets": "all" if n <= 4 else "sample", "grid": "sample", "pseed": rng.randrange(2 ** 31),
               "mixed": True}
    # ---- C: random larger programs -----------------------------------------------------------------
    for _ in range(300 if not thorough else 5000):
        yield {"k": "random", "n": rng.randint(8, 40 if not thorough else 60), "pseed": rng.randrange(2 ** 31),
               "style": rng.choice(STYLES), "subsets": "sample", "grid": "sample", "mixed": rng.random() < 0.5,
               "rich": rng.random() < 0.7}
    # ---- D: borrowed graphs ----------------------------------------------------------------------------
    for _ in range(100 if not thorough else 1200):
        if rng.random() < 0.65:
            yield {"k": "borrowed", "coll": "array", "expr": rng.choice(BORROWED_ARRAY),
                   "shape": [rng.randint(2, 5), rng.randint(2, 5)], "chunks": [rng.randint(1, 3), rng.randint(1, 3)],
                   "pseed": rng.randrange(2 ** 31)}
        else:
            yield {"k": "borrowed", "coll": "bag", "expr": rng.choice(BORROWED_BAG), "len": rng.randint(1, 12),
                   "npart": rng.randint(1, 4), "pseed": rng.randrange(2 ** 31)}


# ---------------------------------------------------------------------------------------------
# programs

def _perm(case):
    if case.get("pseed") is None:
        return None
    perm = list(range(case["n"]))
    random.Random(case["pseed"]).shuffle(perm)
    return perm


def _small_program(case):
    n, mask, kinds, style = case["n"], case["mask"], case["kinds"], case["style"]
    perm = _perm(case)
    deps = G.shape_deps(n, mask)
    nodes = []
    for i in range(n):
        k = kinds[i]
        key = G.key_of(style, i, perm)
        refs = [("ref", j) for j in deps[i]]
        if k == "lit":
            nodes.append(G.Node(i, key, "lit", lit=G.LITS[i % 4]))
        elif k == "alias":
            nodes.append(G.Node(i, key, "alias", args=refs[:1]))
        elif k == "seq":
            nodes.append(G.Node(i, key, "seq", args=refs))
        elif k == "nest":
            # dependencies reachable only through nested lists + a literal equal to the key of a dependency
            inner = ("list", [refs[0], ("list", refs[1:])]) if len(refs) > 1 else ("list", [("list", refs)])
            nodes.append(G.Node(i, key, "call", fn="fgh"[i % 3],
                                args=[inner, ("lit", G.key_of(style, deps[i][0], perm))]))
        else:
            nodes.append(G.Node(i, key, "call", fn="fgh"[i % 3], args=refs))
    return G.Program(nodes)


def _random_program(case):
    rng = random.Random(case["pseed"])
    prog = G.random_program(rng, case["n"], style=case["style"], rich=case.get("rich", True))
    keys = [n.key for n in prog.nodes]
    for n in prog.nodes:     # key-like literals: a literal argument equal to some key of the graph
        if n.kind == "call" and n.fn in "fgh" and rng.random() < 0.3:
            n.args.append(("lit", rng.choice(keys)))
    return prog


def _reorder(dsk, order, rng):
    ks = list(dsk)
    if order == "reversed":
        ks.reverse()
    else:
        rng.shuffle(ks)
    return {k: dsk[k] for k in ks}


def _program(case):
    return _small_program(case) if case["k"] == "small" else _random_program(case)


# ---------------------------------------------------------------------------------------------
# oracle helpers

class _Stop(Exception):
    pass


def _canon(v):
    return G._canon(v)


def _short(o, n=700):
    s = repr(o)
    return s if len(s) <= n else s[:n] + "..."


class Env:
    """One case: graphs of every form, expected values, counters."""

    def __init__(self, ctx, case, keys, expected, describe):
        self.ctx, self.case, self.keys, self.expected, self.describe = ctx, case, keys, expected, describe
        self.neval = 0
        self.rot = 0
        self.same = _same_canon
        self.cache = {}       # structural signature of (returned graph, request) -> (graph kept alive, outcome)

    # -- evaluation with the real executors ------------------------------------------------------
    def evaluate(self, dsk, req, which=None):
        import dask
        import dask.core as core

        self.neval += 1
        if which is None:
            which = self.neval % 4 == 0
        if which:
            self.ctx.count("evaluated_with_dask_get")
            return dask.get(dsk, list(req))
        self.ctx.count("evaluated_with_core_get")
        return core.get(dsk, list(req))

    def baseline(self, dsk, form):
        """The unoptimised graph must agree with the harness on every key with both executors."""
        for which in (False, True):
            try:
                res = self.evaluate(dsk, self.keys, which)
            except Exception as e:  # noqa: BLE001
                self.ctx.count("baseline_disagrees_with_harness")
                self.ctx.reject("unoptimised %s graph does not execute: %r" % (form, e))
                raise _Stop()
            for k, v in zip(self.keys, res):
                if not self.same(v, self.expected[k]):
                    self.ctx.count("baseline_disagrees_with_harness")
                    self.ctx.reject("unoptimised %s graph: key %r computes %s, harness %s" % (form, k, _short(v, 80), _short(self.expected[k], 80)))
                    raise _Stop()
        self.ctx.count("baseline_graphs_agreeing_with_harness")

    def violation(self, label, msg, **detail):
        if len(self.ctx.violations) < MAXV:
            self.ctx.violation(label, msg, program=self.describe[:40], **detail)

    def check(self, op, feat, old, new, req, depmap=None, call=None):
        """(a) requested keys present, (b) requested values, (c) dependency map."""
        ctx = self.ctx
        ctx.count("optimiser_calls")
        ctx.op(op)
        if not isinstance(new, dict):
            self.violation("%s:%s:not-a-graph" % (op, feat), "returned %s" % _short(new, 200), call=call)
            return False
        if new is not old and (len(new) != len(old) or any(new.get(k, self) is not v for k, v in old.items())):
            ctx.count("graphs_changed_by_optimiser")
            ctx.count("changed:" + op)
        ok = True
        missing = [k for k in req if k not in new]
        if missing:
            self.violation("%s:%s:requested-key-missing" % (op, feat),
                           "requested %r; missing from the returned graph: %r" % (req, missing),
                           call=call, returned=_short(new))
            return False
        # Only the part of the returned graph the requested keys reach is executed: the statement speaks about the
        # requested keys, and dask.core.get would otherwise run every node of the graph (also unrelated ones).
        broken, part = _reachable(new, req)
        # an outcome is reused only for a structurally identical reachable sub-graph and the same request
        sig = (_gsig_graph(part), tuple(map(repr, req)))
        hit = self.cache.get(sig)
        if hit is not None:
            ctx.count("executions_reused_for_identical_returned_graph")
            res, e = hit[1], hit[2]
        else:
            try:
                if broken:      # never hand a cyclic / dangling graph to the executors (dask.get can hang on a cycle)
                    raise _Broken(broken)
                res, e = self.evaluate(part, req), None
            except Exception as exc:  # noqa: BLE001
                if type(exc).__name__ == "CaseTimeout":
                    raise
                res, e = None, exc
            self.cache[sig] = (part, res, e)
        if e is not None:
            self.violation("%s:%s:evaluation-fails" % (op, feat),
                           ("the returned graph cannot be executed for %r: %s" % (req, e)) if isinstance(e, _Broken) else
                           "computing %r from the returned graph raises %s: %s" % (req, type(e).__name__, _short(str(e), 300)),
                           call=call, returned=_short(new))
            return False
        for k, v in zip(req, res):
            if not self.same(v, self.expected[k]):
                self.violation("%s:%s:values" % (op, feat),
                               "key %r computes %s from the returned graph; original graph and harness: %s"
                               % (k, _short(v, 200), _short(self.expected[k], 200)), call=call, returned=_short(new))
                ok = False
                break
        ctx.count("requested_values_compared", len(req))
        if depmap is not None:
            ctx.count("dependency_maps_checked")
            bad = _depmap_mismatch(new, depmap)
            if bad:
                self.violation("%s:%s:dependency-map" % (op, feat), bad, call=call, returned=_short(new),
                               depmap=_short(depmap))
                ok = False
        return ok

    def raised(self, op, feat, exc, call=None):
        if type(exc).__name__ == "CaseTimeout":
            raise exc
        if isinstance(exc, NotImplementedError):
            self.ctx.count("not_implemented")
            return
        self.ctx.count("optimiser_calls")
        if len(self.ctx.violations) < MAXV:
            self.ctx.exception(exc, prefix="%s:%s" % (op, feat), call=call, program=self.describe[:40])


class _Broken(Exception):
    pass


def _reachable(dsk, req):
    """Harness walk from the requested keys -> (problem or None, sub-graph reached, in the order of ``dsk``).
    A problem is a dependency that is not a key, or a dependency cycle."""
    state = {}
    problem = None
    for r in req:
        if r in state or problem:
            continue
        stack = [(r, None)]
        while stack and not problem:
            k, it = stack[-1]
            if it is None:
                if k not in dsk:
                    problem = "dependency %r is not a key of the returned graph" % (k,)
                    break
                state[k] = 1
                it = iter(sorted(_true_deps(dsk, k), key=repr))
                stack[-1] = (k, it)
            for d in it:
                st = state.get(d)
                if st == 1:
                    problem = "the returned graph has a dependency cycle through %r" % (d,)
                    break
                if st is None:
                    stack.append((d, None))
                    break
            else:
                state[k] = 2
                stack.pop()
    return problem, {k: v for k, v in dsk.items() if k in state}


def _not_executable(dsk, req):
    return _reachable(dsk, req)[0]


_ATOMS = (str, int, float, bool, type(None), bytes)


def _gsig(x):
    """Structural, type-strict signature of a graph value; objects that are not plain data count by identity."""
    t = type(x)
    if t is tuple:
        return ("t",) + tuple(map(_gsig, x))
    if t is list:
        return ("l",) + tuple(map(_gsig, x))
    if t in _ATOMS:
        return (t.__name__, repr(x))
    if t is G.TFn:
        return ("F", x.idx, x.fname, x.rid)
    return ("o", id(x))


def _gsig_graph(dsk):
    return tuple(sorted(((repr(k), type(k).__name__, _gsig(v)) for k, v in dsk.items())))


def _same_canon(v, expected_canon):
    try:
        return _canon(v) == expected_canon
    except Exception:  # noqa: BLE001
        return False


def _true_deps(dsk, k):
    from dask._task_spec import GraphNode
    from dask.core import get_dependencies

    v = dsk[k]
    if isinstance(v, GraphNode):
        return set(v.dependencies)
    return set(get_dependencies(dsk, k))


def _depmap_mismatch(new, depmap):
    try:
        mk, gk = set(depmap), set(new)
    except TypeError as e:
        return "dependency map is not a mapping: %r" % (e,)
    if mk != gk:
        return ("keys of the returned dependency map differ from the keys of the returned graph: only in map %r, only in graph %r"
                % (sorted(map(repr, mk - gk)), sorted(map(repr, gk - mk))))
    for k in new:
        true = _true_deps(new, k)
        got = set(depmap[k])
        if got != true:
            return "dependencies[%r] = %r but the returned graph gives %r" % (k, sorted(map(repr, got)), sorted(map(repr, true)))
    return None


def _karg(req, i, flat_only=False):
    """The requested keys in one of the accepted argument forms."""
    i %= 4
    if i == 1:
        return set(req)
    if i == 2 and not flat_only and len(req) > 1:
        h = len(req) // 2
        return [list(req[:h]), list(req[h:])]
    if i == 3 and len(req) == 1 and not flat_only:
        return req[0]
    return list(req)


def _subsets(keys, case, rng, k=6):
    n = len(keys)
    if case.get("subsets") == "all":
        return [list(c) for r in range(1, n + 1) for c in itertools.combinations(keys, r)]
    out = [[keys[-1]], list(keys)]
    for _ in range(k - 2):
        out.append(rng.sample(keys, rng.randint(1, min(n, 5))))
    return out


# ---------------------------------------------------------------------------------------------
# the optimiser batteries

def _legacy_ops(env, dsk, req, grid, rng, form, fast_all):
    """cull / fuse / fuse_linear / inline_functions on a legacy or mixed graph for one requested subset."""
    from dask.optimization import cull, fuse, fuse_linear, inline_functions

    env.rot += 1
    rot = env.rot
    # ---- cull
    karg = _karg(req, rot)
    call = {"op": "cull", "keys": _short(karg, 200)}
    culled = None
    try:
        culled = cull(dsk, karg)
        out, deps = culled
    except Exception as e:  # noqa: BLE001
        env.raised("cull", "form=" + form, e, call)
    else:
        env.check("cull", "form=" + form, dsk, out, req, deps, call)
    # ---- fuse
    for gi, s in enumerate(grid):
        kw = _fuse_kwargs(s)
        use_cull = culled is not None and (rot + gi) % 3 == 0
        src, deps_in = (culled[0], culled[1]) if use_cull else (dsk, None)
        karg = _karg(req, rot + gi)
        awf = "ave_width=%s" % ("inf" if s[0] == INF else "finite")
        feat = "%s&%s" % (awf, _rn_feat(s[4]))
        call = {"op": "fuse", "keys": _short(karg, 200), "settings": list(map(str, s)), "dependencies": "cull" if use_cull else None}
        try:
            rv = fuse(src, keys=karg, dependencies=deps_in, **kw)
            new, deps = rv
        except Exception as e:  # noqa: BLE001
            env.raised("fuse", awf, e, call)
            continue
        env.ctx.distinct("fuse_settings", list(map(str, s)))
        env.check("fuse", feat, src, new, req, deps, call)
    if form == "legacy":
        # ---- fuse_linear
        for ri, rn in enumerate(("on", "off", ("fresh", "none-odd", "first")[rot % 3])):
            use_cull = culled is not None and (rot + ri) % 4 == 0
            src, deps_in = (culled[0], culled[1]) if use_cull else (dsk, None)
            karg = _karg(req, rot + ri + 1)
            feat = _rn_feat(rn)
            call = {"op": "fuse_linear", "keys": _short(karg, 200), "rename_keys": rn, "dependencies": "cull" if use_cull else None}
            try:
                new, deps = fuse_linear(src, keys=karg, dependencies=deps_in, rename_keys=RENAMERS[rn])
            except Exception as e:  # noqa: BLE001
                env.raised("fuse_linear", feat, e, call)
                continue
            env.check("fuse_linear", feat, src, new, req, deps, call)
    # ---- inline_functions
    fasts = [fast_all]
    if fast_all:
        fasts.append(rng.sample(fast_all, rng.randint(1, len(fast_all))))
    for fi, fast in enumerate(fasts):
        const = bool((rot + fi) % 2)
        feat = "constants=%s" % ("on" if const else "off")
        karg = _karg(req, rot + fi, flat_only=True)
        call = {"op": "inline_functions", "output": _short(karg, 200), "fast_functions": _short(fast, 200), "inline_constants": const}
        try:
            new = inline_functions(dsk, karg, fast_functions=fast, inline_constants=const)
        except Exception as e:  # noqa: BLE001
            env.raised("inline_functions", feat, e, call)
            continue
        env.check("inline_functions", feat, dsk, new, req, None, call)


def _inline_ops(env, dsk, keys, rng, complete):
    """inline: the graph keeps all keys, so every key is requested."""
    from dask.core import get_dependencies
    from dask.optimization import inline

    n = len(keys)
    if complete:
        subsets = [list(c) for r in range(0, n + 1) for c in itertools.combinations(keys, r)]
    else:
        # inlining many keys of a DAG with shared nodes duplicates sub-tasks exponentially: "all keys" only when small
        subsets = [[]] + ([list(keys)] if n <= 12 else []) + [rng.sample(keys, rng.randint(1, min(n, 6))) for _ in range(6)]
    i = 0
    for sub in subsets:
        for const in (True, False):
            i += 1
            karg = _karg(sub, i, flat_only=True) if sub else (None if i % 2 else [])
            deps_in = {k: get_dependencies(dsk, k, as_list=bool(i % 2)) for k in dsk} if i % 3 == 0 else None
            feat = "constants=%s" % ("on" if const else "off")
            call = {"op": "inline", "keys": _short(karg, 200), "inline_constants": const, "dependencies": deps_in is not None}
            try:
                new = inline(dsk, keys=karg, inline_constants=const, dependencies=deps_in)
            except Exception as e:  # noqa: BLE001
                env.raised("inline", feat, e, call)
                continue
            env.check("inline", feat, dsk, new, keys, None, call)


def _dependents(dsk):
    dependents = {k: set() for k in dsk}
    for k, v in dsk.items():
        for d in v.dependencies:
            dependents.setdefault(d, set()).add(k)
    return dependents


def _key_feat(keys):
    ok = all(isinstance(k, str) or (isinstance(k, tuple) and k and isinstance(k[0], str)) for k in keys)
    return "keys=all-str-named" if ok else "keys=some-not-str-named"


def _spec_ops(env, dsk, req, rng):
    """task-spec optimisers for one requested subset."""
    from dask._task_spec import Alias, DependenciesMapping, cull as ts_cull, fuse_linear_task_spec, resolve_aliases
    from dask.core import reverse_dict

    env.rot += 1
    rot = env.rot
    kfeat = _key_feat(dsk)
    # ---- _task_spec.cull
    karg = (list(req), set(req), tuple(req))[rot % 3]
    call = {"op": "task_spec.cull", "keys": _short(karg, 200)}
    try:
        new = ts_cull(dsk, karg)
    except Exception as e:  # noqa: BLE001
        env.raised("task_spec.cull", "any", e, call)
    else:
        env.check("task_spec.cull", "any", dsk, new, req, None, call)
    # ---- fuse_linear_task_spec
    karg = list(req) if rot % 2 else set(req)
    call = {"op": "fuse_linear_task_spec", "keys": _short(karg, 200)}
    fused = None
    try:
        fused = fuse_linear_task_spec(dsk, karg)
    except Exception as e:  # noqa: BLE001
        env.raised("fuse_linear_task_spec", kfeat, e, call)
    else:
        if not env.check("fuse_linear_task_spec", kfeat, dsk, fused, req, None, call):
            fused = None
    # ---- resolve_aliases
    afeat = "requested-alias=%s" % ("yes" if any(isinstance(dsk[k], Alias) for k in req) else "no")
    karg = set(req)
    call = {"op": "resolve_aliases", "keys": _short(karg, 200)}
    try:
        new = resolve_aliases(dsk, karg, _dependents(dsk))
    except Exception as e:  # noqa: BLE001
        env.raised("resolve_aliases", afeat, e, call)
    else:
        env.check("resolve_aliases", afeat, dsk, new, req, None, call)
    if fused is not None:
        # the pipeline used by the repository's own optimiser tests: linear fusion, then alias resolution
        call = {"op": "resolve_aliases", "keys": _short(karg, 200), "input": "output of fuse_linear_task_spec"}
        try:
            new = resolve_aliases(fused, karg if rot % 2 else list(req), reverse_dict(DependenciesMapping(fused)))
        except Exception as e:  # noqa: BLE001
            env.raised("resolve_aliases", "after-linear-fusion", e, call)
        else:
            env.check("resolve_aliases", "after-linear-fusion", fused, new, req, None, call)


def _single_output_sets(dsk, keys, rng, complete):
    """Task sets that reduce to a single key: every member but one is a dependency of another member."""
    out = []
    if complete:
        for r in range(1, len(keys) + 1):
            for c in itertools.combinations(keys, r):
                s = set(c)
                used = set()
                for k in c:
                    used |= set(dsk[k].dependencies) & s
                if len(s - used) == 1:
                    out.append((list(c), (s - used).pop()))
        return out
    for _ in range(10):
        o = rng.choice(keys)
        s = [o]
        for _ in range(rng.randint(0, 6)):
            cand = sorted({d for k in s for d in dsk[k].dependencies if d in dsk} - set(s), key=repr)
            if not cand:
                break
            s.append(rng.choice(cand))
        out.append((s, o))
    return out


def _taskfuse_ops(env, dsk, keys, rng, complete):
    from dask._task_spec import Alias, Task

    dependents = _dependents(dsk)
    i = 0
    for members, outkey in _single_output_sets(dsk, keys, rng, complete):
        for newkey in (None, "fused~out"):
            i += 1
            tasks = [dsk[k] for k in members]
            rng.shuffle(tasks)
            feat = "key=%s&tasks=%s" % ("given" if newkey else "none", "1" if len(tasks) == 1 else ">1")
            call = {"op": "Task.fuse", "tasks": _short(members, 200), "key": newkey}
            try:
                node = Task.fuse(*tasks, key=newkey)
            except Exception as e:  # noqa: BLE001
                env.raised("Task.fuse", feat, e, call)
                continue
            s = set(members)
            new = dict(dsk)
            # inner tasks nobody outside the fused set needs are "no longer accessible from the outside"
            removed = set(s - {outkey}) if i % 2 else set()
            while True:     # keep what a remaining node (other than the replaced output) still depends on
                back = {k for k in removed if any(p not in removed and p != outkey for p in dependents[k])}
                if not back:
                    break
                removed -= back
            for k in removed:
                del new[k]
            if newkey is None:
                new[outkey] = node
            else:
                new[newkey] = node
                new[outkey] = Alias(outkey, newkey)
            req = [k for k in keys if k not in removed]
            ext = set().union(*[dsk[k].dependencies for k in members]) - s
            if set(node.dependencies) != ext:
                env.violation("Task.fuse:%s:dependencies" % feat,
                              "fused node depends on %r, the fused set has external dependencies %r" % (node.dependencies, ext), call=call)
            env.check("Task.fuse", feat, dsk, new, req, None, call)


def _substitute_ops(env, dsk, keys, rng, complete):
    from dask._task_spec import Alias

    nodes = [k for k in keys if dsk[k].dependencies]
    if not complete and len(nodes) > 8:
        nodes = rng.sample(nodes, 8)
    i = 0
    for k in nodes:
        node = dsk[k]
        deps = sorted(node.dependencies, key=repr)
        ntype = type(node).__name__
        plans = []
        for d in deps:
            plans.append(("key->key", {d: ("sub~", repr(d))}))
            plans.append(("key->node", {d: dsk[d]}))
        if len(deps) > 1:
            plans.append(("key->key", {d: ("sub~", repr(d)) for d in deps}))
            plans.append(("key->node", {d: dsk[d] for d in deps}))
            plans.append(("key->mixed", {d: (dsk[d] if j % 2 else ("sub~", repr(d))) for j, d in enumerate(deps)}))
        for what, subs in plans:
            i += 1
            subs = dict(subs)
            if i % 3 == 0:
                subs[("not", "a", "dependency")] = "elsewhere"      # irrelevant entries must be ignored
            newkey = None if i % 2 else k
            feat = "%s&node=%s" % (what, ntype)
            call = {"op": "substitute", "node": repr(k), "subs": _short(subs, 300), "key": repr(newkey)}
            try:
                nn = node.substitute(subs, key=newkey)
            except Exception as e:  # noqa: BLE001
                env.raised("substitute", feat, e, call)
                continue
            new = dict(dsk)
            new[k] = nn
            for d, v in subs.items():
                if isinstance(v, tuple) and v[:1] == ("sub~",):
                    # the substituted key denotes the same value: the old node under the new key (rename)
                    try:
                        new[v] = dsk[d].substitute({}, key=v) if i % 4 < 2 else Alias(v, d)
                    except Exception as e:  # noqa: BLE001
                        env.raised("substitute", "rename&node=" + type(dsk[d]).__name__, e, call)
                        new = None
                        break
            if new is None:
                continue
            env.check("substitute", feat, dsk, new, keys, None, call)
        # plain rename of the node itself
        i += 1
        rk = ("ren~", repr(k))
        call = {"op": "substitute", "node": repr(k), "subs": {}, "key": repr(rk)}
        try:
            nn = node.substitute({}, key=rk)
        except Exception as e:  # noqa: BLE001
            env.raised("substitute", "rename&node=" + ntype, e, call)
            continue
        new = dict(dsk)
        new[rk] = nn
        new[k] = Alias(k, rk)
        env.check("substitute", "rename&node=" + ntype, dsk, new, keys, None, call)


# ---------------------------------------------------------------------------------------------
# run

def run_case(case, ctx):
    G.reset_log()
    try:
        if case["k"] == "borrowed":
            _run_borrowed(case, ctx)
        else:
            _run_program(case, ctx)
    except _Stop:
        pass
    finally:
        G.reset_log()


def _run_program(case, ctx):
    import dask.utils
    from dask._task_spec import GraphNode

    prog = _program(case)
    rng = random.Random((case.get("pseed") or 0) * 31 + case["n"])
    keys = [n.key for n in prog.nodes]
    val = prog.evaluate()
    expected = {n.key: _canon(val[n.idx]) for n in prog.nodes}
    env = Env(ctx, case, keys, expected, prog.describe())
    nonlit = sum(1 for n in prog.nodes if n.kind != "lit")
    ctx.nontrivial = nonlit >= 2 and any(prog.deps(n) for n in prog.nodes)
    ctx.sig = {k: v for k, v in case.items() if k not in ("space",)}

    legacy = prog.legacy()
    spec = prog.spec()
    env.baseline(legacy, "legacy")
    env.baseline(spec, "task-spec")
    # Insertion order of the graph dict is an input feature (fuse_linear / fuse_linear_task_spec walk ``for key in dsk``):
    # the complete space runs in topological order and, with a reduced fuse grid, in reversed order; sampled cases
    # use one seeded random order.
    exhaustive = bool(case.get("space"))
    if not exhaustive:
        legacy, spec = _reorder(legacy, "random", rng), _reorder(spec, "random", rng)
    forms = [("legacy", legacy, 1)]
    if exhaustive and len(keys) > 1:
        forms.append(("legacy", _reorder(legacy, "reversed", rng), 4))
    specs = [spec] + ([_reorder(spec, "reversed", rng)] if exhaustive and len(keys) > 1 else [])
    if case.get("mixed"):
        bits = rng.getrandbits(len(keys)) | 1
        mixed = {k: (spec[k] if bits >> keys.index(k) & 1 else legacy[k]) for k in legacy}
        if any(isinstance(v, GraphNode) for v in mixed.values()) and not all(isinstance(v, GraphNode) for v in mixed.values()):
            env.baseline(mixed, "mixed")
            forms.append(("mixed", mixed, 3))
    complete = case.get("subsets") == "all"
    grid = GRIDS.get(case["grid"])
    fast_all = [v[0] for v in legacy.values() if type(v) is tuple and v and isinstance(v[0], G.TFn)]
    if any(n.kind == "call" and (n.kwargs or any(a[0] in ("tuple", "dict", "call") for a in n.args)) for n in prog.nodes):
        fast_all += [G.FUNCS[c] for c in "fgh"] + [tuple, dict, dask.utils.apply]
    subsets = _subsets(keys, case, rng)
    from dask.optimization import cull

    for req in subsets:
        ctx.count("requested_subsets")
        g = grid if grid is not None else rng.sample(GRID_FULL, 5) + rng.sample(CUSTOM_FUSE, 1)
        for fi, (form, dsk, stride) in enumerate(forms):
            _legacy_ops(env, dsk, req, g[fi % stride::stride], rng, form, fast_all)
        for sp in specs:
            # cull also accepts task-spec graphs
            karg = _karg(req, env.rot)
            call = {"op": "cull", "keys": _short(karg, 200)}
            try:
                out, deps = cull(sp, karg)
            except Exception as e:  # noqa: BLE001
                env.raised("cull", "form=task-spec", e, call)
            else:
                env.check("cull", "form=task-spec", sp, out, req, deps, call)
            _spec_ops(env, sp, req, rng)
    _inline_ops(env, legacy, keys, rng, complete and len(keys) <= 4)
    _taskfuse_ops(env, spec, keys, rng, complete and len(keys) <= 5)
    _substitute_ops(env, spec, keys, rng, complete)
    ctx.sample = {"program": env.describe[:8], "subsets": len(subsets), "forms": [f for f, _, _ in forms]}


# ---------------------------------------------------------------------------------------------
# borrowed graphs

def _inc(v):
    return v + 1


def _even(v):
    return v % 2 == 0


def _mod3(v):
    return v % 3


def _build_borrowed(case):
    """-> (collection, reference value computed without dask, finalize(nested results) -> value)."""
    import numpy as np
    from operator import add

    rs = np.random.default_rng(case["pseed"])
    if case["coll"] == "array":
        import dask.array as da

        shape, chunks = tuple(case["shape"]), tuple(case["chunks"])
        a = rs.integers(0, 10, size=shape).astype(float)
        x = da.from_array(a, chunks=chunks)
        e = case["expr"]
        if e == "sum":
            c, ref = x.sum(), a.sum()
        elif e == "add_T_mean":
            c, ref = (x + 1).T.mean(axis=0), (a + 1).T.mean(axis=0)
        elif e == "slice_sum":
            c, ref = x[1:, ::2].sum(axis=1), a[1:, ::2].sum(axis=1)
        elif e == "dot":
            c, ref = x.dot(x.T), a.dot(a.T)
        elif e == "maxmin":
            c, ref = x.max(axis=0) - x.min(axis=0), a.max(axis=0) - a.min(axis=0)
        elif e == "rechunk_sum":
            c, ref = x.rechunk((shape[0], 1)).sum(axis=0), a.sum(axis=0)
        elif e == "where_sum":
            c, ref = da.where(x > 4, x, -x).sum(), np.where(a > 4, a, -a).sum()
        elif e == "concat_mean":
            c, ref = da.concatenate([x, x * 2]).mean(axis=1), np.concatenate([a, a * 2]).mean(axis=1)
        elif e == "ones_sum":
            c, ref = da.ones(shape, chunks=chunks).sum(), np.ones(shape).sum()
        else:
            c, ref = da.arange(shape[0] * shape[1], chunks=max(1, chunks[0] * chunks[1])).cumsum(axis=0), np.arange(shape[0] * shape[1]).cumsum()

        def fin(res):
            def tolist(r):
                return [tolist(q) for q in r] if isinstance(r, (tuple, list)) else r
            nested = tolist(res)
            if c.ndim == 0:
                while isinstance(nested, list):
                    nested = nested[0]
                return np.asarray(nested)
            return np.block(nested)
        return c, ref, fin
    import dask.bag as db

    data = [int(v) for v in rs.integers(0, 20, size=case["len"])]
    b = db.from_sequence(data, npartitions=case["npart"])
    e = case["expr"]
    listy = False
    if e == "map_fold":
        c, ref = b.map(_inc).fold(add), sum(v + 1 for v in data)
    elif e == "filter_count":
        c, ref = b.filter(_even).count(), sum(1 for v in data if v % 2 == 0)
    elif e == "map_list":
        c, ref, listy = b.map(_inc), [v + 1 for v in data], True
    elif e == "frequencies":
        fr = {}
        for v in data:
            fr[v % 3] = fr.get(v % 3, 0) + 1
        c, ref, listy = b.map(_mod3).frequencies(), sorted(fr.items()), "sorted"
    elif e == "sum":
        c, ref = b.sum(), sum(data)
    else:
        c, ref = b.map(_inc).filter(_even).max(), None
        ev = [v + 1 for v in data if (v + 1) % 2 == 0]
        ref = max(ev) if ev else None
        if ref is None:
            return None

    def fin(res):
        if listy:
            out = [v for part in res for v in part]
            return sorted(out) if listy == "sorted" else out
        return res[0]
    return c, ref, fin


def _deep_equal(a, b):
    import numpy as np

    if isinstance(a, np.ndarray) or isinstance(b, np.ndarray):
        try:
            return (isinstance(a, np.ndarray) and isinstance(b, np.ndarray) and a.shape == b.shape and a.dtype == b.dtype
                    and bool(np.array_equal(a, b, equal_nan=True)))
        except Exception:  # noqa: BLE001
            return False
    if type(a) is not type(b):
        return False
    if isinstance(a, (list, tuple)):
        return len(a) == len(b) and all(_deep_equal(x, y) for x, y in zip(a, b))
    if isinstance(a, dict):
        return a.keys() == b.keys() and all(_deep_equal(a[k], b[k]) for k in a)
    try:
        return bool(a == b)
    except Exception:  # noqa: BLE001
        return False


def _comparable(v):
    import numpy as np

    if isinstance(v, (np.ndarray, np.generic, int, float, str, bool, type(None))):
        return True
    if isinstance(v, (list, tuple)):
        return all(_comparable(x) for x in v)
    if isinstance(v, dict):
        return all(_comparable(x) for x in v.values())
    return False


def _run_borrowed(case, ctx):
    import dask
    import dask.core as core
    import numpy as np
    from dask._task_spec import GraphNode, convert_legacy_graph
    from dask.core import flatten
    from dask.optimization import functions_of

    built = _build_borrowed(case)
    if built is None:
        ctx.reject("reference raises (max of an empty sequence)")
        return
    coll, ref, fin = built
    raw = dict(coll.__dask_graph__())
    outkeys = coll.__dask_keys__()
    flat_out = list(flatten(outkeys))
    allkeys = list(raw)
    rng = random.Random(case["pseed"])
    ctx.nontrivial = len(raw) >= 3
    ctx.op("borrowed:" + case["coll"])
    # ---- baseline: original graph vs numpy/python and both executors
    try:
        v_core = core.get(raw, allkeys)
        v_dask = dask.get(raw, allkeys)
    except Exception as e:  # noqa: BLE001
        ctx.reject("unoptimised borrowed graph does not execute: %r" % (e,))
        return
    orig = {}
    for k, a, b in zip(allkeys, v_core, v_dask):
        if _comparable(a) and _deep_equal(a, b):
            orig[k] = a
    got = fin(core.get(raw, outkeys))
    refok = (np.allclose(np.asarray(got, dtype=float), np.asarray(ref, dtype=float), rtol=1e-12, atol=0)
             and np.shape(got) == np.shape(ref)) if case["coll"] == "array" else got == ref
    if not refok or any(k not in orig for k in flat_out):
        ctx.count("baseline_disagrees_with_harness")
        ctx.reject("unoptimised borrowed graph disagrees with the numpy/python reference: %s vs %s" % (_short(got, 100), _short(ref, 100)))
        return
    ctx.count("baseline_graphs_agreeing_with_harness")
    expected = orig
    env = Env(ctx, case, allkeys, expected, ["borrowed %s" % _short(case, 200)])
    env.same = _deep_equal
    cmpkeys = [k for k in allkeys if k in orig]
    subsets = [flat_out] + [sorted(set(rng.sample(cmpkeys, rng.randint(1, min(4, len(cmpkeys)))) + (flat_out if rng.random() < 0.5 else [])),
                                   key=repr) for _ in range(4)]
    is_legacy = not any(isinstance(v, GraphNode) for v in raw.values())
    form = "legacy" if is_legacy else "mixed"
    spec = convert_legacy_graph(raw)
    try:
        funcs = set()
        for v in raw.values():
            if not isinstance(v, GraphNode):
                funcs |= functions_of(v)
        fast_all = sorted(funcs, key=repr)
    except Exception:  # noqa: BLE001
        fast_all = []
    for req in subsets:
        ctx.count("requested_subsets")
        g = rng.sample(GRID_FULL, 5) + rng.sample(CUSTOM_FUSE, 1)
        _legacy_ops(env, raw, req, g, rng, form, fast_all)
        _spec_ops(env, spec, req, rng)
    if is_legacy:
        _inline_ops(env, raw, cmpkeys, rng, False)
    speckeys = [k for k in cmpkeys if k in spec]
    env.keys = speckeys
    _taskfuse_ops(env, spec, speckeys, rng, False)
    _substitute_ops(env, spec, speckeys, rng, False)
    ctx.sample = {"expr": case["expr"], "graph_size": len(raw), "form": form, "outputs": len(flat_out)}
