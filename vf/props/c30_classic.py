"""Helper process of C30: evaluates a batch of pipeline descriptions with the CLASSIC dask.array engine.

    python -m vf.props.c30_classic <batch.json> <out.pkl>

batch.json: [[key, case, [prefix lengths or null]], ...]; out.pkl: {key: {upto: result}} where a result is
{"value": ndarray, "dtype": str, "shape": tuple, "chunks": tuple} or {"error": "Type: msg", "notimpl": bool}.
The environment must NOT enable array.query-planning; the process refuses to run otherwise.
(Not a property module: it has no PROP and is never loaded by the runner.)
"""
from __future__ import annotations

import json
import pickle
import sys
import warnings


def main(argv):
    batch_path, out_path = argv
    import numpy as np
    import dask
    import dask.array as da

    probe = da.ones(2, chunks=1)
    if type(probe).__module__ != "dask.array.core":
        raise SystemExit("c30_classic: the classic engine is not active (%s)" % type(probe).__module__)
    from vf.gen import c30_pipeline as P

    with open(batch_path) as f:
        batch = json.load(f)
    out = {}
    with warnings.catch_warnings():
        warnings.simplefilter("ignore")
        with np.errstate(all="ignore"):
            for key, case, uptos in batch:
                res = {}
                for upto in (uptos or [None]):
                    try:
                        with P.config_ctx(case):
                            r = P.evaluate(case, da, upto=upto)
                            v = r.compute(scheduler="sync")
                        res[upto] = {"value": np.asarray(v), "dtype": str(r.dtype), "shape": tuple(r.shape),
                                     "chunks": tuple(tuple(c) for c in r.chunks)}
                    except NotImplementedError as ex:
                        res[upto] = {"error": "NotImplementedError: %s" % ex, "notimpl": True}
                    except Exception as ex:  # noqa: BLE001
                        res[upto] = {"error": "%s: %s" % (type(ex).__name__, ex), "notimpl": False}
                out[key] = res
    with open(out_path, "wb") as f:
        pickle.dump({"dask_file": dask.__file__, "results": out}, f, protocol=4)


if __name__ == "__main__":
    main(sys.argv[1:])
