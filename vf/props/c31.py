"""C31 — tensor products equal NumPy; qr / svd of tall-and-skinny / short-and-fat chunked matrices are correct.

Monitor 1 (tensor): NumPy differential.  tensordot (axes as int, pair of ints, pair of lists incl. negative
entries), dot, matmul (`@`, broadcast batch dimensions, 1-d operands), outer, einsum (random subscripts:
repeated indices inside one operand, indices shared by several operands, ellipsis with broadcasting, implicit and
explicit output, optimize flag) and inner (absent from the pinned dask: counted as unsupported) are run on
dask.array for random chunkings of every operand and compared with NumPy: shape, dtype, values.  Integer inputs are
compared exactly, floating ones with the reassociation tolerance 8*eps*n (n = number of contracted terms) scaled by
the operand magnitudes.

Monitor 2 (decompositions): algebraic oracle on the computed factors, tolerance 64*eps(dtype)*||A||_F:
* qr:  Q has shape (m, k), R (k, n), k = min(m, n); Q^H Q = I; R upper triangular; Q R = A.
* svd: U (m, k), s (k,), V (k, n); U diag(s) V = A; s non-negative, descending, equal to NumPy's singular values;
       U^H U = I and V V^H = I.
Chunkings: one column block with >= 2 row blocks (tsqr; irregular row blocks, blocks with fewer rows than columns,
chunkings that make tsqr recurse), one row block (sfqr / svd through tsqr of the transpose), one single block.  A
chunking outside the documented preconditions must be refused by dask (ValueError naming the preconditions ->
rejected, counted; NotImplementedError for two-dimensional chunk grids -> unsupported).
Matrices: random normal float64/float32, rank deficient, zero, badly scaled.

Calibration
* einsum with mixed float32 / wider operands: np.einsum itself contracts in the narrower dtype depending on `optimize`
  (its optimize=True and optimize=False results differ by eps(float32)); the tolerance follows the least precise
  floating operand (first version used eps of the float64 result: false alarm `einsum:-:values`, 1e-7 relative).
* dtype of qr/svd factors is not part of the statement and is not compared; the tolerance uses eps of the input dtype.
* da.inner does not exist in the pinned tree (np.inner falls back to NumPy): counted as unsupported.
* A ValueError naming the documented tsqr/sfqr preconditions is a refusal (rejected, counted), any other exception a
  violation; NotImplementedError (two-dimensional chunk grid) is unsupported.
* Labels carry only the code path (tsqr / sfqr / tsqr-of-transpose / single, recursive, shape-contradicts-chunking);
  matrix flavour and short blocks are in the witness detail, so one mechanism does not fan out into many labels.

Sibling facet (vf/mon/siblings.py): every case is also built a second time with ONE result-relevant parameter changed
(tensordot over other axes, einsum with another output subscript, svd with the other coerce_signs (s may be shared)).
The two lazily built collections must not share output keys unless their stand-alone values are equal (label
``<op>:<param>-not-in-name:siblings-share-keys``); for a seeded ~15 % of the cases both are also computed in one graph and
compared with their stand-alone values (``<op>:<param>:differs-when-computed-with-sibling``).  Counters siblings_built /
siblings_computed_together / siblings_with_different_values have floors.
"""
from __future__ import annotations

import random
import warnings

import numpy as np

from ..gen import arrays as A
from ..mon import siblings as S
from ..mon.compare import compare_arrays, lazy_meta_mismatch

PROP = "C31"
RULE = ("cases = (function, operand shapes/dtypes/data seeds, chunking of every operand, axes spec / einsum subscripts / "
        "matrix flavour). Complete part: tensordot of a (3,2) with a (2,3) array over every chunking of both operands for "
        "axes=1 and axes=([0,1],[1,0]); every row chunking of a (6,2) matrix and every column chunking of a (2,6) matrix "
        "under qr and svd. Random part: tensordot/dot/matmul/outer/einsum/inner with 1-3 operands of 0-4 dimensions with "
        "lengths 1-5; qr/svd of matrices up to 24x8 (tall), 8x24 (fat). non-trivial = some operand axis split into >= 2 "
        "chunks; distinct = distinct (function, shapes, dtypes, chunks, spec).")
ASSUMPTIONS = ["NumPy 2.x defines the expected tensor products and singular values",
               "sync scheduler (threads for a tenth)",
               "floating tolerance: 8*eps*n reassociation bound for products, 64*eps*||A||_F for decompositions"]
BUDGET = {"quick": 150, "thorough": 600}
FLOORS = {"quick": {"evaluations": 1300, "distinct_nontrivial": 1100,
                    "counters": {"compared": 1200, "compared_tensordot": 250, "compared_einsum": 210, "compared_matmul": 160,
                                 "compared_dot": 70, "compared_outer": 45, "compared_qr_tsqr": 150, "compared_qr_sfqr": 80,
                                 "compared_svd_tsqr": 150, "compared_svd_tsqr-of-transpose": 60, "tsqr_recursive": 120,
                                 "tsqr_short_blocks": 220, "rank_deficient_or_zero": 180, "einsum_repeated_index": 90,
                                 "einsum_ellipsis": 60, "tensordot_negative_left_axis": 18},
                    "sets": {"einsum_specs": 200}, "max_skipped_fraction": 0.25},
          "thorough": {"evaluations": 20000, "distinct_nontrivial": 16000,
                       "counters": {"compared": 19000, "compared_tensordot": 3400, "compared_einsum": 3900, "compared_matmul": 2600,
                                    "compared_qr_tsqr": 2300, "compared_qr_sfqr": 1100, "compared_svd_tsqr": 2400,
                                    "compared_svd_tsqr-of-transpose": 800, "tsqr_recursive": 1900, "tsqr_short_blocks": 3200,
                                    "rank_deficient_or_zero": 3000, "einsum_repeated_index": 1500, "einsum_ellipsis": 1000,
                                    "tensordot_negative_left_axis": 400},
                       "sets": {"einsum_specs": 2400}, "max_skipped_fraction": 0.25}}
# sibling facet (vf/mon/siblings.py): ~45 % of the smallest count of the five quick seeds on the unchanged tree; thorough =
# quick floor x (thorough / quick stream size) x 0.6.  A run in which the facet never executed is INCONCLUSIVE.
FLOORS["quick"]["counters"].update({"siblings_built": 590, "siblings_computed_together": 83, "siblings_with_different_values": 190})
FLOORS["thorough"]["counters"].update({"siblings_built": 5600, "siblings_computed_together": 780, "siblings_with_different_values": 1800})
EXHAUSTIVE_SPACE = ("all chunkings of (3,2)x(2,3) under tensordot axes=1 and axes=([0,1],[1,0]); all 32 row chunkings of a "
                    "(6,2) matrix and all 32 column chunkings of a (2,6) matrix under qr and svd")
CLAIM = ("Every generated tensor product was computed by the real dask.array and compared with NumPy (shape, dtype, values "
         "within the reassociation tolerance); every generated qr/svd was computed by the real dask.array.linalg and its "
         "factors checked algebraically (orthonormality, triangularity, reconstruction, singular values vs NumPy). held = "
         "no mismatch and no dask exception inside the domain on the executions observed.")
LEVEL_NOTE = ("NumPy is the reference; only the functions the statement names (scipy-backed lu/solve/cholesky and "
              "svd_compressed are outside); da.inner does not exist in the pinned tree")
TECHNIQUE = "runtime monitoring: NumPy differential for tensor products, algebraic factor oracle for qr/svd"
PENDING = {
    "tensordot:negative-left-axis:shape":
        "tensordot with a negative entry in the left axes list re-inserts the contracted axis at the wrong position when "
        "the right operand has no free dimension after it (wrong result shape)",
    "qr:tsqr&shape-contradicts-chunking:shape":
        "qr of a one-column-block matrix with fewer rows than columns: Q is declared with chunks (rows, rows) but only one "
        "block column exists, the computed Q has its columns duplicated",
    "einsum:repeated-index&axes-chunked-differently:ValueError":
        "einsum with an index repeated inside one operand ('ii', 'kk->k') raises unless both axes are chunked identically",
    "tensordot:int-narrower-than-64-bit:dtype": "int32 x int32 tensordot returns int64 (NumPy: int32): the blockwise product is summed with the platform integer",
    "dot:int-narrower-than-64-bit:dtype": "same mechanism through dot -> tensordot",
    "matmul:int-narrower-than-64-bit:dtype": "int32 @ int32 returns int64 (NumPy: int32): _sum_wo_cat derives the dtype from a sum",
    "einsum:int-narrower-than-64-bit:dtype": "int32 einsum with a contraction returns int64 (NumPy: int32)",
}

TD = ["float64", "float64", "float32", "int64", "int32", "complex128"]
MD = ["float64", "float64", "float64", "float32"]
MKINDS = ["normal", "normal", "normal", "rankdef", "rankdef", "zero", "scaled", "intvalued"]


# ---------------------------------------------------------------------------------------------
# case stream

def _jl(chunks):
    return [list(c) for c in chunks]


def cases(tier, seed):
    rng = random.Random(seed * 104729 + 31)
    # complete sub-spaces
    for c1 in A.all_chunkings((3, 2)):
        for c2 in A.all_chunkings((2, 3)):
            for axes in (1, [[0, 1], [1, 0]]):
                yield {"space": "exhaustive", "kind": "tensordot", "s": [[3, 2], [2, 3]], "c": [_jl(c1), _jl(c2)],
                       "d": ["int64", "float64"], "axes": axes, "seed": 5}
    for comp in A.compositions(6):
        for fn in ("qr", "svd"):
            yield {"space": "exhaustive", "kind": fn, "m": 6, "n": 2, "c": [list(comp), [2]], "mk": "normal",
                   "dtype": "float64", "seed": 11, "flavour": "tall"}
            yield {"space": "exhaustive", "kind": fn, "m": 2, "n": 6, "c": [[2], list(comp)], "mk": "normal",
                   "dtype": "float64", "seed": 12, "flavour": "fat"}
    n = 2600 if tier == "quick" else 45000
    kinds = ["tensordot"] * 5 + ["dot"] * 2 + ["matmul"] * 4 + ["outer"] + ["einsum"] * 6 + ["qr"] * 6 + ["svd"] * 6
    for i in range(n):
        kind = rng.choice(kinds)
        if rng.random() < 0.01:
            kind = "inner"
        d = {"kind": kind, "seed": rng.randrange(2 ** 31), "threads": rng.random() < 0.1}
        if kind in ("qr", "svd"):
            d.update(_gen_matrix(rng))
            if kind == "svd":
                d["coerce_signs"] = rng.random() < 0.7
        elif kind == "tensordot":
            d.update(_gen_tensordot(rng))
        elif kind in ("dot", "inner"):
            na, nb = rng.randint(1, 3), rng.randint(1, 3)
            k = rng.randint(1, 5)
            sa = [rng.randint(1, 4) for _ in range(na - 1)] + [k]
            sb = [rng.randint(1, 4) for _ in range(nb)]
            sb[-1 if (nb == 1 or kind == "inner") else -2] = k
            d.update(_ops(rng, [sa, sb]))
        elif kind == "matmul":
            na, nb = rng.randint(1, 4), rng.randint(1, 4)
            k = rng.randint(1, 5)
            batch = [rng.randint(1, 3) for _ in range(2)]
            sa = ([rng.choice((b, 1)) for b in batch][-(na - 2):] if na > 2 else []) + ([rng.randint(1, 4)] if na > 1 else []) + [k]
            sb = ([rng.choice((b, 1)) for b in batch][-(nb - 2):] if nb > 2 else []) + [k] + ([rng.randint(1, 4)] if nb > 1 else [])
            d.update(_ops(rng, [sa, sb]))
            d["form"] = rng.choice(("op", "op", "func", "np_left", "np_right"))
        elif kind == "outer":
            sa = [rng.randint(1, 5) for _ in range(rng.choice((1, 1, 1, 2)))]
            sb = [rng.randint(1, 5) for _ in range(rng.choice((1, 1, 1, 2)))]
            d.update(_ops(rng, [sa, sb]))
        elif kind == "einsum":
            d.update(_gen_einsum(rng))
        yield d


def _ops(rng, shapes):
    dts = [rng.choice(TD) for _ in shapes]
    if rng.random() < 0.5:
        dts = [dts[0]] * len(shapes)
    return {"s": [list(s) for s in shapes], "c": [_jl(A.rand_chunks(rng, s)) for s in shapes], "d": dts}


def _gen_tensordot(rng):
    na, nb = rng.randint(1, 4), rng.randint(1, 3)
    k = rng.randint(0, min(na, nb, 2))
    sa = [rng.randint(1, 5) for _ in range(na)]
    sb = [rng.randint(1, 5) for _ in range(nb)]
    form = rng.choice(("int", "lists", "lists", "lists-neg", "lists-neg", "ints"))
    if form == "int" or k == 0:
        for j in range(k):
            sb[j] = sa[na - k + j]
        axes = k
    else:
        la = rng.sample(range(na), k)
        lb = rng.sample(range(nb), k)
        for x, y in zip(la, lb):
            sb[y] = sa[x]
        if form == "lists-neg":
            la = [x - na if rng.random() < 0.6 else x for x in la]
            lb = [y - nb if rng.random() < 0.6 else y for y in lb]
        if form == "ints" and k == 1:
            axes = [la[0], lb[0]]
        else:
            axes = [la, lb]
    d = _ops(rng, [sa, sb])
    d["axes"] = axes
    return d


def _gen_einsum(rng):
    letters = "ijkl"
    size = {ch: rng.randint(1, 4) for ch in letters}
    nops = rng.choice((1, 2, 2, 2, 3))
    use_ell = rng.random() < 0.3
    ell_shape = [rng.randint(1, 3) for _ in range(rng.randint(1, 2))] if use_ell else []
    subs, shapes = [], []
    for _ in range(nops):
        nidx = rng.choice((0, 1, 1, 2, 2, 2, 3))
        idx = [rng.choice(letters[:3] if rng.random() < 0.8 else letters) for _ in range(nidx)]
        sub = "".join(idx)
        shp = [size[c] for c in idx]
        if use_ell and rng.random() < 0.7:
            ne = rng.randint(0, len(ell_shape))
            es = [e if rng.random() < 0.75 else 1 for e in ell_shape[len(ell_shape) - ne:]]
            pos = rng.choice((0, 0, len(idx), rng.randint(0, len(idx))))
            sub = sub[:pos] + "..." + sub[pos:]
            shp = shp[:pos] + es + shp[pos:]
        subs.append(sub)
        shapes.append(shp)
    spec = ",".join(subs)
    if rng.random() < 0.6:
        used = sorted(set(c for c in spec if c in letters))
        out = [c for c in used if rng.random() < 0.5]
        rng.shuffle(out)
        out = "".join(out)
        if "..." in spec and rng.random() < 0.9:
            pos = rng.choice((0, 0, len(out)))
            out = out[:pos] + "..." + out[pos:]
        spec += "->" + out
    d = _ops(rng, shapes)
    d["spec"] = spec
    d["optimize"] = rng.choice((False, False, True, "greedy", "optimal"))
    d["split_every"] = rng.choice((None, None, 2))
    return d


def _gen_matrix(rng):
    flavour = rng.choice(("tall", "tall", "tall", "tall-many", "tall-many", "fat", "fat", "single", "tall-wide", "grid"))
    if flavour == "tall":
        n = rng.randint(1, 6)
        rows = [rng.randint(1, 7) for _ in range(rng.randint(2, 5))]
        c = [rows, [n]]
    elif flavour == "tall-many":          # many row blocks, few columns: tsqr may recurse
        n = rng.randint(1, 3)
        big = rng.randint(2 * n, 2 * n + 4)
        rows = [rng.choice((big, big, rng.randint(1, big))) for _ in range(rng.randint(3, 8))]
        c = [rows, [n]]
    elif flavour == "tall-wide":          # one column block, several row blocks, but fewer rows than columns overall
        rows = [rng.randint(1, 3) for _ in range(rng.randint(2, 3))]
        n = sum(rows) + rng.randint(1, 4)
        c = [rows, [n]]
    elif flavour == "fat":
        m = rng.randint(1, 6)
        cols = [rng.randint(1, 7) for _ in range(rng.randint(2, 5))]
        if rng.random() < 0.7:
            cols[0] = max(cols[0], m)     # sfqr precondition: first column block at least as wide as the matrix is tall
        c = [[m], cols]
    elif flavour == "single":
        c = [[rng.randint(1, 8)], [rng.randint(1, 8)]]
    else:
        c = [[rng.randint(1, 4) for _ in range(2)], [rng.randint(1, 4) for _ in range(2)]]
    m, n = sum(c[0]), sum(c[1])
    return {"m": m, "n": n, "c": c, "mk": rng.choice(MKINDS), "dtype": rng.choice(MD), "flavour": flavour}


# ---------------------------------------------------------------------------------------------
# data

def _tensor(seed, shape, dtype):
    r = np.random.default_rng(seed)
    dt = np.dtype(dtype)
    if dt.kind in "iu":
        return r.integers(-4, 5, size=shape).astype(dt)
    if dt.kind == "c":
        return (r.standard_normal(shape) + 1j * r.standard_normal(shape)).astype(dt)
    return r.standard_normal(shape).astype(dt)


def _matrix(seed, m, n, mk, dtype):
    r = np.random.default_rng(seed)
    if mk == "zero":
        a = np.zeros((m, n))
    elif mk == "rankdef":
        k = max(1, min(m, n) // 2) if min(m, n) > 1 else 1
        rk = int(r.integers(1, k + 1))
        a = r.standard_normal((m, rk)) @ r.standard_normal((rk, n))
        if r.random() < 0.3 and m > 1:
            a[int(r.integers(0, m))] = 0.0          # a zero row as well
    elif mk == "scaled":
        a = r.standard_normal((m, n)) * float(10.0 ** int(r.integers(-6, 7)))
    elif mk == "intvalued":
        a = r.integers(-3, 4, size=(m, n)).astype("float64")
    else:
        a = r.standard_normal((m, n))
    return a.astype(dtype)


# ---------------------------------------------------------------------------------------------

def run_case(case, ctx):
    with warnings.catch_warnings():
        warnings.simplefilter("ignore")
        with np.errstate(all="ignore"):
            if case["kind"] in ("qr", "svd"):
                _run_decomp(case, ctx)
            else:
                _run_tensor(case, ctx)


def _sched(case):
    return "threads" if case.get("threads") else "sync"


def _run_tensor(case, ctx):
    import dask.array as da

    kind = case["kind"]
    xs = [_tensor(case["seed"] + i, tuple(s), d) for i, (s, d) in enumerate(zip(case["s"], case["d"]))]
    cs = [A.chunks_of_desc(c) for c in case["c"]]
    dxs = [da.from_array(x, chunks=c) for x, c in zip(xs, cs)]
    ctx.nontrivial = any(A.has_split(c) for c in cs)
    ctx.sig = {k: v for k, v in case.items() if k not in ("seed", "threads")}
    ctx.op(kind)
    flags = []
    n_contract = 1
    if kind == "tensordot":
        axes = case["axes"]
        ax = axes if isinstance(axes, int) else (tuple(axes[0]) if isinstance(axes[0], list) else axes[0],
                                                  tuple(axes[1]) if isinstance(axes[1], list) else axes[1])
        if isinstance(axes, int):
            n_contract = int(np.prod(xs[0].shape[xs[0].ndim - axes:])) if axes else 1
        else:
            la = axes[0] if isinstance(axes[0], list) else [axes[0]]
            lb = axes[1] if isinstance(axes[1], list) else [axes[1]]
            if any(v < 0 for v in la):
                flags.append("negative-left-axis")
                ctx.count("tensordot_negative_left_axis")
            elif any(v < 0 for v in lb):
                flags.append("negative-right-axis")
            n_contract = int(np.prod([xs[0].shape[v] for v in la])) if la else 1
        f_np = lambda a, b: np.tensordot(a, b, axes=ax)      # noqa: E731
        f_da = lambda a, b: da.tensordot(a, b, axes=ax)      # noqa: E731
    elif kind == "dot":
        n_contract = xs[0].shape[-1]
        if xs[1].ndim == 1:
            flags.append("1-d-right")
        f_np, f_da = np.dot, da.dot
    elif kind == "inner":
        n_contract = xs[0].shape[-1]
        f_np = np.inner
        f_da = getattr(da, "inner", None)
        if f_da is None:
            ctx.unsupported("dask.array has no `inner` in this tree (np.inner on dask arrays falls back to NumPy)")
            return
    elif kind == "matmul":
        n_contract = xs[0].shape[-1]
        form = case["form"]
        if xs[0].ndim == 1:
            flags.append("1-d-left")
        if xs[1].ndim == 1:
            flags.append("1-d-right")
        if (xs[0].ndim > 2 or xs[1].ndim > 2) and xs[0].shape[:-2] != xs[1].shape[:-2]:
            flags.append("batch-broadcast")
        f_np = np.matmul
        if form == "op":
            f_da = lambda a, b: a @ b                       # noqa: E731
        elif form == "func":
            f_da = da.matmul
        elif form == "np_left":
            f_da = lambda a, b: xs[0] @ b                   # noqa: E731
        else:
            f_da = lambda a, b: a @ xs[1]                   # noqa: E731
    elif kind == "outer":
        if xs[0].ndim > 1 or xs[1].ndim > 1:
            flags.append("n-d-operand")
        f_np, f_da = np.outer, da.outer
    elif kind == "einsum":
        spec, opt = case["spec"], case["optimize"]
        ins = spec.split("->")[0].split(",")
        rep = _repeated(ins, xs, cs)
        if rep:
            flags.append(rep)
            ctx.count("einsum_repeated_index")
        if "..." in spec:
            if not rep.endswith("differently"):
                flags.append("ellipsis")
            ctx.count("einsum_ellipsis")
        if opt is not False:
            ctx.count("einsum_optimize")
        n_contract = int(np.prod([max(x.size, 1) for x in xs]))   # crude upper bound of terms per output element
        kw = {} if case.get("split_every") is None else {"split_every": case["split_every"]}
        f_np = lambda *a: np.einsum(spec, *a, optimize=opt)         # noqa: E731
        f_da = lambda *a: da.einsum(spec, *a, optimize=opt, **kw)   # noqa: E731
        ctx.distinct("einsum_specs", spec)
    else:
        raise AssertionError(kind)
    label = "%s:%s" % (kind, "&".join(flags) or "-")
    try:
        e = f_np(*xs)
    except Exception as ex:  # noqa: BLE001
        ctx.reject("numpy: %s: %s" % (type(ex).__name__, ex))
        return
    try:
        r = f_da(*dxs)
        if not isinstance(r, da.Array):
            ctx.violation(label + ":result-not-a-dask-array", "got %r" % (type(r),))
            return
        rv = r.compute(scheduler=_sched(case))
    except NotImplementedError as ex:
        ctx.unsupported(str(ex))
        return
    except Exception as ex:  # noqa: BLE001
        if "repeated-index&axes-chunked-differently" in flags and isinstance(ex, ValueError):
            # one mechanism (blockwise never aligns two axes of ONE operand), several raise sites
            import traceback
            ctx.violation(label + ":ValueError", "%s: %s" % (type(ex).__name__, ex), traceback=traceback.format_exc()[-2000:])
            return
        ctx.exception(ex, prefix=label)
        return
    ctx.count("compared")
    ctx.count("compared_" + kind)
    exact = np.asarray(e).dtype.kind in "iub"
    factor = 8.0
    if kind == "einsum" and np.asarray(e).dtype.kind in "fc":
        # Calibration: with mixed float32 / wider operands np.einsum itself contracts pairwise in the narrower dtype
        # depending on `optimize` (optimize=True and False differ by eps(float32)); the tolerance follows the
        # least precise floating operand.
        eps_res = float(np.finfo(np.asarray(e).dtype).eps)
        eps_in = max([float(np.finfo(x.dtype).eps) for x in xs if x.dtype.kind in "fc"] + [eps_res])
        factor = 8.0 * eps_in / eps_res
    scale = float(np.prod([np.max(np.abs(x), initial=1.0) for x in xs])) * max(n_contract, 1)
    m = compare_arrays(rv, e, exact=exact, n=max(n_contract, 1), scale=scale, factor=factor)
    if m and m[0] == "dtype" and np.asarray(e).dtype.kind in "iu" and np.asarray(e).dtype.itemsize < 8 \
            and np.asarray(rv).dtype.kind in "iu":
        # one mechanism per function (the blockwise product is summed with the platform integer), whatever the spec
        ctx.violation("%s:int-narrower-than-64-bit:dtype" % kind, m[1])
        m = compare_arrays(rv, e, exact=exact, n=max(n_contract, 1), scale=scale, check_dtype=False, factor=factor)
    if m:
        ctx.violation("%s:%s" % (label, m[0]), m[1], result=repr(rv)[:300], expected=repr(e)[:300])
    else:
        m = lazy_meta_mismatch(r, rv)
        if m:
            ctx.violation("%s:%s" % (label, m[0]), m[1])
    ctx.sample = {"kind": kind, "spec": case.get("spec", case.get("axes")), "shapes": case["s"], "chunks": case["c"],
                  "result_shape": list(np.shape(rv))}
    # ---- sibling facet: the same operands contracted over OTHER axes / another einsum output must not share keys ----
    if kind == "tensordot":
        ax2 = _sibling_axes(case["axes"])
        if ax2 is not None:
            S.check(ctx, "tensordot", "axes", r, (lambda: da.tensordot(dxs[0], dxs[1], axes=ax2)), va=rv,
                    describe={"axes": repr(ax2)})
    elif kind == "einsum":
        spec2 = _sibling_spec(case["spec"], S.rng_for(case))
        if spec2 is not None:
            S.check(ctx, "einsum", "subscripts", r, (lambda: da.einsum(spec2, *dxs, optimize=opt, **kw)), va=rv,
                    describe={"spec": spec2})


def _sibling_axes(axes):
    """tensordot axes with one contracted pair dropped (always shape-compatible), or None"""
    if isinstance(axes, int):
        return 0 if axes == 1 else None
    la, lb = axes
    if not isinstance(la, list):
        return 0
    if not la:
        return None
    return (tuple(la[:-1]), tuple(lb[:-1]))


def _sibling_spec(spec, srng):
    """the same einsum inputs with ANOTHER explicit output: output letters reversed, or the last one summed away /
    a summed letter kept; None when the spec gives no room (ellipsis in the inputs but not in an explicit output is
    left alone)"""
    ins, _, out = spec.partition("->")
    letters = [c for c in ins if c.isalpha()]
    has_ell = "..." in ins
    if "->" in spec:
        cur = out
    else:
        cur = ("..." if has_ell else "") + "".join(sorted(c for c in set(letters) if letters.count(c) == 1))
    if has_ell and "..." not in cur:
        return None
    core = cur.replace("...", "")
    ell = "..." if "..." in cur else ""
    cands = []
    if len(core) >= 2 and core[::-1] != core:
        cands.append(ell + core[::-1])
    if core:
        cands.append(ell + core[:-1])
    extra = sorted(set(letters) - set(core))
    if extra:
        cands.append(ell + core + extra[0])
    cands = [c for c in cands if c != cur]
    if not cands:
        return None
    return ins + "->" + srng.choice(cands)


def _repeated(ins, xs, cs):
    """'' | 'repeated-index' | 'repeated-index&axes-chunked-differently' for einsum input terms."""
    out = ""
    for t, x, c in zip(ins, xs, cs):
        if "..." in t:
            head, tail = t.split("...")
            pos = list(range(len(head))) + list(range(x.ndim - len(tail), x.ndim))
            t = head + tail
        else:
            pos = list(range(len(t)))
        for ch in set(t):
            axes = [pos[i] for i, q in enumerate(t) if q == ch]
            if len(axes) > 1:
                out = out or "repeated-index"
                if len({tuple(c[a]) for a in axes}) > 1:
                    return "repeated-index&axes-chunked-differently"
    return out


# ---------------------------------------------------------------------------------------------
# decompositions

def tsqr_recurses(chunks):
    """Mirror of the recursion condition in dask.array.linalg.tsqr (evidence only, never an oracle)."""
    rows, cc = chunks[0], chunks[1][0]
    nr, cr_max = len(rows), max(rows)
    return cr_max >= 2 * cc and int(np.ceil(nr * cc / cr_max)) > 1 if cr_max else False


def _maxabs(x):
    x = np.asarray(x)
    return float(np.max(np.abs(x))) if x.size else 0.0


def _run_decomp(case, ctx):
    import dask
    import dask.array as da

    kind, m, n, mk, dtype = case["kind"], case["m"], case["n"], case["mk"], case["dtype"]
    chunks = A.chunks_of_desc(case["c"])
    a = _matrix(case["seed"], m, n, mk, dtype)
    dx = da.from_array(a, chunks=chunks)
    nbr, nbc = len(chunks[0]), len(chunks[1])
    ctx.nontrivial = A.has_split(chunks)
    ctx.sig = {k: v for k, v in case.items() if k not in ("seed", "threads")}
    ctx.op(kind + ":" + case["flavour"])
    k = min(m, n)
    if nbr > 1 and nbc > 1:
        path = "grid"
    elif nbr > 1:
        path = "tsqr"
    elif kind == "qr":
        path = "sfqr"
    else:
        path = "single" if nbc == 1 else "tsqr-of-transpose"
    flags = [path]
    rec = False
    if path == "tsqr":
        rec = tsqr_recurses(chunks)
    elif path == "tsqr-of-transpose":
        rec = tsqr_recurses((chunks[1], chunks[0]))
    if rec:
        flags.append("recursive")
        ctx.count("tsqr_recursive")
    short = (path == "tsqr" and any(r < n for r in chunks[0])) or (path == "tsqr-of-transpose" and any(c < m for c in chunks[1]))
    if short:
        ctx.count("tsqr_short_blocks")
    if (path == "tsqr" and m < n) or (path == "tsqr-of-transpose" and n < m):
        flags.append("shape-contradicts-chunking")
    if mk in ("zero", "rankdef"):
        ctx.count("rank_deficient_or_zero")
    label = "%s:%s" % (kind, "&".join(flags))
    eps = float(np.finfo(np.dtype(dtype)).eps)
    norm = float(np.linalg.norm(a.astype("float64")))
    tol = 64.0 * eps * norm
    otol = 64.0 * eps * max(k, 1)

    try:
        if kind == "qr":
            outs = da.linalg.qr(dx)
        else:
            outs = da.linalg.svd(dx, coerce_signs=case.get("coerce_signs", True))
        vals = dask.compute(*outs, scheduler=_sched(case))
    except NotImplementedError as ex:
        ctx.unsupported(str(ex).split("\n")[0])
        return
    except ValueError as ex:
        if "Input must have the following properties" in str(ex):
            ctx.count("precondition_refused")
            ctx.reject("dask refuses the chunking: documented sfqr/tsqr precondition")
            return
        ctx.exception(ex, prefix=label)
        return
    except Exception as ex:  # noqa: BLE001
        ctx.exception(ex, prefix=label)
        return
    ctx.count("compared")
    ctx.count("compared_" + kind + "_" + path)

    def bad(symptom, msg, **kw):
        ctx.violation("%s:%s" % (label, symptom), msg, shape=[m, n], chunks=case["c"], matrix=mk, short_blocks=short, **kw)

    eye = np.eye(k)
    if kind == "qr":
        q, r = (np.asarray(v) for v in vals)
        if q.shape != (m, k) or r.shape != (k, n):
            bad("shape", "Q %s R %s, expected (%d,%d) and (%d,%d)" % (q.shape, r.shape, m, k, k, n))
            return
        for nm, lazy, v in (("Q", outs[0], q), ("R", outs[1], r)):
            mm = lazy_meta_mismatch(lazy, v)
            if mm and mm[0] != "lazy-dtype":
                bad(mm[0], "%s: %s" % (nm, mm[1]))
        e1 = _maxabs(q.conj().T @ q - eye)
        if not e1 <= otol:
            bad("Q-not-orthonormal", "max|Q^H Q - I| = %.3g > %.3g" % (e1, otol))
        e2 = _maxabs(np.tril(r, -1))
        if not e2 <= tol:
            bad("R-not-upper-triangular", "max|tril(R,-1)| = %.3g > %.3g" % (e2, tol))
        e3 = _maxabs(q.astype("complex128" if q.dtype.kind == "c" else "float64") @ r - a)
        if not e3 <= tol:
            bad("QR!=A", "max|QR - A| = %.3g > %.3g" % (e3, tol))
        ctx.sample = {"kind": kind, "path": path, "recursive": rec, "shape": [m, n], "chunks": case["c"],
                      "err_orth": e1, "err_recon": e3, "tol": tol}
    else:
        u, s, v = (np.asarray(x) for x in vals)
        if u.shape != (m, k) or s.shape != (k,) or v.shape != (k, n):
            bad("shape", "U %s s %s V %s, expected (%d,%d) (%d,) (%d,%d)" % (u.shape, s.shape, v.shape, m, k, k, k, n))
            return
        for nm, lazy, val in (("U", outs[0], u), ("s", outs[1], s), ("V", outs[2], v)):
            mm = lazy_meta_mismatch(lazy, val)
            if mm and mm[0] != "lazy-dtype":
                bad(mm[0], "%s: %s" % (nm, mm[1]))
        s_np = np.linalg.svd(a.astype("float64"), compute_uv=False)
        e0 = _maxabs(s.astype("float64") - s_np)
        if not e0 <= tol:
            bad("singular-values", "max|s - s_numpy| = %.3g > %.3g; s=%s numpy=%s" % (e0, tol, s.tolist(), s_np.tolist()))
        if (s < 0).any() or (np.diff(s) > tol).any():
            bad("singular-values-order", "s not non-negative descending: %s" % (s.tolist(),))
        e1 = _maxabs(u.conj().T @ u - eye)
        if not e1 <= otol:
            bad("U-not-orthonormal", "max|U^H U - I| = %.3g > %.3g" % (e1, otol))
        e2 = _maxabs(v @ v.conj().T - eye)
        if not e2 <= otol:
            bad("V-not-orthonormal", "max|V V^H - I| = %.3g > %.3g" % (e2, otol))
        e3 = _maxabs((u.astype("float64") * s.astype("float64")) @ v.astype("float64") - a)
        if not e3 <= tol:
            bad("USV!=A", "max|U diag(s) V - A| = %.3g > %.3g" % (e3, tol))
        ctx.sample = {"kind": kind, "path": path, "recursive": rec, "shape": [m, n], "chunks": case["c"],
                      "err_s": e0, "err_recon": e3, "tol": tol}
        # ---- sibling facet: the same matrix with the other coerce_signs setting (s may legitimately be shared) -------
        cs2 = not case.get("coerce_signs", True)
        S.check(ctx, "svd", "coerce_signs", tuple(outs), (lambda: tuple(da.linalg.svd(dx, coerce_signs=cs2))), va=tuple(vals),
                describe={"coerce_signs": cs2})
