"""C31 — tensor products equal NumPy; qr / svd of tall-and-skinny / short-and-fat chunked matrices are correct.

Monitor 1 (tensor): NumPy differential.  tensordot (axes omitted, as int 0-3, pair of ints, pair of lists / tuples /
one of each incl. negative entries), dot (function, method, ``np.dot`` dispatch, 0-d operands), vdot (conjugation,
operands of different shapes), matmul (`@`, ``da.matmul``, ``np.matmul``, broadcast batch dimensions, 1-d operands),
outer (0-d to 3-d operands), einsum (random subscripts: repeated indices inside one operand, indices shared by several
operands, ellipsis with broadcasting, a named index of length 1 broadcast against a longer one, implicit and explicit
output, spaces and upper-case letters in the subscripts, interleaved operand/sublist call format, `optimize` incl. an
explicit contraction path, `dtype=` with `casting=`, `split_every` int / dict) and inner (absent from the pinned dask:
counted as unsupported) are run on dask.array for random chunkings of every operand - also with one operand left as
a NumPy array - and compared with NumPy: shape, dtype, values.  Integer inputs are compared exactly, floating ones
with the reassociation tolerance 8*eps*n (n = number of contracted terms) scaled by the operand magnitudes.
Size classes: axes of length 0, contracted axes of length 6-12 cut into >= 5 blocks (an intermediate combine level of
the block sum exists), three contracted axes.

Monitor 2 (decompositions): algebraic oracle on the computed factors, tolerance 64*eps(dtype)*||A||_F:
* qr:  Q has shape (m, k), R (k, n), k = min(m, n); Q^H Q = I; R upper triangular; Q R = A.
* svd: U (m, k), s (k,), V (k, n); U diag(s) V = A; s non-negative, descending, equal to NumPy's singular values;
       U^H U = I and V V^H = I; with coerce_signs=True (the documented sign normalisation) no row of V sums to a
       negative number; full_matrices=True must raise NotImplementedError (documented), never return reduced factors.
Entry points: da.linalg.qr / svd, np.linalg.qr / svd dispatch, da.linalg.tsqr / sfqr called directly (tsqr also on a
single block and with compute_svd=True).
Chunkings: one column block with >= 2 row blocks (tsqr; irregular row blocks, blocks with fewer rows than columns -
counted separately when such a block is not the last one of its stacked group in the recursive regime -, blocks of
height 0, chunkings that make tsqr recurse once or several times, row blocks of UNKNOWN height (boolean-mask
selection of every row)), one row block (sfqr / svd through tsqr of the transpose, also with more rows than columns
and with column blocks of width 0 / unknown width), one single block, square matrices on every path.  A chunking
outside the documented preconditions must be refused by dask (ValueError naming the preconditions -> rejected,
counted); NotImplementedError for two-dimensional chunk grids -> unsupported.
Matrices: random normal float64/float32/complex128, integer dtype, rank deficient, zero, badly scaled.

Monitor 3 (svd_compressed): only in the regime where the randomized algorithm is exact in exact arithmetic
(min(m, n) <= 20, so the compression level is min(m, n) whatever k / n_oversamples): any 2-d chunk grid, k,
iterator power / QR, n_power_iter 0-2, n_oversamples, seed as int / RandomState, compute=, coerce_signs.  U (m, k),
s (k,), V (k, n); orthonormal; s equal to NumPy's k largest singular values; ||A - U diag(s) V||_F equal to the
optimal rank-k error.  Tolerance 64*eps*||A||_F times the condition number of the Gaussian test matrix (re-drawn with
the same seed: evidence for the tolerance only) and, for power iterations, times (s_1/s_r)^(2p); a case whose
tolerance exceeds 1e-3*||A|| only checks shapes and orthonormality.

Monitor 4 (norm): NumPy differential of da.linalg.norm / np.linalg.norm dispatch: ord None / 'fro' / 'nuc' / +-inf /
0 / +-1 / +-2 / 3 / 0.5 / -3, axis None / int / pair (negative entries, reversed order), keepdims, 1-d to 4-d.

Monitor 5 (scipy-backed): cholesky of ONE block (the only scipy-free path; `lower`) is checked algebraically;
cholesky of several blocks, lu, solve, solve_triangular, inv and lstsq need scipy.linalg.solve_triangular / lu, which is
absent here: a seeded handful of calls is made and counted as environment-limited (ModuleNotFoundError: scipy).

Calibration
* einsum with mixed float32 / wider operands: np.einsum itself contracts in the narrower dtype depending on `optimize`
  (its optimize=True and optimize=False results differ by eps(float32)); the tolerance follows the least precise
  floating operand (first version used eps of the float64 result: false alarm `einsum:-:values`, 1e-7 relative).
* dtype of qr/svd factors is not part of the statement and is not compared; the tolerance uses eps of the input dtype.
* da.inner does not exist in the pinned tree (np.inner falls back to NumPy): counted as unsupported.
* A ValueError naming the documented tsqr/sfqr preconditions is a refusal (rejected, counted), any other exception a
  violation; NotImplementedError (two-dimensional chunk grid) is unsupported.
* Labels carry only the code path (tsqr / sfqr / tsqr-of-transpose / single, recursive, shape-contradicts-chunking,
  unknown-chunks); matrix flavour, entry point and short blocks are in the witness detail, so one mechanism does not fan
  out into many labels.
* Narrow integer results: NumPy wraps around in the narrow dtype, dask sums in 64 bits (known dtype finding); the values
  are compared after casting the dask result to NumPy's dtype (modular arithmetic commutes with the cast).  bool x bool
  is a logical product in NumPy; dask counts (label `<op>:bool-operands:dtype`); values compared as `count != 0`.
* Unknown row heights are only generated with m >= n (n >= m for the transposed path): tsqr documents in its source
  that it has to assume m >= n when the shape is unknown (svd of a 3 x 12 matrix with unknown row chunks cannot know
  that it must truncate).
* einsum interleaved format uses sublist integers 0-25 only: for integers >= 26 NumPy's C parser orders an implicit
  output by integer while its own einsum_path (and dask) order by the letter the integer is mapped to.
* einsum, dtype= on a subscript whose result is a view ('j', 'ii->i', 'ij->ji'): np.einsum ignores the keyword, the
  computed blocks have NumPy's dtype while the lazy dtype is the requested one; values and dtype are still compared with
  NumPy, the lazy-dtype comparison is skipped for exactly this case (false alarm `einsum:dtype-keyword:lazy-dtype`).
* einsum with a bool operand next to non-bool ones and optimize != False: NumPy reduces the bool operand alone first
  (logical any), its result differs from its own optimize=False result; such a case has no reference (rejected, counted).
* norm is not generated on arrays with an axis of length 0 (np.linalg.norm's `max` over nothing is special-cased).

Sibling facet (vf/mon/siblings.py): every case is also built a second time with ONE result-relevant parameter changed
(tensordot over other axes, einsum with another output subscript or another dtype=, svd with the other coerce_signs
(s may be shared), svd_compressed with another k / n_power_iter, norm with another ord / keepdims / axis, cholesky with
the other `lower`).  The two lazily built collections must not share output keys unless their stand-alone values are
equal (label ``<op>:<param>-not-in-name:siblings-share-keys``); for a seeded ~15 % of the cases both are also computed in
one graph and compared with their stand-alone values (``<op>:<param>:differs-when-computed-with-sibling``).  Counters
siblings_built / siblings_computed_together / siblings_with_different_values have floors.
"""
from __future__ import annotations

import random
import warnings

import numpy as np

from ..gen import arrays as A
from ..mon import siblings as S
from ..mon.compare import compare_arrays, lazy_meta_mismatch

PROP = "C31"
RULE = ("cases = (function, call form, operand shapes/dtypes/data seeds, chunking of every operand, axes spec / einsum "
        "subscripts and keywords / matrix flavour / norm ord, axis, keepdims). Complete part: tensordot of a (3,2) with a "
        "(2,3) array over every chunking of both operands for axes=1 and axes=([0,1],[1,0]); every row chunking of a (6,2) "
        "matrix and every column chunking of a (2,6) matrix under qr and svd. Random part: tensordot/dot/vdot/matmul/outer/"
        "einsum/inner with 1-4 operands of 0-4 dimensions with lengths 0-5 (one axis 6-12 in a seventh of the cases); "
        "qr/svd of matrices up to 80x3 (tall), 8x24 (fat); svd_compressed up to 12x12 on any chunk grid; norm of 1-d to "
        "4-d arrays; cholesky. non-trivial = some operand axis split into >= 2 chunks; distinct = distinct (function, "
        "shapes, dtypes, chunks, spec, keywords).")
ASSUMPTIONS = ["NumPy 2.x defines the expected tensor products, norms and singular values",
               "sync scheduler (threads for a tenth)",
               "floating tolerance: 8*eps*n reassociation bound for products and norms, 64*eps*||A||_F for decompositions",
               "svd_compressed: the tolerance is widened by the condition number of the re-drawn Gaussian test matrix"]
BUDGET = {"quick": 200, "thorough": 800}
FLOORS = {"quick": {"evaluations": 2000, "distinct_nontrivial": 1700, "counters": {}, "sets": {"einsum_specs": 280},
                    "max_skipped_fraction": 0.25},
          "thorough": {"evaluations": 30000, "distinct_nontrivial": 24000, "counters": {}, "sets": {"einsum_specs": 2400},
                       "max_skipped_fraction": 0.25}}
# counters: ~45 % of the smallest count of the five quick seeds (0 1 2 7 12345) on the unchanged tree; thorough = quick floor x 14
# (the random stream is 15.7 times longer).  A run in which a family never executed is INCONCLUSIVE.
_QF = {
    "coerce_signs_checked": 285, "compared": 1830, "compared_cholesky": 8, "compared_dot": 81, "compared_einsum": 303,
    "compared_matmul": 151, "compared_norm": 154, "compared_outer": 61, "compared_qr_sfqr": 49,
    "compared_qr_tsqr": 197, "compared_svd_compressed": 94, "compared_svd_single": 15, "compared_svd_tsqr": 186,
    "compared_svd_tsqr-of-transpose": 81, "compared_tensordot": 284, "compared_vdot": 59, "complex_matrix": 56,
    "contracted_axis_3_blocks": 370, "contracted_axis_5_blocks": 112, "dot_0d_operand": 12, "dot_method": 19,
    "einsum_dtype_keyword": 71, "einsum_dtype_keyword_changes_dtype": 57, "einsum_ellipsis": 82,
    "einsum_explicit_path": 42, "einsum_four_operands": 36, "einsum_named_broadcast": 8, "einsum_numpy_operand": 36,
    "einsum_optimize": 174, "einsum_repeated_index": 143, "einsum_spaces": 31, "einsum_split_every_dict": 40,
    "einsum_sublist_format": 63, "einsum_uppercase": 19, "entry_np": 89, "entry_sfqr": 15, "entry_tsqr": 20,
    "entry_tsqr_svd": 11, "form_np_func": 80, "form_np_left": 82, "form_np_right": 86, "integer_matrix": 28,
    "norm_3d_or_4d": 53, "norm_axis_pair_reversed": 23, "norm_flattened": 12, "norm_keepdims": 65, "norm_matrix": 67,
    "norm_negative_axis": 73, "norm_ord_-1": 11, "norm_ord_-2": 9, "norm_ord_-3": 5, "norm_ord_-inf": 16,
    "norm_ord_0": 7, "norm_ord_0.5": 7, "norm_ord_1": 13, "norm_ord_2": 10, "norm_ord_3": 3, "norm_ord_None": 31,
    "norm_ord_fro": 13, "norm_ord_inf": 12, "norm_ord_nuc": 6, "norm_through_svd": 12, "norm_vector": 90,
    "outer_0d_operand": 17, "rank_deficient_or_zero": 226, "sfqr_zero_width_blocks": 9,
    "shape_contradicts_chunking": 55, "siblings_built": 956, "siblings_computed_together": 135,
    "siblings_with_different_values": 300, "square_sfqr": 15, "square_tsqr": 40, "square_tsqr-of-transpose": 9,
    "svd_full_matrices": 6, "svdc_accuracy_checked": 90, "svdc_compute_flag": 9, "svdc_iterator_QR": 30,
    "svdc_power_iterations": 47, "svdc_truncated": 58, "svdc_two_dimensional_grid": 51, "tensordot_axes_as_list": 40,
    "tensordot_axes_default": 15, "tensordot_negative_int_pair": 8, "tensordot_negative_left_axis": 36,
    "tensordot_three_axes": 10, "tsqr_recursive": 130, "tsqr_recursive_short_block_not_last_of_group": 46,
    "tsqr_recursive_two_levels": 48, "tsqr_short_blocks": 326, "tsqr_zero_height_blocks": 77,
    "tsqr_zero_height_blocks_recursive": 29, "unknown_chunks": 66, "unknown_chunks_short_blocks": 40,
    "vdot_complex_left": 23, "vdot_shapes_differ": 45, "zero_length_axis": 61,
}
FLOORS["quick"]["counters"].update(_QF)
FLOORS["thorough"]["counters"].update({k: v * 14 for k, v in _QF.items()})
EXHAUSTIVE_SPACE = ("all chunkings of (3,2)x(2,3) under tensordot axes=1 and axes=([0,1],[1,0]); all 32 row chunkings of a "
                    "(6,2) matrix and all 32 column chunkings of a (2,6) matrix under qr and svd")
CLAIM = ("Every generated tensor product and norm was computed by the real dask.array and compared with NumPy (shape, dtype, "
         "values within the reassociation tolerance); every generated qr/svd/svd_compressed/one-block cholesky was computed "
         "by the real dask.array.linalg and its factors checked algebraically (orthonormality, triangularity, "
         "reconstruction, singular values vs NumPy). held = no mismatch and no dask exception inside the domain on the "
         "executions observed.")
LEVEL_NOTE = ("NumPy is the reference; lu/solve/solve_triangular/inv/lstsq and cholesky of more than one block need scipy, "
              "which is absent: they are called and counted as environment-limited, not checked; svd_compressed only where "
              "it is exact (min(m,n) <= 20); da.inner does not exist in the pinned tree")
TECHNIQUE = "runtime monitoring: NumPy differential for tensor products and norms, algebraic factor oracle for qr/svd"
PENDING = {
    "einsum:repeated-index&axes-chunked-differently:ValueError":
        "einsum with an index repeated inside one operand ('ii', 'kk->k') raises unless both axes are chunked identically",
    "tensordot:int-narrower-than-64-bit:dtype": "int32 x int32 tensordot returns int64 (NumPy: int32): the blockwise product is summed with the platform integer",
    "dot:int-narrower-than-64-bit:dtype": "same mechanism through dot -> tensordot",
    "matmul:int-narrower-than-64-bit:dtype": "int32 @ int32 returns int64 (NumPy: int32): _sum_wo_cat derives the dtype from a sum",
    "einsum:int-narrower-than-64-bit:dtype": "int32 einsum with a contraction returns int64 (NumPy: int32), also with an explicit dtype='int32'",
    "tensordot:bool-operands:dtype": "bool x bool tensordot returns the int64 count of True products (NumPy: bool, logical)",
    "dot:bool-operands:dtype": "same through dot",
    "matmul:bool-operands:dtype": "bool @ bool returns int64 counts when the contracted axis has several blocks",
    "einsum:bool-operands:dtype": "bool einsum with a contraction returns int64 counts",
    "dot:0-d-operand:IndexError@array/routines.py:tensordot": "da.dot with a 0-d operand raises (NumPy multiplies)",
    "norm:integer-or-bool-input:dtype": "norm of an integer / bool array is computed in the integer dtype (NumPy converts to float first)",
    "norm:integer-or-bool-input:TypeError": "same mechanism: a negative ord raises for integer input",
    "norm:ndim>2&axis-None&ord-None:ValueError": "norm(x) of a 3-d array with default arguments raises (NumPy: 2-norm of x.ravel())",
    "qr:sfqr&complex:QR!=A": "sfqr of a complex matrix with several column blocks multiplies by Q.T instead of Q^H",
}

TD = ["float64"] * 4 + ["float32"] * 2 + ["int64"] * 2 + ["int32"] * 2 + ["complex128"] * 2 + ["complex64", "uint8", "bool"]
VD = ["float64", "float64", "float32", "complex128", "complex128", "complex64", "int64"]
ND = ["float64"] * 5 + ["float32"] * 2 + ["complex128"] * 2 + ["complex64", "int64", "bool"]
MD = ["float64", "float64", "float64", "float32"]
MKINDS = ["normal", "normal", "normal", "rankdef", "rankdef", "zero", "scaled", "intvalued"]
SCIPY_FNS = ["lu", "solve", "solve-pos", "inv", "solve_triangular", "lstsq", "cholesky-blocks"]


# ---------------------------------------------------------------------------------------------
# case stream

def _jl(chunks):
    return [list(c) for c in chunks]


def cases(tier, seed):
    rng = random.Random(seed * 104729 + 31)
    # complete sub-spaces
    for c1 in A.all_chunkings((3, 2)):
        for c2 in A.all_chunkings((2, 3)):
            for axes in (1, [[0, 1], [1, 0]]):
                yield {"space": "exhaustive", "kind": "tensordot", "s": [[3, 2], [2, 3]], "c": [_jl(c1), _jl(c2)],
                       "d": ["int64", "float64"], "axes": axes, "seed": 5}
    for comp in A.compositions(6):
        for fn in ("qr", "svd"):
            yield {"space": "exhaustive", "kind": fn, "m": 6, "n": 2, "c": [list(comp), [2]], "mk": "normal",
                   "dtype": "float64", "seed": 11, "flavour": "tall"}
            yield {"space": "exhaustive", "kind": fn, "m": 2, "n": 6, "c": [[2], list(comp)], "mk": "normal",
                   "dtype": "float64", "seed": 12, "flavour": "fat"}
    n = 4200 if tier == "quick" else 66000
    kinds = (["tensordot"] * 12 + ["dot"] * 5 + ["vdot"] * 3 + ["matmul"] * 8 + ["outer"] * 3 + ["einsum"] * 16 + ["qr"] * 14
             + ["svd"] * 14 + ["svdc"] * 5 + ["norm"] * 9 + ["cholesky"])
    for i in range(n):
        kind = rng.choice(kinds)
        u = rng.random()
        if u < 0.008:
            kind = "inner"
        elif u < 0.014:
            kind = "scipy"
        d = {"kind": kind, "seed": rng.randrange(2 ** 31), "threads": rng.random() < 0.1}
        if kind in ("qr", "svd"):
            d.update(_gen_matrix(rng, kind))
        elif kind == "tensordot":
            d.update(_gen_tensordot(rng))
        elif kind in ("dot", "inner"):
            d.update(_gen_dot(rng, kind))
        elif kind == "vdot":
            d.update(_gen_vdot(rng))
        elif kind == "matmul":
            d.update(_gen_matmul(rng))
        elif kind == "outer":
            sa = [rng.choice((0, 1, 2, 3, 4, 5, 5)) for _ in range(rng.choice((0, 1, 1, 1, 2, 3)))]
            sb = [rng.choice((0, 1, 2, 3, 4, 5, 5)) for _ in range(rng.choice((0, 1, 1, 1, 2, 3)))]
            d.update(_ops(rng, [sa, sb]))
            d["form"] = rng.choice(("func", "func", "func", "np_func", "np_left", "np_right"))
        elif kind == "einsum":
            d.update(_gen_einsum(rng))
        elif kind == "svdc":
            d.update(_gen_svdc(rng))
        elif kind == "norm":
            d.update(_gen_norm(rng))
        elif kind == "cholesky":
            nb = rng.choice((1, 1, 1, 1, 2, 3))
            c = rng.randint(1, 6 if nb == 1 else 2)
            d.update({"n": nb * c, "c": [c] * nb, "dtype": rng.choice(("float64", "float64", "float32", "complex128")),
                      "lower": rng.random() < 0.5})
        elif kind == "scipy":
            d.update({"fn": rng.choice(SCIPY_FNS), "lower": rng.random() < 0.5, "bnd": rng.choice((1, 2))})
        yield d


def _many_blocks(rng, n):
    """a chunking of a long axis into pieces of 1-3 elements (>= 5 blocks for n >= 13, usually for n >= 8)"""
    out, rest = [], n
    while rest > 0:
        p = min(rest, rng.choice((1, 1, 2, 2, 3)))
        out.append(p)
        rest -= p
    return tuple(out)


def _ops(rng, shapes, long_axes=(), pool=TD):
    """long_axes: (operand, axis) pairs whose chunking is forced to many small blocks"""
    dts = [rng.choice(pool) for _ in shapes]
    if rng.random() < 0.5:
        dts = [dts[0]] * len(shapes)
    cs = [list(A.rand_chunks(rng, s)) for s in shapes]
    for (o, ax) in long_axes:
        if rng.random() < 0.8:
            cs[o][ax] = _many_blocks(rng, shapes[o][ax])
    return {"s": [list(s) for s in shapes], "c": [_jl(c) for c in cs], "d": dts}


def _gen_tensordot(rng):
    na, nb = rng.randint(1, 4), rng.randint(1, 4 if rng.random() < 0.3 else 3)
    k = rng.randint(0, min(na, nb, 3))
    sa = [rng.randint(1, 5) for _ in range(na)]
    sb = [rng.randint(1, 5) for _ in range(nb)]
    form = rng.choice(("int", "default", "lists", "lists", "lists-neg", "lists-neg", "ints", "ints-neg"))
    if form == "default":
        if min(na, nb) >= 2:
            k = 2
        else:
            form = "int"
    if form in ("int", "default") or k == 0:
        la, lb = list(range(na - k, na)), list(range(k))
    else:
        la = rng.sample(range(na), k)
        lb = rng.sample(range(nb), k)
    for x, y in zip(la, lb):
        sb[y] = sa[x]
    u = rng.random()
    long_axes = []
    if u < 0.15 and k >= 1:
        j = rng.randrange(k)
        sa[la[j]] = sb[lb[j]] = rng.randint(6, 12)
        long_axes = [(0, la[j]), (1, lb[j])]
    elif u < 0.22:
        if rng.random() < 0.5 and k >= 1:
            j = rng.randrange(k)
            sa[la[j]] = sb[lb[j]] = 0
        else:
            free_a = [x for x in range(na) if x not in la]
            free_b = [y for y in range(nb) if y not in lb]
            if free_a and (not free_b or rng.random() < 0.5):
                sa[rng.choice(free_a)] = 0
            elif free_b:
                sb[rng.choice(free_b)] = 0
    if form == "default":
        axes = None
    elif form == "int" or k == 0:
        axes = k
    else:
        if form in ("lists-neg", "ints-neg"):
            la = [x - na if rng.random() < 0.6 else x for x in la]
            lb = [y - nb if rng.random() < 0.6 else y for y in lb]
        if form in ("ints", "ints-neg") and k == 1:
            axes = [la[0], lb[0]]
        else:
            axes = [la, lb]
    d = _ops(rng, [sa, sb], long_axes)
    d["axes"] = axes
    d["cont"] = rng.choice(("tuple", "tuple", "list", "mixed"))
    d["form"] = rng.choice(("func",) * 7 + ("np_func", "np_left", "np_right"))
    return d


def _gen_dot(rng, kind):
    na = rng.choice((0, 1, 1, 1, 2, 2, 2, 2, 2, 3, 3, 3)) if kind == "dot" else rng.randint(1, 3)
    nb = rng.choice((0, 1, 1, 1, 2, 2, 2, 2, 2, 3, 3, 3)) if kind == "dot" else rng.randint(1, 3)
    k = rng.randint(1, 5)
    u = rng.random()
    if u < 0.15:
        k = rng.randint(6, 12)
    elif u < 0.2:
        k = 0
    sa = ([rng.randint(1, 4) for _ in range(na - 1)] + [k]) if na else []
    sb = [rng.randint(1, 4) for _ in range(nb)]
    pb = None
    if nb:
        pb = nb - 1 if (nb == 1 or kind == "inner") else nb - 2
        sb[pb] = k
    long_axes = [(0, na - 1), (1, pb)] if (k >= 6 and na and nb) else []
    d = _ops(rng, [sa, sb], long_axes)
    d["form"] = rng.choice(("func", "func", "func", "method", "method", "np_func", "np_left", "np_right"))
    return d


def _factor(rng, n):
    """a random shape with n elements"""
    if n == 0:
        return rng.choice(([0], [0, 2], [3, 0]))
    shp, rest = [], n
    for _ in range(rng.choice((0, 0, 1, 1, 2))):
        divs = [q for q in range(1, rest + 1) if rest % q == 0]
        q = rng.choice(divs)
        shp.append(q)
        rest //= q
    shp.append(rest)
    rng.shuffle(shp)
    return shp


def _gen_vdot(rng):
    n = rng.choice((0, 1, 2, 3, 4, 5, 6, 6, 8, 8, 9, 10, 12, 12, 16, 18, 24))
    sa, sb = _factor(rng, n), _factor(rng, n)
    long_axes = [(o, ax) for o, s in enumerate((sa, sb)) for ax, q in enumerate(s) if q >= 6]
    d = _ops(rng, [sa, sb], long_axes, pool=VD)
    d["form"] = rng.choice(("func", "func", "func", "np_func", "np_left", "np_right"))
    return d


def _gen_matmul(rng):
    na, nb = rng.randint(1, 4), rng.randint(1, 4)
    k = rng.randint(1, 5)
    u = rng.random()
    if u < 0.15:
        k = rng.randint(6, 12)
    elif u < 0.19:
        k = 0
    batch = [rng.randint(1, 3) for _ in range(2)]
    sa = ([rng.choice((b, 1)) for b in batch][-(na - 2):] if na > 2 else []) + ([rng.randint(1, 4)] if na > 1 else []) + [k]
    sb = ([rng.choice((b, 1)) for b in batch][-(nb - 2):] if nb > 2 else []) + [k] + ([rng.randint(1, 4)] if nb > 1 else [])
    if 0.19 <= u < 0.22 and na > 1:
        sa[-2] = 0
    long_axes = [(0, na - 1), (1, 0 if nb == 1 else nb - 2)] if k >= 6 else []
    d = _ops(rng, [sa, sb], long_axes)
    d["form"] = rng.choice(("op", "op", "func", "np_func", "np_left", "np_right"))
    return d


def _gen_einsum(rng):
    letters = "ijkl"
    size = {ch: rng.randint(1, 4) for ch in letters}
    longl = None
    if rng.random() < 0.15:
        longl = rng.choice(letters[:3])
        size[longl] = rng.randint(6, 10)
        for ch in letters:
            if ch != longl:
                size[ch] = rng.randint(1, 3)
    nops = rng.choice((1, 2, 2, 2, 2, 3, 3, 4))
    use_ell = rng.random() < 0.3
    ell_shape = [rng.randint(1, 3) for _ in range(rng.randint(1, 2))] if use_ell else []
    bcast = rng.random() < 0.12            # a named index of length 1 in one operand against length n elsewhere
    subs, shapes, long_axes = [], [], []
    for o in range(nops):
        nidx = rng.choice((0, 1, 1, 2, 2, 2, 3))
        idx = [rng.choice(letters[:3] if rng.random() < 0.8 else letters) for _ in range(nidx)]
        sub = "".join(idx)
        shp = [size[c] for c in idx]
        if bcast and idx and o > 0 and rng.random() < 0.6:
            shp[rng.randrange(len(idx))] = 1
        pos = 0
        es = []
        if use_ell and rng.random() < 0.7:
            ne = rng.randint(0, len(ell_shape))
            es = [e if rng.random() < 0.75 else 1 for e in ell_shape[len(ell_shape) - ne:]]
            pos = rng.choice((0, 0, len(idx), rng.randint(0, len(idx))))
            sub = sub[:pos] + "..." + sub[pos:]
            shp = shp[:pos] + es + shp[pos:]
        for j, c in enumerate(idx):
            if c == longl:
                long_axes.append((o, j if j < pos or not es else j + len(es)))
        subs.append(sub)
        shapes.append(shp)
    spec = ",".join(subs)
    if rng.random() < 0.6:
        used = sorted(set(c for c in spec if c in letters))
        out = [c for c in used if rng.random() < 0.5]
        rng.shuffle(out)
        out = "".join(out)
        if "..." in spec and rng.random() < 0.9:
            pos = rng.choice((0, 0, len(out)))
            out = out[:pos] + "..." + out[pos:]
        spec += "->" + out
    fmt = rng.choice(("str",) * 6 + ("spaces", "list", "list"))
    if fmt != "list" and rng.random() < 0.12:      # upper-case letters sort before lower-case ones in an implicit output
        up = {c: c.upper() for c in letters if rng.random() < 0.5}
        spec = "".join(up.get(c, c) for c in spec)
    long_axes = [(o, ax) for (o, ax) in long_axes if ax < len(shapes[o]) and shapes[o][ax] >= 6]
    d = _ops(rng, shapes, long_axes)
    d["spec"] = spec
    d["fmt"] = fmt
    d["optimize"] = rng.choice((False, False, False, True, "greedy", "optimal", "path"))
    d["split_every"] = rng.choice((None, None, None, 2, 2, 3, "dict"))
    d["dtype_kw"] = rng.random() < 0.22            # resolved against the operand dtypes in run_case
    d["dtype_pick"] = rng.randrange(8)
    d["np_operand"] = rng.randrange(nops) if rng.random() < 0.1 else None
    return d


def _zeros_into(rng, blocks, p, first_ok=True):
    """insert one or two blocks of length 0 at random positions with probability p"""
    blocks = list(blocks)
    if rng.random() < p:
        for _ in range(rng.choice((1, 1, 2))):
            blocks.insert(rng.randint(0 if first_ok else 1, len(blocks)), 0)
        return blocks, True
    return blocks, False


def _gen_matrix(rng, kind):
    flavour = rng.choice(("tall",) * 4 + ("tall-many",) * 3 + ("tall-deep", "fat", "fat", "fat-tall", "single", "tall-wide",
                                                               "square", "square", "grid"))
    if flavour == "tall":
        n = rng.randint(1, 6)
        rows = [rng.randint(1, 7) for _ in range(rng.randint(2, 5))]
        c = [rows, [n]]
    elif flavour == "tall-many":          # many row blocks, few columns: tsqr may recurse
        n = rng.randint(1, 3)
        big = rng.randint(2 * n, 2 * n + 4)
        rows = [rng.choice((big, big, rng.randint(1, big))) for _ in range(rng.randint(3, 8))]
        c = [rows, [n]]
    elif flavour == "tall-deep":          # enough blocks for two or more levels of recursion
        n = rng.randint(1, 2)
        big = rng.randint(2 * n, 2 * n + 2)
        rows = [rng.choice((big, big, big, rng.randint(1, big))) for _ in range(rng.randint(9, 20))]
        c = [rows, [n]]
    elif flavour == "tall-wide":          # one column block, several row blocks, but fewer rows than columns overall
        rows = [rng.randint(1, 3) for _ in range(rng.randint(2, 3))]
        n = sum(rows) + rng.randint(1, 4)
        c = [rows, [n]]
    elif flavour == "fat":
        m = rng.randint(1, 6)
        cols = [rng.randint(1, 7) for _ in range(rng.randint(2, 5))]
        if rng.random() < 0.7:
            cols[0] = max(cols[0], m)     # sfqr precondition: first column block at least as wide as the matrix is tall
        c = [[m], cols]
    elif flavour == "fat-tall":           # one row block, several column blocks, but more rows than columns overall
        cols = [rng.randint(1, 3) for _ in range(rng.randint(2, 3))]
        m = sum(cols) + rng.randint(1, 4)
        c = [[m], cols]
    elif flavour == "square":
        q = rng.randint(2, 8)
        parts = list(A.rand_comp(rng, q, flavour=rng.choice(("two", "irregular", "regular", "ones"))))
        c = [parts, [q]] if rng.random() < 0.6 else [[q], parts]
    elif flavour == "single":
        c = [[rng.randint(1, 8)], [rng.randint(1, 8)]]
    else:
        c = [[rng.randint(1, 4) for _ in range(2)], [rng.randint(1, 4) for _ in range(2)]]
    zero = False
    if flavour in ("tall", "tall-many", "tall-deep", "tall-wide") or (flavour == "square" and len(c[1]) == 1):
        c[0], zero = _zeros_into(rng, c[0], 0.2)
    elif flavour in ("fat", "fat-tall") or flavour == "square":
        c[1], zero = _zeros_into(rng, c[1], 0.15, first_ok=rng.random() < 0.3)
    m, n = sum(c[0]), sum(c[1])
    mk = rng.choice(MKINDS)
    dtype = rng.choice(MD)
    u = rng.random()
    if u < 0.1:
        dtype = "complex128"
    elif u < 0.15:
        mk, dtype = "intvalued", "int64"
    d = {"m": m, "n": n, "c": c, "mk": mk, "dtype": dtype, "flavour": flavour}
    one_col, one_row = len(c[1]) == 1, len(c[0]) == 1
    # rows (columns for the transposed svd path) of unknown height: only where the shape does not contradict the chunking
    if rng.random() < 0.18:
        if one_col and len(c[0]) > 1 and m >= n:
            d["unknown"] = "rows"
        elif kind == "svd" and one_row and len(c[1]) > 1 and n >= m:
            d["unknown"] = "cols"
    u = rng.random()
    if kind == "qr":
        if u < 0.14 and one_col and "unknown" not in d:
            d["entry"] = "tsqr"
        elif u < 0.22 and one_row:
            d["entry"] = "sfqr"
        elif u < 0.32:
            d["entry"] = "np"
    else:
        d["coerce_signs"] = rng.random() < 0.7
        if u < 0.1 and one_col and m >= n and "unknown" not in d:
            d["entry"] = "tsqr_svd"
        elif u < 0.2:
            d["entry"] = "np"
            d["coerce_signs"] = True              # np.linalg.svd has no such keyword
        elif u < 0.23:
            d["full_matrices"] = True
    return d


def _gen_svdc(rng):
    m, n = rng.randint(1, 12), rng.randint(1, 12)
    return {"m": m, "n": n, "c": _jl(A.rand_chunks(rng, (m, n))),
            "mk": rng.choice(("normal", "normal", "normal", "rankdef", "zero", "scaled", "intvalued")), "dtype": rng.choice(MD),
            "k": rng.randint(1, min(m, n)), "iterator": rng.choice(("power", "power", "QR")), "p": rng.choice((0, 0, 1, 2)),
            "n_oversamples": rng.choice((10, 10, 0, 3, 12)), "seed_form": rng.choice(("int", "int", "RandomState")),
            "rs": rng.randrange(1000), "compute": rng.random() < 0.15, "coerce_signs": rng.random() < 0.7}


VEC_ORDS = [None, None, "inf", "-inf", 0, 1, -1, 2, -2, 3, 0.5, -3]
MAT_ORDS = [None, "fro", "fro", "nuc", "inf", "-inf", 1, -1, 2, -2]


def _gen_norm(rng):
    nd = rng.choice((1, 1, 2, 2, 2, 2, 3, 3, 4))
    shape = [rng.randint(1, 5) for _ in range(nd)]
    long_axes = []
    if rng.random() < 0.15:
        ax = rng.randrange(nd)
        shape[ax] = rng.randint(6, 12)
        long_axes = [(0, ax)]
    t = rng.choice(("none", "int", "int", "pair", "pair"))
    if nd == 1 and t == "pair":
        t = "int"
    if t == "none":
        axis = None
        ordv = rng.choice(VEC_ORDS if nd == 1 else MAT_ORDS) if nd <= 2 else None
    elif t == "int":
        axis = rng.randrange(-nd, nd)
        ordv = rng.choice(VEC_ORDS)
    else:
        a0, a1 = rng.sample(range(nd), 2)
        axis = [a0 - nd if rng.random() < 0.4 else a0, a1 - nd if rng.random() < 0.4 else a1]
        ordv = rng.choice(MAT_ORDS if nd == 2 else [o for o in MAT_ORDS if o not in ("nuc", 2, -2)] + ["nuc"])
    d = _ops(rng, [shape], long_axes, pool=ND)
    if nd == 2 and ordv in ("nuc", 2, -2) and rng.random() < 0.8:      # the svd behind these needs a one-dimensional grid
        ax = rng.randrange(2)
        d["c"][0][ax] = [shape[ax]]
    d.update({"ord": ordv, "axis": axis, "keepdims": rng.random() < 0.4, "form": rng.choice(("func", "func", "func", "np_func"))})
    return d


# ---------------------------------------------------------------------------------------------
# data

def _tensor(seed, shape, dtype):
    r = np.random.default_rng(seed)
    dt = np.dtype(dtype)
    if dt.kind == "b":
        return r.integers(0, 2, size=shape).astype(bool)
    if dt.kind == "u":
        return r.integers(0, 4, size=shape).astype(dt)
    if dt.kind == "i":
        return r.integers(-4, 5, size=shape).astype(dt)
    if dt.kind == "c":
        return (r.standard_normal(shape) + 1j * r.standard_normal(shape)).astype(dt)
    return r.standard_normal(shape).astype(dt)


def _matrix(seed, m, n, mk, dtype):
    r = np.random.default_rng(seed)
    if mk == "zero":
        a = np.zeros((m, n))
    elif mk == "rankdef":
        k = max(1, min(m, n) // 2) if min(m, n) > 1 else 1
        rk = int(r.integers(1, k + 1))
        a = r.standard_normal((m, rk)) @ r.standard_normal((rk, n))
        if r.random() < 0.3 and m > 1:
            a[int(r.integers(0, m))] = 0.0          # a zero row as well
    elif mk == "scaled":
        a = r.standard_normal((m, n)) * float(10.0 ** int(r.integers(-6, 7)))
    elif mk == "intvalued":
        a = r.integers(-3, 4, size=(m, n)).astype("float64")
    else:
        a = r.standard_normal((m, n))
    if np.dtype(dtype).kind == "c" and mk != "zero":
        a = a + 1j * np.random.default_rng(seed + 1).standard_normal((m, n)) * (np.abs(a).max() if a.size else 1.0)
    return a.astype(dtype)


# ---------------------------------------------------------------------------------------------

def run_case(case, ctx):
    with warnings.catch_warnings():
        warnings.simplefilter("ignore")
        with np.errstate(all="ignore"):
            kind = case["kind"]
            if kind in ("qr", "svd"):
                _run_decomp(case, ctx)
            elif kind == "svdc":
                _run_svdc(case, ctx)
            elif kind == "norm":
                _run_norm(case, ctx)
            elif kind == "cholesky":
                _run_cholesky(case, ctx)
            elif kind == "scipy":
                _run_scipy(case, ctx)
            else:
                _run_tensor(case, ctx)


def _sched(case):
    return "threads" if case.get("threads") else "sync"


def _max_blocks(cs, pairs):
    """largest number of blocks along any of the given (operand, axis) pairs"""
    out = 0
    for o, ax in pairs:
        if o < len(cs) and -len(cs[o]) <= ax < len(cs[o]):
            out = max(out, len(cs[o][ax]))
    return out


EINSUM_DTYPES = {"float64": [("float32", "same_kind"), ("complex128", None), ("float32", "unsafe")],
                 "float32": [("float64", None), ("complex64", None), ("complex128", "safe")],
                 "int64": [("float64", None), ("int32", "same_kind"), ("int64", None)],
                 "int32": [("int64", None), ("float64", None), ("int32", None)],
                 "uint8": [("int64", None), ("float32", None)],
                 "complex128": [("complex64", "same_kind"), ("complex128", None)],
                 "complex64": [("complex128", None)],
                 "bool": [("int64", None), ("float64", None)]}


def _einsum_terms(spec, xs):
    """number of summed terms per output element (product of the lengths of the contracted labels)"""
    ins, arrow, out = spec.replace(" ", "").partition("->")
    size, ell = {}, []
    for t, x in zip(ins.split(","), xs):
        if "..." in t:
            head, tail = t.split("...")
            ne = max(x.ndim - len(head) - len(tail), 0)
            labels = list(head) + [None] * ne + list(tail)
            es = list(x.shape[len(head):len(head) + ne])
            ell = [max(p, q) for p, q in zip([1] * (len(es) - len(ell)) + ell, es)] if len(es) >= len(ell) else ell
        else:
            labels = list(t)
        for lab, q in zip(labels, x.shape):
            if lab is not None:
                size[lab] = max(size.get(lab, 1), q)
    if arrow:
        outl = set(out.replace("...", ""))
    else:
        flat = ins.replace(",", "").replace("...", "")
        outl = {c for c in flat if flat.count(c) == 1}
    n = 1
    for lab, q in size.items():
        if lab not in outl:
            n *= max(q, 1)
    if arrow and "..." not in out:
        n *= int(np.prod(ell)) if ell else 1
    return max(n, 1)


def _einsum_sublists(spec):
    """('ij...,jk->...k') -> ([[8, 9, Ellipsis], [9, 10]], [Ellipsis, 10] | None)   (integers 0-25: lower-case letters)"""
    ins, arrow, out = spec.partition("->")

    def conv(t):
        res, i = [], 0
        while i < len(t):
            if t.startswith("...", i):
                res.append(Ellipsis)
                i += 3
            else:
                res.append(ord(t[i]) - ord("a"))
                i += 1
        return res
    return [conv(t) for t in ins.split(",")], (conv(out) if arrow else None)


def _run_tensor(case, ctx):
    import dask.array as da

    kind = case["kind"]
    form = case.get("form", "func")
    xs = [_tensor(case["seed"] + i, tuple(s), d) for i, (s, d) in enumerate(zip(case["s"], case["d"]))]
    cs = [A.chunks_of_desc(c) for c in case["c"]]
    dxs = [da.from_array(x, chunks=c) for x, c in zip(xs, cs)]
    ctx.nontrivial = any(A.has_split(c) for c in cs)
    ctx.sig = {k: v for k, v in case.items() if k not in ("seed", "threads")}
    ctx.op(kind)
    flags = []
    n_contract = 1
    contracted = []                     # (operand, axis) pairs that are summed over
    ops = list(dxs)                     # what the dask call receives
    if form == "np_left":
        ops[0] = xs[0]
    elif form == "np_right":
        ops[-1] = xs[-1]
    if form in ("np_left", "np_right", "np_func"):
        ctx.count("form_" + form)
    opt = kw = None
    if kind == "tensordot":
        axes = case["axes"]
        cont = case.get("cont", "tuple")

        def conv(v, which):
            if not isinstance(v, list):
                return v
            as_list = cont == "list" or (cont == "mixed" and which == 0)
            return list(v) if as_list else tuple(v)
        if axes is None:
            akw = {}
            ctx.count("tensordot_axes_default")
            la, lb = [xs[0].ndim - 2, xs[0].ndim - 1], [0, 1]
        elif isinstance(axes, int):
            akw = {"axes": axes}
            la, lb = list(range(xs[0].ndim - axes, xs[0].ndim)), list(range(axes))
        else:
            akw = {"axes": (conv(axes[0], 0), conv(axes[1], 1))}
            la = axes[0] if isinstance(axes[0], list) else [axes[0]]
            lb = axes[1] if isinstance(axes[1], list) else [axes[1]]
            if isinstance(axes[0], list) and cont in ("list", "mixed"):
                ctx.count("tensordot_axes_as_list")
            if not isinstance(axes[0], list) and (axes[0] < 0 or axes[1] < 0):
                ctx.count("tensordot_negative_int_pair")
            if any(v < 0 for v in la):
                flags.append("negative-left-axis")
                ctx.count("tensordot_negative_left_axis")
            elif any(v < 0 for v in lb):
                flags.append("negative-right-axis")
        if len(la) >= 3:
            ctx.count("tensordot_three_axes")
        n_contract = int(np.prod([xs[0].shape[v] for v in la])) if la else 1
        contracted = [(0, v) for v in la] + [(1, v) for v in lb]
        f_np = lambda a, b: np.tensordot(a, b, **akw)       # noqa: E731
        f_da = (lambda a, b: np.tensordot(a, b, **akw)) if form == "np_func" else (lambda a, b: da.tensordot(a, b, **akw))
    elif kind == "dot":
        if xs[0].ndim == 0 or xs[1].ndim == 0:
            flags.append("0-d-operand")
            ctx.count("dot_0d_operand")
        else:
            n_contract = xs[0].shape[-1]
            contracted = [(0, xs[0].ndim - 1), (1, 0 if xs[1].ndim == 1 else xs[1].ndim - 2)]
            if xs[1].ndim == 1:
                flags.append("1-d-right")
        f_np = np.dot
        if form == "method":
            ctx.count("dot_method")
            f_da = lambda a, b: a.dot(b)                     # noqa: E731
        else:
            f_da = np.dot if form == "np_func" else da.dot
    elif kind == "vdot":
        n_contract = xs[0].size
        if xs[0].dtype.kind == "c":
            flags.append("complex-left")
            ctx.count("vdot_complex_left")
        if xs[0].shape != xs[1].shape:
            ctx.count("vdot_shapes_differ")
        contracted = [(o, ax) for o in (0, 1) for ax in range(xs[o].ndim)]
        f_np = np.vdot
        f_da = np.vdot if form == "np_func" else da.vdot
    elif kind == "inner":
        n_contract = xs[0].shape[-1]
        f_np = np.inner
        f_da = getattr(da, "inner", None)
        if f_da is None:
            ctx.unsupported("dask.array has no `inner` in this tree (np.inner on dask arrays falls back to NumPy)")
            return
    elif kind == "matmul":
        n_contract = xs[0].shape[-1]
        contracted = [(0, xs[0].ndim - 1), (1, 0 if xs[1].ndim == 1 else xs[1].ndim - 2)]
        if xs[0].ndim == 1:
            flags.append("1-d-left")
        if xs[1].ndim == 1:
            flags.append("1-d-right")
        if (xs[0].ndim > 2 or xs[1].ndim > 2) and xs[0].shape[:-2] != xs[1].shape[:-2]:
            flags.append("batch-broadcast")
        f_np = np.matmul
        if form == "func":
            f_da = da.matmul
        elif form == "np_func":
            f_da = np.matmul
        else:                                                # "op", "np_left" (ndarray @ dask), "np_right"
            f_da = lambda a, b: a @ b                       # noqa: E731
    elif kind == "outer":
        if xs[0].ndim > 1 or xs[1].ndim > 1:
            flags.append("n-d-operand")
        if xs[0].ndim == 0 or xs[1].ndim == 0:
            ctx.count("outer_0d_operand")
        f_np = np.outer
        f_da = np.outer if form == "np_func" else da.outer
    elif kind == "einsum":
        spec, opt = case["spec"], case["optimize"]
        fmt = case.get("fmt", "str")
        ins = spec.split("->")[0].split(",")
        rep = _repeated(ins, xs, cs)
        if rep:
            flags.append(rep)
            ctx.count("einsum_repeated_index")
        if "..." in spec:
            if not rep.endswith("differently"):
                flags.append("ellipsis")
            ctx.count("einsum_ellipsis")
        if opt is not False:
            ctx.count("einsum_optimize")
        n_contract = _einsum_terms(spec, xs) + len(xs)
        kw, kwnp = {}, {}
        se = case.get("split_every")
        if se == "dict":
            kw["split_every"] = {i: 2 + i % 2 for i in range(8)}
            ctx.count("einsum_split_every_dict")
        elif se is not None:
            kw["split_every"] = se
        if case.get("dtype_kw"):
            try:
                rt = str(np.result_type(*[x.dtype for x in xs]))
            except Exception:  # noqa: BLE001
                rt = None
            cands = EINSUM_DTYPES.get(rt)
            if cands:
                dtn, casting = cands[case.get("dtype_pick", 0) % len(cands)]
                kwnp["dtype"] = dtn
                if casting:
                    kwnp["casting"] = casting
                flags.append("dtype-keyword")
                ctx.count("einsum_dtype_keyword")
                if np.dtype(dtn) != np.dtype(rt):
                    ctx.count("einsum_dtype_keyword_changes_dtype")
        if opt == "path":
            try:
                opt = np.einsum_path(spec, *xs, optimize="greedy")[0]
            except Exception as ex:  # noqa: BLE001
                ctx.reject("numpy einsum_path: %s: %s" % (type(ex).__name__, ex))
                return
            ctx.count("einsum_explicit_path")
        if any(c.isupper() for c in spec):
            ctx.count("einsum_uppercase")
        if _named_broadcast(ins, xs):
            ctx.count("einsum_named_broadcast")
        if len(xs) >= 4:
            ctx.count("einsum_four_operands")
        npo = case.get("np_operand")
        if npo is not None:
            ops[npo] = xs[npo]
            ctx.count("einsum_numpy_operand")
        if fmt == "list":
            subl, outl = _einsum_sublists(spec)
            ctx.count("einsum_sublist_format")

            def inter(arrs):
                a = [q for pair in zip(arrs, subl) for q in pair]
                return a + ([outl] if outl is not None else [])
            f_np = lambda *a: np.einsum(*inter(a), optimize=opt, **kwnp)            # noqa: E731
            f_np_plain = lambda *a: np.einsum(*inter(a), optimize=False, **kwnp)     # noqa: E731
            f_da = lambda *a: da.einsum(*inter(a), optimize=opt, **kwnp, **kw)      # noqa: E731
        else:
            sp = spec.replace(",", " , ").replace("->", " -> ") if fmt == "spaces" else spec
            if fmt == "spaces":
                ctx.count("einsum_spaces")
            f_np = lambda *a: np.einsum(sp, *a, optimize=opt, **kwnp)               # noqa: E731
            f_np_plain = lambda *a: np.einsum(sp, *a, optimize=False, **kwnp)        # noqa: E731
            f_da = lambda *a: da.einsum(sp, *a, optimize=opt, **kwnp, **kw)         # noqa: E731
        ctx.distinct("einsum_specs", spec)
        # contracted axes: every axis whose label is summed away
        _, arrow, outs = spec.partition("->")
        flat = "".join(ins).replace("...", "")
        keep = set(outs.replace("...", "")) if arrow else {c for c in flat if flat.count(c) == 1}
        for o, (t, x) in enumerate(zip(ins, xs)):
            if "..." in t:
                head, tail = t.split("...")
                pos = list(range(len(head))) + list(range(x.ndim - len(tail), x.ndim))
                t = head + tail
            else:
                pos = list(range(len(t)))
            contracted += [(o, p) for p, ch in zip(pos, t) if ch not in keep]
    else:
        raise AssertionError(kind)
    if any(0 in x.shape for x in xs):
        ctx.count("zero_length_axis")
    nblk = _max_blocks(cs, contracted)
    if nblk >= 3:
        ctx.count("contracted_axis_3_blocks")
    if nblk >= 5:
        ctx.count("contracted_axis_5_blocks")
    label = "%s:%s" % (kind, "&".join(flags) or "-")
    try:
        e = f_np(*xs)
        if kind == "einsum" and opt is not False and any(x.dtype.kind == "b" for x in xs):
            # Calibration: with a bool operand NumPy's optimized einsum reduces that operand alone in bool first
            # (logical any) - its result differs from its own optimize=False result: no reference
            e0 = f_np_plain(*xs)
            if np.shape(e0) != np.shape(e) or not np.array_equal(np.asarray(e0), np.asarray(e)):
                ctx.count("einsum_numpy_inconsistent_with_itself")
                ctx.reject("numpy: einsum with a bool operand gives different results with and without optimize")
                return
    except Exception as ex:  # noqa: BLE001
        ctx.reject("numpy: %s: %s" % (type(ex).__name__, ex))
        return
    try:
        r = f_da(*ops)
        if not isinstance(r, da.Array):
            ctx.violation(label + ":result-not-a-dask-array", "got %r" % (type(r),))
            return
        rv = r.compute(scheduler=_sched(case))
    except NotImplementedError as ex:
        ctx.unsupported(str(ex))
        return
    except Exception as ex:  # noqa: BLE001
        if "repeated-index&axes-chunked-differently" in flags and isinstance(ex, ValueError):
            # one mechanism (blockwise never aligns two axes of ONE operand), several raise sites
            import traceback
            ctx.violation("einsum:repeated-index&axes-chunked-differently:ValueError", "%s: %s" % (type(ex).__name__, ex),
                          traceback=traceback.format_exc()[-2000:])
            return
        if "0-d-operand" in flags:
            ctx.exception(ex, prefix="dot:0-d-operand")
            return
        ctx.exception(ex, prefix=label)
        return
    ctx.count("compared")
    ctx.count("compared_" + kind)
    ea = np.asarray(e)
    exact = ea.dtype.kind in "iub"
    factor = 8.0
    if kind == "einsum" and ea.dtype.kind in "fc":
        # Calibration: with mixed float32 / wider operands np.einsum itself contracts pairwise in the narrower dtype
        # depending on `optimize` (optimize=True and False differ by eps(float32)); the tolerance follows the
        # least precise floating operand.
        eps_res = float(np.finfo(ea.dtype).eps)
        eps_in = max([float(np.finfo(x.dtype).eps) for x in xs if x.dtype.kind in "fc"] + [eps_res])
        factor = 8.0 * eps_in / eps_res
    scale = float(np.prod([np.max(np.abs(x), initial=1.0) for x in xs])) * max(n_contract, 1)
    m = compare_arrays(rv, e, exact=exact, n=max(n_contract, 1), scale=scale, factor=factor)
    if m and m[0] == "dtype" and np.asarray(rv).dtype.kind in "iu" and (
            (ea.dtype.kind in "iu" and ea.dtype.itemsize < 8) or ea.dtype.kind == "b"):
        # one mechanism per function (the blockwise product is summed with the platform integer), whatever the spec.
        # NumPy wraps around in the narrow dtype / takes the logical product of bools: compare modulo that.
        if ea.dtype.kind == "b":
            ctx.violation("%s:bool-operands:dtype" % kind, m[1])
            rv_cmp = np.asarray(rv) != 0
        else:
            ctx.violation("%s:int-narrower-than-64-bit:dtype" % kind, m[1])
            rv_cmp = np.asarray(rv).astype(ea.dtype)
        m = compare_arrays(rv_cmp, e, exact=exact, n=max(n_contract, 1), scale=scale, factor=factor)
    if m:
        ctx.violation("%s:%s" % (label, m[0]), m[1], result=repr(rv)[:300], expected=repr(e)[:300])
    else:
        m = lazy_meta_mismatch(r, rv)
        if m and m[0] == "lazy-dtype" and kind == "einsum" and "dtype-keyword" in flags and ea.dtype != np.dtype(kwnp["dtype"]):
            # Calibration: np.einsum ignores dtype= when the result is a view of the operand ('j', 'ii->i', 'ij->ji');
            # the computed blocks then have NumPy's dtype, the lazy dtype the requested one
            ctx.count("einsum_numpy_ignores_dtype_keyword")
            m = None
        if m:
            ctx.violation("%s:%s" % (label, m[0]), m[1])
    ctx.sample = {"kind": kind, "spec": case.get("spec", case.get("axes")), "shapes": case["s"], "chunks": case["c"],
                  "result_shape": list(np.shape(rv))}
    # ---- sibling facet: the same operands contracted over OTHER axes / another einsum output must not share keys ----
    if kind == "tensordot":
        ax2 = _sibling_axes(case["axes"], xs[0].ndim)
        if ax2 is not None:
            S.check(ctx, "tensordot", "axes", r, (lambda: da.tensordot(dxs[0], dxs[1], axes=ax2)), va=rv,
                    describe={"axes": repr(ax2)})
    elif kind == "einsum" and case.get("fmt", "str") != "list":
        if "dtype-keyword" in flags and S.pick(case, 2, salt="einsum-sib") == 0:
            other = "complex128" if ea.dtype != np.dtype("complex128") else "complex64"
            kw2 = dict(kwnp, dtype=other, casting="unsafe")
            S.check(ctx, "einsum", "dtype", r, (lambda: da.einsum(case["spec"], *dxs, optimize=opt, **kw2, **kw)), va=rv,
                    describe={"dtype": other})
        else:
            spec2 = _sibling_spec(case["spec"], S.rng_for(case))
            if spec2 is not None:
                S.check(ctx, "einsum", "subscripts", r, (lambda: da.einsum(spec2, *dxs, optimize=case["optimize"] if
                                                                           case["optimize"] != "path" else False,
                                                                           **kwnp, **kw)), va=rv,
                        describe={"spec": spec2})


def _sibling_axes(axes, nda=2):
    """tensordot axes with one contracted pair dropped (always shape-compatible), or None"""
    if axes is None:
        return 1 if nda >= 1 else None
    if isinstance(axes, int):
        return 0 if axes == 1 else None
    la, lb = axes
    if not isinstance(la, list):
        return 0
    if not la:
        return None
    return (tuple(la[:-1]), tuple(lb[:-1]))


def _sibling_spec(spec, srng):
    """the same einsum inputs with ANOTHER explicit output: output letters reversed, or the last one summed away /
    a summed letter kept; None when the spec gives no room (ellipsis in the inputs but not in an explicit output is
    left alone)"""
    ins, _, out = spec.partition("->")
    letters = [c for c in ins if c.isalpha()]
    has_ell = "..." in ins
    if "->" in spec:
        cur = out
    else:
        cur = ("..." if has_ell else "") + "".join(sorted(c for c in set(letters) if letters.count(c) == 1))
    if has_ell and "..." not in cur:
        return None
    core = cur.replace("...", "")
    ell = "..." if "..." in cur else ""
    cands = []
    if len(core) >= 2 and core[::-1] != core:
        cands.append(ell + core[::-1])
    if core:
        cands.append(ell + core[:-1])
    extra = sorted(set(letters) - set(core))
    if extra:
        cands.append(ell + core + extra[0])
    cands = [c for c in cands if c != cur]
    if not cands:
        return None
    return ins + "->" + srng.choice(cands)


def _repeated(ins, xs, cs):
    """'' | 'repeated-index' | 'repeated-index&axes-chunked-differently' for einsum input terms."""
    out = ""
    for t, x, c in zip(ins, xs, cs):
        if "..." in t:
            head, tail = t.split("...")
            pos = list(range(len(head))) + list(range(x.ndim - len(tail), x.ndim))
            t = head + tail
        else:
            pos = list(range(len(t)))
        for ch in set(t):
            axes = [pos[i] for i, q in enumerate(t) if q == ch]
            if len(axes) > 1:
                out = out or "repeated-index"
                if len({tuple(c[a]) for a in axes if a < len(c)}) > 1:
                    return "repeated-index&axes-chunked-differently"
    return out


def _named_broadcast(ins, xs):
    """True when a named index has length 1 in one place and a longer length in another"""
    size = {}
    for t, x in zip(ins, xs):
        if "..." in t:
            head, tail = t.split("...")
            pos = list(range(len(head))) + list(range(x.ndim - len(tail), x.ndim))
            t = head + tail
        else:
            pos = list(range(len(t)))
        for p, ch in zip(pos, t):
            if p < x.ndim:
                size.setdefault(ch, set()).add(x.shape[p])
    return any(len(v) > 1 for v in size.values())


# ---------------------------------------------------------------------------------------------
# decompositions

def _tsqr_levels(rows, cc, max_v=None, depth=0):
    """Mirror of the recursion in dask.array.linalg.tsqr (evidence only, never an oracle): (number of recursive levels,
    True when some level stacks a piece with fewer rows than columns that is not the last piece of its group)."""
    rows = list(rows)
    if not rows or depth > 12:
        return 0, False
    nr, cr_max = len(rows), max(rows)
    if not cr_max:
        return 0, False
    if not ((cr_max if max_v is None else max_v) >= 2 * cc and int(np.ceil(nr * cc / cr_max)) > 1):
        return 0, False
    groups, cur, cur_sz = [], [], 0
    for a_m in rows:
        m_r = min(a_m, cc)
        if cur_sz + m_r > cr_max:
            groups.append(cur)
            cur, cur_sz = [], 0
        cur.append(m_r)
        cur_sz += m_r
    if cur:
        groups.append(cur)
    short_inner = any(m_r < cc for g in groups for m_r in g[:-1])
    lv, s2 = _tsqr_levels([sum(g) for g in groups], cc, cr_max, depth + 1)
    return 1 + lv, short_inner or s2


def tsqr_recurses(chunks):
    return _tsqr_levels(chunks[0], chunks[1][0])[0] > 0


def _maxabs(x):
    x = np.asarray(x)
    return float(np.max(np.abs(x))) if x.size else 0.0


def _eps(dtype):
    dt = np.dtype(dtype)
    return float(np.finfo(dt if dt.kind in "fc" else np.dtype("float64")).eps)


def _wide(a):
    a = np.asarray(a)
    return a.astype("complex128" if a.dtype.kind == "c" else "float64")


def _sign_rows(ctx, bad_fn, v, eps, n):
    """coerce_signs=True: svd_flip makes every row of V sum to a non-negative number (documented normalisation)"""
    ctx.count("coerce_signs_checked")
    rs = np.real(_wide(v).sum(axis=1)) if v.size else np.zeros(0)
    lim = 64.0 * eps * max(n, 1)
    if (rs < -lim).any():
        bad_fn("V-row-sum-negative", "coerce_signs=True but rows of V sum to %s (limit %.3g)" % (rs.tolist(), -lim))


def _run_decomp(case, ctx):
    import dask
    import dask.array as da

    kind, m, n, mk, dtype = case["kind"], case["m"], case["n"], case["mk"], case["dtype"]
    entry = case.get("entry", kind)
    chunks = A.chunks_of_desc(case["c"])
    a = _matrix(case["seed"], m, n, mk, dtype)
    dx = da.from_array(a, chunks=chunks)
    unknown = case.get("unknown")
    if unknown == "rows":
        dx = dx[da.from_array(np.ones(m, dtype=bool), chunks=(chunks[0],))]
    elif unknown == "cols":
        dx = dx[:, da.from_array(np.ones(n, dtype=bool), chunks=(chunks[1],))]
    nbr, nbc = len(chunks[0]), len(chunks[1])
    ctx.nontrivial = A.has_split(chunks)
    ctx.sig = {k: v for k, v in case.items() if k not in ("seed", "threads")}
    ctx.op(kind + ":" + case["flavour"])
    k = min(m, n)
    if entry in ("tsqr", "tsqr_svd"):
        path = "tsqr"
    elif entry == "sfqr":
        path = "sfqr"
    elif nbr > 1 and nbc > 1:
        path = "grid"
    elif nbr > 1:
        path = "tsqr"
    elif kind == "qr":
        path = "sfqr"
    else:
        path = "single" if nbc == 1 else "tsqr-of-transpose"
    flags = [path]
    rec, levels, short_inner = False, 0, False
    if path == "tsqr" and not unknown:
        levels, short_inner = _tsqr_levels(chunks[0], chunks[1][0])
    elif path == "tsqr-of-transpose" and not unknown:
        levels, short_inner = _tsqr_levels(chunks[1], chunks[0][0])
    rec = levels > 0
    if rec:
        flags.append("recursive")
        ctx.count("tsqr_recursive")
        if levels >= 2:
            ctx.count("tsqr_recursive_two_levels")
        if short_inner:
            ctx.count("tsqr_recursive_short_block_not_last_of_group")
    split = chunks[0] if path == "tsqr" else chunks[1] if path == "tsqr-of-transpose" else ()
    width = n if path == "tsqr" else m
    short = bool(split) and any(r < width for r in split)
    if short:
        ctx.count("tsqr_short_blocks")
    if split and any(r == 0 for r in split):
        ctx.count("tsqr_zero_height_blocks")
        if rec:
            ctx.count("tsqr_zero_height_blocks_recursive")
    if path == "sfqr" and any(c == 0 for c in chunks[1]):
        ctx.count("sfqr_zero_width_blocks")
    if (path == "tsqr" and m < n) or (path == "tsqr-of-transpose" and n < m):
        flags.append("shape-contradicts-chunking")
        ctx.count("shape_contradicts_chunking")
    if np.dtype(dtype).kind == "c":
        flags.append("complex")
    if unknown:
        flags.append("unknown-chunks")
        ctx.count("unknown_chunks")
        if short:
            ctx.count("unknown_chunks_short_blocks")
    if m == n and path in ("tsqr", "sfqr", "tsqr-of-transpose"):
        ctx.count("square_" + path)
    if mk in ("zero", "rankdef"):
        ctx.count("rank_deficient_or_zero")
    if np.dtype(dtype).kind == "c":
        ctx.count("complex_matrix")
    elif np.dtype(dtype).kind == "i":
        ctx.count("integer_matrix")
    if entry != kind:
        ctx.count("entry_" + entry)
    label = "%s:%s" % (kind, "&".join(flags))
    eps = _eps(dtype)
    aw = _wide(a)
    norm = float(np.linalg.norm(aw))
    tol = 64.0 * eps * norm
    otol = 64.0 * eps * max(k, 1)
    full = bool(case.get("full_matrices"))

    try:
        if kind == "qr":
            if entry == "tsqr":
                outs = da.linalg.tsqr(dx)
            elif entry == "sfqr":
                outs = da.linalg.sfqr(dx)
            elif entry == "np":
                outs = np.linalg.qr(dx)
            else:
                outs = da.linalg.qr(dx)
        else:
            if entry == "tsqr_svd":
                outs = da.linalg.tsqr(dx, compute_svd=True)
            elif entry == "np":
                outs = np.linalg.svd(dx, full_matrices=False)
            elif full:
                ctx.count("svd_full_matrices")
                outs = da.linalg.svd(dx, coerce_signs=case.get("coerce_signs", True), full_matrices=True)
            else:
                outs = da.linalg.svd(dx, coerce_signs=case.get("coerce_signs", True))
        outs = tuple(outs)
        if not all(isinstance(o, da.Array) for o in outs):
            ctx.violation(label + ":result-not-a-dask-array", "got %r" % ([type(o).__name__ for o in outs],))
            return
        vals = dask.compute(*outs, scheduler=_sched(case))
    except NotImplementedError as ex:
        ctx.unsupported(str(ex).split("\n")[0])
        return
    except ValueError as ex:
        if "Input must have the following properties" in str(ex):
            ctx.count("precondition_refused")
            ctx.reject("dask refuses the chunking: documented sfqr/tsqr precondition")
            return
        ctx.exception(ex, prefix=label)
        return
    except Exception as ex:  # noqa: BLE001
        ctx.exception(ex, prefix=label)
        return
    ctx.count("compared")
    ctx.count("compared_" + kind + "_" + path)

    def bad(symptom, msg, **kw):
        ctx.violation("%s:%s" % (label, symptom), msg, shape=[m, n], chunks=case["c"], matrix=mk, short_blocks=short,
                      entry=entry, dtype=dtype, **kw)

    eye = np.eye(k)
    if kind == "qr":
        q, r = (np.asarray(v) for v in vals)
        if q.shape != (m, k) or r.shape != (k, n):
            bad("shape", "Q %s R %s, expected (%d,%d) and (%d,%d)" % (q.shape, r.shape, m, k, k, n))
            return
        for nm, lazy, v in (("Q", outs[0], q), ("R", outs[1], r)):
            mm = lazy_meta_mismatch(lazy, v)
            if mm and mm[0] != "lazy-dtype":
                bad(mm[0], "%s: %s" % (nm, mm[1]))
        e1 = _maxabs(q.conj().T @ q - eye)
        if not e1 <= otol:
            bad("Q-not-orthonormal", "max|Q^H Q - I| = %.3g > %.3g" % (e1, otol))
        e2 = _maxabs(np.tril(r, -1))
        if not e2 <= tol:
            bad("R-not-upper-triangular", "max|tril(R,-1)| = %.3g > %.3g" % (e2, tol))
        e3 = _maxabs(_wide(q) @ r - aw)
        if not e3 <= tol:
            bad("QR!=A", "max|QR - A| = %.3g > %.3g" % (e3, tol))
        ctx.sample = {"kind": kind, "path": path, "recursive": rec, "shape": [m, n], "chunks": case["c"],
                      "err_orth": e1, "err_recon": e3, "tol": tol}
    else:
        u, s, v = (np.asarray(x) for x in vals)
        if full:
            # documented: full_matrices=True raises NotImplementedError; reduced factors must not be passed off as full ones
            if u.shape != (m, m) or v.shape != (n, n):
                ctx.violation("svd:full_matrices:reduced-factors-returned", "full_matrices=True returned U %s V %s for a "
                              "(%d,%d) matrix instead of raising NotImplementedError" % (u.shape, v.shape, m, n))
            return
        if u.shape != (m, k) or s.shape != (k,) or v.shape != (k, n):
            bad("shape", "U %s s %s V %s, expected (%d,%d) (%d,) (%d,%d)" % (u.shape, s.shape, v.shape, m, k, k, k, n))
            return
        for nm, lazy, val in (("U", outs[0], u), ("s", outs[1], s), ("V", outs[2], v)):
            mm = lazy_meta_mismatch(lazy, val)
            if mm and mm[0] != "lazy-dtype":
                bad(mm[0], "%s: %s" % (nm, mm[1]))
        s_np = np.linalg.svd(aw, compute_uv=False)
        e0 = _maxabs(s.astype("float64") - s_np)
        if not e0 <= tol:
            bad("singular-values", "max|s - s_numpy| = %.3g > %.3g; s=%s numpy=%s" % (e0, tol, s.tolist(), s_np.tolist()))
        if (s < 0).any() or (np.diff(s) > tol).any():
            bad("singular-values-order", "s not non-negative descending: %s" % (s.tolist(),))
        e1 = _maxabs(u.conj().T @ u - eye)
        if not e1 <= otol:
            bad("U-not-orthonormal", "max|U^H U - I| = %.3g > %.3g" % (e1, otol))
        e2 = _maxabs(v @ v.conj().T - eye)
        if not e2 <= otol:
            bad("V-not-orthonormal", "max|V V^H - I| = %.3g > %.3g" % (e2, otol))
        e3 = _maxabs((_wide(u) * s.astype("float64")) @ _wide(v) - aw)
        if not e3 <= tol:
            bad("USV!=A", "max|U diag(s) V - A| = %.3g > %.3g" % (e3, tol))
        if case.get("coerce_signs", True) and entry != "tsqr_svd":
            _sign_rows(ctx, (lambda sy, msg: ctx.violation("svd:coerce_signs:" + sy, msg, shape=[m, n], chunks=case["c"],
                                                           path=path, entry=entry)), v, eps, n)
        ctx.sample = {"kind": kind, "path": path, "recursive": rec, "shape": [m, n], "chunks": case["c"],
                      "err_s": e0, "err_recon": e3, "tol": tol}
        # ---- sibling facet: the same matrix with the other coerce_signs setting (s may legitimately be shared) -------
        if entry != "tsqr_svd":
            cs2 = not case.get("coerce_signs", True)
            S.check(ctx, "svd", "coerce_signs", tuple(outs), (lambda: tuple(da.linalg.svd(dx, coerce_signs=cs2))), va=tuple(vals),
                    describe={"coerce_signs": cs2})


# ---------------------------------------------------------------------------------------------
# svd_compressed (exact regime)

def _run_svdc(case, ctx):
    import dask
    import dask.array as da

    m, n, mk, dtype, k = case["m"], case["n"], case["mk"], case["dtype"], case["k"]
    chunks = A.chunks_of_desc(case["c"])
    a = _matrix(case["seed"], m, n, mk, dtype)
    dx = da.from_array(a, chunks=chunks)
    ctx.nontrivial = A.has_split(chunks)
    ctx.sig = {kk: v for kk, v in case.items() if kk not in ("seed", "threads")}
    ctx.op("svd_compressed")
    it, p = case["iterator"], case["p"]
    label = "svd_compressed:%s%s" % (it, "&iterated" if p else "")
    if len(chunks[0]) > 1 and len(chunks[1]) > 1:
        ctx.count("svdc_two_dimensional_grid")
    if p:
        ctx.count("svdc_power_iterations")
    if it == "QR":
        ctx.count("svdc_iterator_QR")
    if k < min(m, n):
        ctx.count("svdc_truncated")
    if case["compute"]:
        ctx.count("svdc_compute_flag")
    if mk in ("zero", "rankdef"):
        ctx.count("rank_deficient_or_zero")

    def mkseed():
        return da.random.RandomState(case["rs"]) if case["seed_form"] == "RandomState" else case["rs"]

    def call(kk=k, pp=p, cs=case["coerce_signs"]):
        return tuple(da.linalg.svd_compressed(dx, kk, iterator=it, n_power_iter=pp, n_oversamples=case["n_oversamples"],
                                              seed=mkseed(), compute=case["compute"], coerce_signs=cs))
    try:
        outs = call()
        vals = dask.compute(*outs, scheduler=_sched(case))
    except NotImplementedError as ex:
        ctx.unsupported(str(ex).split("\n")[0])
        return
    except Exception as ex:  # noqa: BLE001
        ctx.exception(ex, prefix=label)
        return
    ctx.count("compared")
    ctx.count("compared_svd_compressed")
    u, s, v = (np.asarray(x) for x in vals)

    def bad(symptom, msg, **kw):
        ctx.violation("%s:%s" % (label, symptom), msg, shape=[m, n], chunks=case["c"], matrix=mk, k=k, n_power_iter=p,
                      n_oversamples=case["n_oversamples"], seed_form=case["seed_form"], compute=case["compute"], **kw)

    if u.shape != (m, k) or s.shape != (k,) or v.shape != (k, n):
        bad("shape", "U %s s %s V %s, expected (%d,%d) (%d,) (%d,%d)" % (u.shape, s.shape, v.shape, m, k, k, k, n))
        return
    for nm, lazy, val in (("U", outs[0], u), ("s", outs[1], s), ("V", outs[2], v)):
        mm = lazy_meta_mismatch(lazy, val)
        if mm and mm[0] != "lazy-dtype":
            bad(mm[0], "%s: %s" % (nm, mm[1]))
    eps = _eps(dtype)
    aw = _wide(a)
    norm = float(np.linalg.norm(aw))
    otol = 64.0 * eps * max(k, 1)
    eye = np.eye(k)
    e1 = _maxabs(u.conj().T @ u - eye)
    if not e1 <= otol:
        bad("U-not-orthonormal", "max|U^H U - I| = %.3g > %.3g" % (e1, otol))
    e2 = _maxabs(v @ v.conj().T - eye)
    if not e2 <= otol:
        bad("V-not-orthonormal", "max|V V^H - I| = %.3g > %.3g" % (e2, otol))
    if (s < 0).any():
        bad("singular-values-order", "negative singular value: %s" % (s.tolist(),))
    # the tolerance follows the conditioning of the Gaussian test matrix (re-drawn: evidence for the tolerance only)
    c = min(m, n)
    try:
        st = da.random.RandomState(case["rs"]) if case["seed_form"] == "RandomState" else da.random.default_rng(case["rs"])
        om = st.standard_normal(size=(n, c), chunks=(chunks[1], (c,))).compute(scheduler="sync")
        kappa = float(np.linalg.cond(om))
    except Exception:  # noqa: BLE001
        kappa = 1e3
    if not np.isfinite(kappa):
        kappa = 1e8
    s_np = np.linalg.svd(aw, compute_uv=False)
    amp = 1.0
    if p and it == "power":
        big = s_np[s_np > s_np[0] * eps * max(m, n)] if s_np.size and s_np[0] > 0 else s_np[:0]
        amp = float(big[0] / big[-1]) ** (2 * p) if big.size else 1.0
    tol = 64.0 * eps * norm * max(kappa, 1.0) * amp
    if tol > 1e-3 * norm and norm > 0:
        ctx.count("svdc_tolerance_too_wide")
    else:
        ctx.count("svdc_accuracy_checked")
        e0 = _maxabs(s.astype("float64") - s_np[:k])
        if not e0 <= tol:
            bad("singular-values", "max|s - s_numpy[:k]| = %.3g > %.3g; s=%s numpy=%s" % (e0, tol, s.tolist(), s_np[:k].tolist()),
                cond_test_matrix=kappa)
        if (np.diff(s) > tol).any():
            bad("singular-values-order", "s not descending: %s" % (s.tolist(),))
        opt = float(np.sqrt((s_np[k:] ** 2).sum()))
        e3 = float(np.linalg.norm((_wide(u) * s.astype("float64")) @ _wide(v) - aw))
        if not e3 <= opt + tol:
            bad("USV-not-best-rank-k", "||A - U diag(s) V||_F = %.6g, optimal %.6g, tolerance %.3g" % (e3, opt, tol),
                cond_test_matrix=kappa)
    if case["coerce_signs"]:
        _sign_rows(ctx, (lambda sy, msg: ctx.violation("svd_compressed:coerce_signs:" + sy, msg, shape=[m, n], chunks=case["c"])),
                   v, eps, n)
    ctx.sample = {"kind": "svd_compressed", "shape": [m, n], "chunks": case["c"], "k": k, "cond": kappa, "tol": tol}
    which = S.pick(case, 2, salt="svdc-sib")
    if which == 0 and min(m, n) > 1:
        k2 = k - 1 if k > 1 else k + 1
        S.check(ctx, "svd_compressed", "k", tuple(outs), (lambda: call(kk=k2)), va=tuple(vals), describe={"k": k2})
    else:
        cs2 = not case["coerce_signs"]
        S.check(ctx, "svd_compressed", "coerce_signs", tuple(outs), (lambda: call(cs=cs2)), va=tuple(vals),
                describe={"coerce_signs": cs2})


# ---------------------------------------------------------------------------------------------
# norm

def _ord(v):
    return {"inf": np.inf, "-inf": -np.inf}.get(v, v) if isinstance(v, str) else v


def _run_norm(case, ctx):
    import dask.array as da

    x = _tensor(case["seed"], tuple(case["s"][0]), case["d"][0])
    cs = A.chunks_of_desc(case["c"][0])
    dx = da.from_array(x, chunks=cs)
    ctx.nontrivial = A.has_split(cs)
    ctx.sig = {k: v for k, v in case.items() if k not in ("seed", "threads")}
    ctx.op("norm")
    ordv, axis, keep = _ord(case["ord"]), case["axis"], case["keepdims"]
    ax = tuple(axis) if isinstance(axis, list) else axis
    nd = x.ndim
    if ax is None:
        red = list(range(nd))
        shape_class = "flattened" if (nd > 2 or (nd == 2 and ordv is None)) else ("vector" if nd == 1 else "matrix")
    elif isinstance(ax, tuple):
        red = [v % nd for v in ax]
        shape_class = "matrix"
    else:
        red = [ax % nd]
        shape_class = "vector"
    flags = [shape_class, "ord=%s" % (case["ord"],)]
    if keep:
        flags.append("keepdims")
        ctx.count("norm_keepdims")
    if ax is not None and any(v < 0 for v in (ax if isinstance(ax, tuple) else (ax,))):
        ctx.count("norm_negative_axis")
    if isinstance(ax, tuple) and red[0] > red[1]:
        ctx.count("norm_axis_pair_reversed")
    ctx.count("norm_" + shape_class)
    ctx.count("norm_ord_%s" % (case["ord"],))
    if nd >= 3:
        ctx.count("norm_3d_or_4d")
    intin = x.dtype.kind in "iub"
    label = "norm:" + "&".join(flags)
    f = np.linalg.norm if case["form"] == "np_func" else da.linalg.norm
    try:
        e = np.linalg.norm(x, ordv, ax, keep)
    except Exception as ex:  # noqa: BLE001
        ctx.reject("numpy: %s: %s" % (type(ex).__name__, ex))
        return
    try:
        r = f(dx, ordv, ax, keep)
        if not isinstance(r, da.Array):
            ctx.violation(label + ":result-not-a-dask-array", "got %r" % (type(r),))
            return
        rv = r.compute(scheduler=_sched(case))
    except NotImplementedError as ex:
        ctx.unsupported(str(ex).split("\n")[0])
        return
    except Exception as ex:  # noqa: BLE001
        if intin and isinstance(ex, TypeError):
            ctx.violation("norm:integer-or-bool-input:TypeError", "%s: %s" % (type(ex).__name__, ex), ord=case["ord"],
                          dtype=str(x.dtype))
        elif nd > 2 and ax is None and ordv is None and isinstance(ex, ValueError):
            ctx.violation("norm:ndim>2&axis-None&ord-None:ValueError", "%s: %s" % (type(ex).__name__, ex), shape=list(x.shape))
        else:
            ctx.exception(ex, prefix=label)
        return
    ctx.count("compared")
    ctx.count("compared_norm")
    nred = int(np.prod([x.shape[v] for v in red])) if red else 1
    ea = np.asarray(e)
    if case["ord"] in ("nuc", 2, -2) and shape_class == "matrix":
        ctx.count("norm_through_svd")
        eps_ratio = 1.0
        m = compare_arrays(rv, e, exact=False, n=max(min(x.shape[red[0]], x.shape[red[1]]), 1),
                           scale=float(np.linalg.norm(_wide(x))), factor=64.0, check_dtype=not intin)
    else:
        m = compare_arrays(rv, e, exact=False, n=max(nred, 1), scale=float(np.max(np.abs(ea), initial=0.0)) or 1.0,
                           factor=16.0, check_dtype=not intin)
    if intin and np.asarray(rv).dtype != ea.dtype:
        ctx.violation("norm:integer-or-bool-input:dtype", "dtype %s vs expected %s" % (np.asarray(rv).dtype, ea.dtype),
                      ord=case["ord"], dtype=str(x.dtype))
    if m:
        ctx.violation("%s:%s" % (label, m[0]), m[1], result=repr(rv)[:300], expected=repr(e)[:300], axis=axis,
                      shape=list(x.shape), chunks=case["c"][0], dtype=str(x.dtype))
    else:
        mm = lazy_meta_mismatch(r, rv)
        if mm and not (intin and mm[0] == "lazy-dtype"):
            ctx.violation("%s:%s" % (label, mm[0]), mm[1])
    ctx.sample = {"kind": "norm", "ord": case["ord"], "axis": axis, "keepdims": keep, "shape": list(x.shape),
                  "chunks": case["c"][0]}
    # ---- sibling: one of ord / keepdims / axis changed ----
    which = S.pick(case, 3, salt="norm-sib")
    if which == 0:
        o2 = 1 if ordv is None or ordv == "fro" else None
        S.check(ctx, "norm", "ord", r, (lambda: da.linalg.norm(dx, o2, ax, keep)), va=rv, describe={"ord": o2})
    elif which == 1:
        S.check(ctx, "norm", "keepdims", r, (lambda: da.linalg.norm(dx, ordv, ax, not keep)), va=rv,
                describe={"keepdims": not keep})
    elif nd >= 2 and ax is not None:
        if isinstance(ax, tuple):
            ax2 = (ax[1], ax[0]) if case["ord"] in (1, -1, "inf", "-inf") else None
        else:
            ax2 = (ax % nd + 1) % nd
        if ax2 is not None:
            S.check(ctx, "norm", "axis", r, (lambda: da.linalg.norm(dx, ordv, ax2, keep)), va=rv, describe={"axis": ax2})


# ---------------------------------------------------------------------------------------------
# scipy-backed functions

def _spd(seed, n, dtype):
    r = np.random.default_rng(seed)
    b = r.standard_normal((n, n))
    if np.dtype(dtype).kind == "c":
        b = b + 1j * r.standard_normal((n, n))
    return (b @ b.conj().T + n * np.eye(n)).astype(dtype)


def _scipy_missing(ex):
    return isinstance(ex, ImportError) and "scipy" in str(ex)


def _run_cholesky(case, ctx):
    import dask.array as da

    n, dtype, lower = case["n"], case["dtype"], case["lower"]
    a = _spd(case["seed"], n, dtype)
    c = tuple(case["c"])
    dx = da.from_array(a, chunks=(c, c))
    ctx.nontrivial = len(c) > 1
    ctx.sig = {k: v for k, v in case.items() if k not in ("seed", "threads")}
    ctx.op("cholesky")
    label = "cholesky:%s" % ("lower" if lower else "upper")
    try:
        r = da.linalg.cholesky(dx, lower=lower)
        rv = np.asarray(r.compute(scheduler=_sched(case)))
    except Exception as ex:  # noqa: BLE001
        if _scipy_missing(ex):
            ctx.count("scipy_backed_cannot_run")
            ctx.envlimited("cholesky of several blocks needs scipy.linalg.solve_triangular: %s" % (ex,))
            return
        ctx.exception(ex, prefix=label)
        return
    ctx.count("compared")
    ctx.count("compared_cholesky")
    if lower:
        ctx.count("cholesky_lower")
    eps = _eps(dtype)
    tol = 64.0 * eps * float(np.linalg.norm(a)) * max(n, 1)
    if rv.shape != (n, n):
        ctx.violation(label + ":shape", "shape %s, expected (%d,%d)" % (rv.shape, n, n))
        return
    off = np.triu(rv, 1) if lower else np.tril(rv, -1)
    if _maxabs(off):
        ctx.violation(label + ":not-triangular", "the %s factor has entries on the other side: %s"
                      % ("lower" if lower else "upper", repr(rv)[:300]))
    w = _wide(rv)
    rec = w @ w.conj().T if lower else w.conj().T @ w
    e = _maxabs(rec - a)
    if not e <= tol:
        ctx.violation(label + ":reconstruction", "max|%s - A| = %.3g > %.3g" % ("L L^H" if lower else "U^H U", e, tol))
    S.check(ctx, "cholesky", "lower", r, (lambda: da.linalg.cholesky(dx, lower=not lower)), va=rv, describe={"lower": not lower})


def _run_scipy(case, ctx):
    """lu / solve / solve_triangular / inv / lstsq / cholesky of several blocks: scipy is absent here, so the call is made
    and its ModuleNotFoundError counted; with scipy present the residual of the defining equation is checked."""
    import dask
    import dask.array as da

    fn, bnd = case["fn"], case["bnd"]
    n, c = 4, 2
    a = _spd(case["seed"], n, "float64")
    rb = np.random.default_rng(case["seed"] + 7)
    b = rb.standard_normal((n,) if bnd == 1 else (n, 3))
    da_, db = da.from_array(a, chunks=c), da.from_array(b, chunks=(c,) if bnd == 1 else (c, 3))
    ctx.nontrivial = True
    ctx.sig = {k: v for k, v in case.items() if k not in ("seed", "threads")}
    ctx.op("scipy:" + fn)
    tol = 1e-9 * float(np.linalg.norm(a)) * max(float(np.linalg.norm(b)), 1.0)
    try:
        if fn == "lu":
            p, l, u = dask.compute(*da.linalg.lu(da_), scheduler="sync")
            err = _maxabs(p @ l @ u - a)
        elif fn in ("solve", "solve-pos"):
            x = da.linalg.solve(da_, db, **({"assume_a": "pos"} if fn == "solve-pos" else {})).compute(scheduler="sync")
            err = _maxabs(a @ x - b)
        elif fn == "inv":
            x = da.linalg.inv(da_).compute(scheduler="sync")
            err = _maxabs(a @ x - np.eye(n))
        elif fn == "solve_triangular":
            t = np.tril(a) if case["lower"] else np.triu(a)
            x = da.linalg.solve_triangular(da.from_array(t, chunks=c), db, lower=case["lower"]).compute(scheduler="sync")
            err = _maxabs(t @ x - b)
        elif fn == "lstsq":
            x = da.linalg.lstsq(da.from_array(a, chunks=(c, n)), db)[0].compute(scheduler="sync")
            err = _maxabs(a @ x - b)
        else:
            x = da.linalg.cholesky(da_, lower=case["lower"]).compute(scheduler="sync")
            err = _maxabs((x @ x.T if case["lower"] else x.T @ x) - a)
    except Exception as ex:  # noqa: BLE001
        if _scipy_missing(ex):
            ctx.count("scipy_backed_cannot_run")
            ctx.envlimited("%s needs scipy.linalg: %s" % (fn, ex))
            return
        ctx.exception(ex, prefix="scipy-backed:" + fn)
        return
    ctx.count("compared")
    ctx.count("scipy_backed_ran")
    if not err <= tol:
        ctx.violation("scipy-backed:%s:residual" % fn, "residual of the defining equation %.3g > %.3g" % (err, tol))
