"""C15 — delayed programs evaluate like the eager Python program.

Monitor: a seeded generator builds an expression program twice in lock-step: once
eagerly with plain Python values and once with dask.delayed (delayed functions,
delayed objects, attribute and item access, operators, method calls, nested
container arguments, dask_key_name, nout).  The delayed side is computed with the
real scheduler and compared with the eager value (type-exact structural equality).

pure=True facet: the same pure call built twice must get identical keys; calls
whose arguments are observably different must get different keys.

Calibration
* dask_key_name values are drawn from the same pool as attribute names, method
  names and string literals on purpose (a key that equals a literal elsewhere in
  the graph must not be mistaken for a reference); each name is used at most once
  per program as a key, since two different tasks under one key is a user error.
* Sets are only compared as values (no ordering).  Iterating a Delayed needs nout.
"""
from __future__ import annotations

import dataclasses
import operator
import random
from collections import namedtuple

PROP = "C15"
RULE = ("cases = seeds of an expression-program generator (depth <= 4) over ints, strings, lists, dicts, sets, tuples, slices, "
        "dataclasses and namedtuples mixing delayed and plain values: delayed function calls (positional, keyword, nested "
        "containers holding delayed values), operators, getattr / method calls / getitem on Delayed objects, "
        "dask_key_name drawn from the pool of attribute names and string literals, pure on/off, nout unpacking, "
        "traverse=False. non-trivial = the program contains >= 3 delayed operations; distinct = distinct (seed, options).")
ASSUMPTIONS = ["the eager Python evaluation of the same generated program is the reference", "sync scheduler (threads for a fifth)"]
BUDGET = {"quick": 40, "thorough": 400}
FLOORS = {"quick": {"evaluations": 3000, "distinct_nontrivial": 2000,
                    "counters": {"programs_compared": 2500, "pure_key_pairs_checked": 1500, "pure_form_call": 900, "pure_form_call_overrides_creation": 900, "nout_unpackings": 200,
                                 "key_names_colliding_with_literals": 150, "attr_accesses": 300, "method_calls": 500,
                                 "noncommutative_operator_steps": 400, "reflected_operator_steps": 200}},
          "thorough": {"evaluations": 40000, "distinct_nontrivial": 25000, "counters": {"programs_compared": 35000}}}
EXHAUSTIVE_SPACE = None
CLAIM = ("Every generated delayed program computed to exactly the value of the same program run eagerly; every pair of "
         "identical pure calls had identical keys and every pair of pure calls with observably different arguments had "
         "different keys; nout-unpacking yielded the tuple elements. Held = no counterexample among the programs run.")
LEVEL_NOTE = "reference = eager CPython evaluation; generator covers the constructs the statement names"
TECHNIQUE = "runtime monitoring: lock-step eager/delayed differential over generated expression programs + key (in)equality oracle"

POOL = ["x", "y", "val", "upper", "count", "name", "items", "a", "b", "k0", "get", "real"]


@dataclasses.dataclass
class DC:
    x: int
    name: str
    items: list


NT = namedtuple("NT", ["a", "b", "val"])


class Tag:
    """A value whose every binary operator is NON-commutative: the result records which operand was on
    the left.  Any operator (plain or reflected) that swaps, drops or duplicates operands changes the value."""

    def __init__(self, v):
        self.v = v

    def __eq__(self, o):
        return isinstance(o, Tag) and self.v == o.v

    def __hash__(self):
        return hash(("Tag", self.v))

    def __repr__(self):
        return "Tag(%r)" % (self.v,)

    def __dask_tokenize__(self):
        return ("Tag", self.v)


def _tagop(name):
    def fwd(self, o):
        if not isinstance(o, Tag):
            return NotImplemented      # lets Python dispatch to a Delayed operand's reflected operator
        return Tag((name, self.v, o.v))

    def rev(self, o):
        if not isinstance(o, Tag):
            return NotImplemented
        return Tag((name, o.v, self.v))
    return fwd, rev


TAG_OPS = ("add", "sub", "mul", "truediv", "floordiv", "mod", "pow", "and", "or", "xor", "lshift", "rshift", "matmul")
for _n in TAG_OPS:
    _f, _r = _tagop(_n)
    setattr(Tag, "__%s__" % _n, _f)
    setattr(Tag, "__r%s__" % _n, _r)


def f_add(a, b):
    return a + b


def f_pack(*args, **kw):
    return [list(args), sorted(kw.items())]


def f_pair(a, b=0):
    return (a, b)


def f_len(x):
    return len(x)


def f_dc(x, name, items):
    return DC(x, name, items)


def f_nt(a, b, val):
    return NT(a, b, val)


def f_triple(a):
    return (a, [a, a], {"v": a})


def f_ident(x):
    return x


def cases(tier, seed):
    rng = random.Random(seed * 424243 + 1)
    n = 4500 if tier == "quick" else 60000
    for _ in range(n):
        yield {"seed": rng.randrange(2 ** 31), "depth": rng.choice((2, 3, 3, 4)), "pure": rng.choice((None, True, False)),
               "threads": rng.random() < 0.2, "cfg_pure": rng.random() < 0.1}


class Gen:
    def __init__(self, case, ctx):
        import dask

        self.dask = dask
        self.delayed = dask.delayed
        self.rng = random.Random(case["seed"])
        self.case = case
        self.ctx = ctx
        self.ops = 0
        self.used_names = set()
        self.literals = set()

    # ---- leaves -------------------------------------------------------------------
    def leaf(self):
        r = self.rng
        k = r.choice(("int", "int", "str", "list", "dict", "tuple", "set", "slice", "dc", "nt", "tag", "tag"))
        if k == "tag":
            v = Tag(r.randint(0, 9))
        elif k == "int":
            v = r.randint(-3, 9)
        elif k == "str":
            v = r.choice(POOL + ["hello", "a-b", ""])
            self.literals.add(v)
        elif k == "list":
            v = [r.randint(0, 5) for _ in range(r.randint(0, 4))]
        elif k == "dict":
            ks = r.sample(POOL, r.randint(0, 3))
            self.literals.update(ks)
            v = {kk: r.randint(0, 9) for kk in ks}
        elif k == "tuple":
            v = tuple(r.randint(0, 5) for _ in range(r.randint(0, 3)))
        elif k == "set":
            v = {r.randint(0, 5) for _ in range(r.randint(0, 3))}
        elif k == "slice":
            v = slice(r.choice((None, 0, 1)), r.choice((None, 2, 3, -1)), r.choice((None, 1, 2)))
        elif k == "dc":
            nm = r.choice(POOL)
            self.literals.add(nm)
            v = DC(r.randint(0, 9), nm, [r.randint(0, 3) for _ in range(r.randint(0, 3))])
        else:
            v = NT(r.randint(0, 5), r.choice(POOL), r.randint(0, 5))
        # plain, delayed object, or delayed object with traverse=False / a name
        u = r.random()
        if u < 0.45:
            return v, v
        self.ops += 1
        if u < 0.6 and not isinstance(v, slice):
            return v, self.delayed(v, traverse=False)
        if u < 0.75:
            nm = self.fresh_name()
            if nm:
                return v, self.delayed(v, name=nm)
        return v, self.delayed(v)

    def fresh_name(self):
        cand = [p for p in POOL if p not in self.used_names]
        if not cand:
            return None
        nm = self.rng.choice(cand)
        self.used_names.add(nm)
        return nm

    def dfunc(self, f, **opts):
        pure = self.case["pure"]
        if pure is not None:
            opts.setdefault("pure", pure)
        return self.delayed(f, **opts)

    def call(self, f, eargs, largs, ekw=None, lkw=None):
        """Call f eagerly and through delayed (with optional dask_key_name)."""
        ekw, lkw = ekw or {}, dict(lkw or {})
        e = f(*eargs, **ekw)
        if self.rng.random() < 0.25:
            nm = self.fresh_name()
            if nm:
                lkw["dask_key_name"] = nm
        self.ops += 1
        return e, self.dfunc(f)(*largs, **lkw)

    # ---- expressions ------------------------------------------------------------------
    def expr(self, depth):
        r = self.rng
        if depth <= 0 or r.random() < 0.15:
            return self.leaf()
        e, l = self.expr(depth - 1)
        for _ in range(r.randint(1, 3)):
            e, l = self.step(e, l, depth)
        return e, l

    def lazy(self, l):
        from dask.delayed import Delayed

        return isinstance(l, Delayed)

    def step(self, e, l, depth):
        r = self.rng
        D = self.lazy(l)
        choices = ["wrap", "container", "ident"]
        if isinstance(e, bool):
            pass
        elif isinstance(e, int):
            choices += ["arith", "arith", "cmp", "pair"]
        elif isinstance(e, str):
            choices += ["strmeth", "strmeth", "concat", "getitem", "len"]
        elif isinstance(e, list):
            choices += ["getitem", "len", "listmeth", "concat", "slice"]
        elif isinstance(e, tuple) and not hasattr(e, "_fields"):
            choices += ["getitem", "len", "nout"]
        elif isinstance(e, dict):
            choices += ["dictget", "dictmeth", "len"]
        elif isinstance(e, DC):
            choices += ["attr", "attr", "attr"]
        elif hasattr(e, "_fields"):
            choices += ["attr", "attr", "getitem"]
        elif isinstance(e, set):
            choices += ["len", "setop"]
        if isinstance(e, Tag):
            choices = ["tagop", "tagop", "tagop", "tagop", "ident", "container"]
        if isinstance(e, dict):
            choices += ["dictor", "dictor"]
        c = r.choice(choices)
        self.ctx.op(c)
        try:
            if c == "ident":
                return self.call(f_ident, [e], [l])
            if c == "wrap":
                which = r.choice((f_triple, f_pair, f_pack))
                if which is f_pack:
                    e2, l2 = self.expr(depth - 2)
                    nm = r.choice(POOL)
                    self.literals.add(nm)
                    return self.call(f_pack, [e, [e2, nm]], [l, [l2, nm]], {nm: e2}, {nm: l2})
                if which is f_pair:
                    e2, l2 = self.expr(depth - 2)
                    return self.call(f_pair, [e], [l], {"b": e2}, {"b": l2})
                return self.call(f_triple, [e], [l])
            if c == "container":
                e2, l2 = self.expr(depth - 2)
                kind = r.choice(("list", "tuple", "dict", "nested"))
                if kind == "list":
                    return self.call(f_ident, [[e, e2, 1]], [[l, l2, 1]])
                if kind == "tuple":
                    return self.call(f_ident, [(e, e2)], [(l, l2)])
                if kind == "dict":
                    nm = r.choice(POOL)
                    self.literals.add(nm)
                    return self.call(f_ident, [{nm: e, "z": [e2]}], [{nm: l, "z": [l2]}])
                return self.call(f_len, [[[e], (e2, {"q": e})]], [[[l], (l2, {"q": l})]])
            if c == "arith":
                e2, l2 = (r.randint(1, 5),) * 2 if r.random() < 0.5 else self._typed(int, depth)
                op = r.choice((operator.add, operator.sub, operator.mul, operator.floordiv, operator.mod, operator.and_,
                               operator.or_, operator.xor, operator.pow if abs(e) < 6 else operator.add))
                if op in (operator.floordiv, operator.mod) and e2 == 0:
                    op = operator.add
                if op is operator.pow:
                    e2 = l2 = r.randint(0, 3)
                if not D and not self.lazy(l2):
                    l = self.delayed(l)
                    self.ops += 1
                self.ops += 1
                if r.random() < 0.3:
                    return op(e2, e), op(l2, l)
                return op(e, e2), op(l, l2)
            if c == "cmp":
                e2, l2 = self._typed(int, depth)
                op = r.choice((operator.lt, operator.le, operator.eq, operator.ne, operator.gt, operator.ge))
                if not D and not self.lazy(l2):
                    l = self.delayed(l)
                self.ops += 1
                return op(e, e2), op(l, l2)
            if c == "pair":
                return self.call(f_add, [e, 2], [l, 2])
            if not D:
                l = self.delayed(l)
                self.ops += 1
            if c == "strmeth":
                self.ctx.count("method_calls")
                m = r.choice(("upper", "count", "replace", "split", "startswith", "join", "zfill"))
                self.ops += 1
                if m == "upper":
                    return e.upper(), l.upper()
                if m == "count":
                    return e.count("a"), l.count("a")
                if m == "replace":
                    return e.replace("a", "zz"), l.replace("a", "zz")
                if m == "split":
                    return e.split("-"), l.split("-")
                if m == "startswith":
                    return e.startswith("a"), l.startswith("a")
                if m == "join":
                    return e.join(["p", "q"]), l.join(["p", "q"])
                return e.zfill(4), l.zfill(4)
            if c == "concat":
                self.ops += 1
                if isinstance(e, str):
                    return e + "k0", l + "k0"
                return e + [7], l + [7]
            if c == "len":
                return self.call(f_len, [e], [l])
            if c == "getitem":
                self.ops += 1
                if len(e) == 0:
                    return self.call(f_len, [e], [l])
                i = r.randrange(-len(e), len(e))
                if r.random() < 0.3:
                    ei, li = i, self.delayed(i)
                    return e[ei], l[li]
                return e[i], l[i]
            if c == "slice":
                s = slice(r.choice((None, 0, 1)), r.choice((None, 2, -1)), r.choice((None, 2)))
                self.ops += 1
                return e[s], l[s]
            if c == "listmeth":
                self.ctx.count("method_calls")
                self.ops += 1
                m = r.choice(("count", "index0", "copy"))
                if m == "count":
                    return e.count(1), l.count(1)
                if m == "copy":
                    return e.copy(), l.copy()
                return (e.index(e[0]), l.index(e[0])) if e else (e.count(0), l.count(0))
            if c == "dictget":
                self.ops += 1
                k = r.choice(list(e) + POOL[:3])
                if k in e and r.random() < 0.5:
                    return e[k], l[k]
                self.ctx.count("method_calls")
                return e.get(k, -1), l.get(k, -1)
            if c == "dictmeth":
                self.ctx.count("method_calls")
                self.ops += 1
                m = r.choice(("keys", "items", "values"))
                return self.call(sorted, [list(getattr(e, m)())], [self.delayed(list)(getattr(l, m)())]) if m != "values" \
                    else (list(e.values()), self.delayed(list)(l.values()))
            if c == "attr":
                self.ctx.count("attr_accesses")
                self.ops += 1
                names = [f.name for f in dataclasses.fields(e)] if isinstance(e, DC) else list(e._fields)
                a = r.choice(names)
                return getattr(e, a), getattr(l, a)
            if c == "tagop":
                # every operator in both operand orders, with a plain / delayed / Delayed-on-the-right partner
                self.ctx.count("noncommutative_operator_steps")
                name = r.choice(TAG_OPS)
                op = {"and": operator.and_, "or": operator.or_}.get(name) or getattr(operator, name)
                e2 = Tag(r.randint(10, 19))
                l2 = self.delayed(e2) if r.random() < 0.4 else e2
                self.ops += 1
                if r.random() < 0.5:
                    return op(e, e2), op(l, l2)
                self.ctx.count("reflected_operator_steps")
                return op(e2, e), op(l2, l)      # plain (or delayed) LEFT operand, Delayed on the right
            if c == "dictor":
                # dict union is order sensitive on shared keys
                self.ctx.count("noncommutative_operator_steps")
                keys = list(e)[:2] + [r.choice(POOL)]
                e2 = {k: 100 + i for i, k in enumerate(keys)}
                self.ops += 1
                if r.random() < 0.5:
                    return e | e2, l | e2
                self.ctx.count("reflected_operator_steps")
                return e2 | e, e2 | l
            if c == "setop":
                self.ops += 1
                return self.call(sorted, [e | {9}], [l | {9}])
            if c == "nout":
                if len(e) >= 1:
                    self.ctx.count("nout_unpackings")
                    lz = self.dfunc(f_ident, nout=len(e))(l)
                    parts = list(lz)
                    self.ops += 1 + len(e)
                    if len(parts) != len(e):
                        self.ctx.violation("nout:wrong-number-of-parts", "nout=%d gave %d parts" % (len(e), len(parts)))
                    return list(e), self.delayed(f_pack)(*parts)[0]
                return self.call(f_len, [e], [l])
        except (TypeError, ValueError, ZeroDivisionError, IndexError, KeyError, AttributeError, OverflowError) as ex:
            # the EAGER side raised (or the generator made an ill-typed step): drop this step
            if self._eager_only(ex):
                return e, l
            raise
        return e, l

    def _eager_only(self, ex):
        from ..core.ctx import dask_frame

        return dask_frame(ex) is None

    def _typed(self, typ, depth):
        for _ in range(4):
            e, l = self.expr(min(depth - 2, 1))
            if isinstance(e, typ) and not isinstance(e, bool):
                return e, l
        v = self.rng.randint(1, 4)
        return v, v


def _same(a, b):
    if type(a) is not type(b):
        return False
    if isinstance(a, (list, tuple)):
        return len(a) == len(b) and all(_same(x, y) for x, y in zip(a, b))
    if isinstance(a, dict):
        return list(a.keys()) == list(b.keys()) and all(_same(a[k], b[k]) for k in a)
    if isinstance(a, DC):
        return _same(dataclasses.astuple(a), dataclasses.astuple(b))
    return a == b


def run_case(case, ctx):
    import dask
    from dask.delayed import Delayed

    cfg = {"delayed_pure": True} if case.get("cfg_pure") else {}
    with dask.config.set(cfg):
        g = Gen(case, ctx)
        e, l = g.expr(case["depth"])
        ctx.nontrivial = g.ops >= 3
        ctx.sig = (case["seed"], case["depth"], case["pure"], case.get("cfg_pure"))
        coll = g.used_names & g.literals
        if coll:
            ctx.count("key_names_colliding_with_literals")
        feat = "pure=%s%s" % (case["pure"], "&key-name-equals-a-literal" if coll else "")
        if isinstance(l, Delayed):
            try:
                v = l.compute(scheduler="threads" if case["threads"] else "sync")
            except Exception as ex:  # noqa: BLE001
                ctx.exception(ex, prefix="compute:" + feat, eager=repr(e)[:200])
                return
            ctx.count("programs_compared")
            if not _same(v, e):
                kind = "type" if type(v) is not type(e) else "value"
                ctx.violation("compute:%s:%s-differs-from-eager" % (feat, kind), "delayed %r vs eager %r" % (v, e),
                              key=str(l.key))
        # ---- pure keys --------------------------------------------------------------
        r = random.Random(case["seed"] + 5)
        for _ in range(2):
            a1 = _rand_arg(r)
            a2 = _rand_arg(r)
            f = r.choice((f_add, f_pair, f_pack))
            kw = {"b": _rand_arg(r)} if f is not f_add and r.random() < 0.5 else {}
            if f is f_add:
                args1, args2 = (a1, 1), (a2, 1)
            else:
                args1, args2 = (a1,), (a2,)
            # where pure=True is said: when the function is wrapped, at the call, or at the call of a function that was
            # wrapped with pure=False (the keyword of the call is the more specific statement)
            form = r.choice(("creation", "creation", "call", "call-overrides-creation"))

            # Calibration: a wrapper made without pure=True has a random key of its own, which is part of every call's
            # token; "identical calls" therefore means calls of the SAME wrapper object for the call-time forms
            wrapper = dask.delayed(f) if form == "call" else (dask.delayed(f, pure=False) if form != "creation" else None)

            def pcall(args, kwargs, form=form, f=f, wrapper=wrapper):
                if form == "creation":
                    return dask.delayed(f, pure=True)(*args, **kwargs)
                return wrapper(*args, pure=True, **kwargs)
            try:
                k1 = pcall(args1, kw).key
                k1b = pcall(_copy(args1), _copy(kw)).key
                k2 = pcall(args2, kw).key
                kk = pcall(args1, {"b": ("other", 1)}).key if f is not f_add else None
                # the converse: an impure call of a function wrapped as pure must NOT be merged with its twin
                ki1 = dask.delayed(f, pure=True)(*args1, pure=False, **kw).key
                ki2 = dask.delayed(f, pure=True)(*args1, pure=False, **kw).key
            except Exception as ex:  # noqa: BLE001
                ctx.exception(ex, prefix="pure-key")
                continue
            ctx.count("pure_key_pairs_checked")
            ctx.count("pure_form_" + form.replace("-", "_"))
            if ki1 == ki2:
                ctx.violation("pure:call-with-pure=False-on-pure-function:twin-calls-share-key", "key %r twice for args %r" % (ki1, args1))
            if form != "creation" and (k1 != k1b or (not _same(a1, a2) and k1 == k2)):
                ctx.violation("pure:pure=True-given-at-%s:%s" % (form, "identical-calls-different-keys" if k1 != k1b else "different-args-same-key"),
                              "%r / %r / %r for args %r, %r" % (k1, k1b, k2, args1, args2))
                continue
            if k1 != k1b:
                ctx.violation("pure:identical-calls-different-keys:arg=%s" % type(a1).__name__, "%r vs %r for args %r" % (k1, k1b, args1))
            if not _same(a1, a2) and k1 == k2:
                ctx.violation("pure:different-args-same-key:%s-vs-%s" % (type(a1).__name__, type(a2).__name__),
                              "key %r for args %r and %r" % (k1, args1, args2))
            if kk is not None and kw.get("b", 0) != ("other", 1) and kk == k1 and "b" in kw:
                ctx.violation("pure:different-kwargs-same-key", "key %r for kwargs %r and b=('other',1)" % (k1, kw))
        ctx.sample = {"ops": g.ops, "eager": repr(e)[:120], "lazy_key": str(getattr(l, "key", None))[:60]}


def _rand_arg(r):
    k = r.choice(("int", "float", "str", "list", "dict", "tuple", "bool", "none", "dc", "slice", "set"))
    if k == "int":
        return r.choice((0, 1, 2, -1))
    if k == "float":
        return r.choice((0.0, 1.0, 2.5))
    if k == "bool":
        return r.choice((True, False))
    if k == "none":
        return None
    if k == "str":
        return r.choice(("a", "b", "1", "a-b", ""))
    if k == "list":
        return [r.choice((0, 1, "a", 1.0)) for _ in range(r.randint(0, 3))]
    if k == "tuple":
        return tuple(r.choice((0, 1, "a", True)) for _ in range(r.randint(0, 3)))
    if k == "dict":
        return {r.choice("abc"): r.choice((0, 1, "a")) for _ in range(r.randint(0, 2))}
    if k == "dc":
        return DC(r.choice((0, 1)), r.choice(("a", "b")), [r.choice((0, 1))])
    if k == "slice":
        return slice(r.choice((None, 0, 1)), r.choice((None, 2)), None)
    return {r.choice((0, 1, 2)) for _ in range(r.randint(0, 2))}


def _copy(x):
    import copy

    return copy.deepcopy(x)
