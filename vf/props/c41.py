"""C41 — known divisions always describe the partitions truthfully.

Cross-cutting monitor (``vf.gen.frames.divisions_violation``) applied to every
frame produced along pipelines built from the construction paths named by the
quantifier.  Whenever a frame reports ``known_divisions`` the monitor demands

* ``npartitions == len(divisions) - 1``;
* every index value of partition ``i`` lies in ``[divisions[i], divisions[i+1])``
  (closed interval for the last partition), hence partitions in index order.

The partitions of a stage are observed in TWO independent ways and the monitor
is evaluated on both:

* view ``graph``: ``dask.compute(*ddf.to_delayed())`` — the partitions of the
  (optimised) graph of the whole frame; additionally the number of partitions
  the graph really has must equal ``len(divisions) - 1``;
* view ``partitions-accessor``: ``ddf.partitions[i]`` for every i (what
  ``get_partition`` hands to a user; this is what the shared monitor does).

A violation names the step that produced the first untruthful stage, the step
variant, the view and the symptom.  Frames with unknown divisions are counted
and not checked (the property does not speak).  After an accessor-only
violation the pipeline goes on with graph-view checks only (downstream frames
inherit the accessor defect); after a graph-view violation the pipeline stops.

Steps (all named by the quantifier): from_pandas (npartitions / chunksize /
sort, index kinds range, sorted, duplicates, unsorted, datetime, strings,
float), set_index (plain, npartitions=, divisions=, sorted=True), repartition
(npartitions up/down, divisions, force, freq), loc (lo:hi, lo:, :hi, [labels],
label) with bounds at / just below / just above division values and index
values and outside the range, boolean filters, blockwise ops (assign,
arithmetic, fillna, astype, projections), index-aligned merge / join /
concat(axis=1), concat(axis=0, interleave_partitions), map_partitions
(default, clear_divisions, enforce_metadata=False, row-dropping function),
reset_index, sort_values, rolling / cumsum / shift / diff.

Family "sequence" (several operations on ONE base frame in ONE process)
-----------------------------------------------------------------------
dask keeps state between operations: the module-level ``divisions_lru`` of ``dask_expr/_shuffle.py`` (quantile
divisions, per-partition mins / maxes and the ``presorted`` verdict per (column expression name, npartitions,
ascending, partition_size, upsample)), ``mem_usages_lru`` of ``_repartition.py``, and the expression singletons
(an equal-token rebuilt collection IS the earlier expression object, with its cached properties and whatever
earlier operations wrote into its operands).  A case of this family builds one base frame whose key columns
have the shapes

  asc / desc      globally ascending / descending (= reversed), so also across partitions without overlap
  ascblk / descblk  ascending / descending ACROSS partitions without overlap, shuffled inside each partition
  rand            a permutation;   overlap: ascending except that the two rows around the first partition
                  boundary are swapped;   dups: ascending with duplicates, also across boundaries

(key dtype int / float / datetime / str; RangeIndex with known divisions or a shuffled index with unknown
ones), then issues 2..8 operations one after another on the SAME collection or on an equal-token rebuilt copy:
``sort_values`` (ascending / descending, ``npartitions=``), ``set_index`` (plain, ``npartitions=``,
``divisions=``, ``sorted=True``, ``sort=False``, ``upsample=``, ``drop=False``, ``shuffle_method="tasks"``),
``shuffle``, ``repartition``, ``set_index(..).repartition(..)``, ``set_index(..).loc[a:b]``, an index merge of two
``set_index`` results (both with quantile divisions), ``drop_duplicates`` / ``unique`` with ``split_out``.  Each
result is first looked at the way a user would (``.npartitions``, ``.divisions``, ``.head()``, ``.persist()``,
``.optimize()``, ``repr``, ``.compute()``, ``len``, or not at all) and then checked: npartitions / graph
partition count vs divisions, divisions ascending, every partition inside its interval, dask's documented
cache-free recomputation ``r.clear_divisions().compute_current_divisions()`` (per-partition min / max straight
from the data; raises when partitions are not in index order) inside the reported divisions, and the values
against the same pandas program (sort_values: the key column in pandas' order and the rows as a multiset; the
others as multisets / ordered where dask keeps the order).  None of these oracles reads dask's caches.
Complete sub-space: every ORDERED PAIR of 12 operations on the focus column, for every column shape (quick: 5
shapes, one of two evaluation modes per pair; thorough: 7 shapes x 3 modes), second operation alternately on the
same collection and on an equal-token copy; then seeded random sequences.

Cache discipline: at the START of every sequence case ``divisions_lru`` and ``mem_usages_lru`` are cleared
(``dask.dataframe.dask_expr._shuffle.divisions_lru.clear()``), so that cases are independent of what the shard
ran before and replay alone; NOTHING is cleared between the steps of a case -- state leaking from one step
into the next is what the family observes.  (Expression singletons cannot be cleared; every case uses its own
data, so their names differ.)  Counters ``seq_steps_filling_divisions_cache`` /
``seq_steps_served_from_divisions_cache`` watch the cache itself: if it goes away, the floors fail.

When a step fails, the same step is run ALONE on a copy of the frame with one more column (all expression
names and cache keys differ): failing there too, the finding belongs to the operation and is labelled
``sequence:<op[variant]>:<symptom>`` (or ``optimize:...`` as below); passing there, it is
``sequence:<op>:depends-on-earlier-operations:<symptom>`` and the message lists the earlier operations.

Labels
------
``<step>:<variant>:<view>:<symptom>`` for findings that belong to the step that produced the stage.  When
the partition count (or, for bound violations and exceptions, the known divisions) of some sub-expression
changes when that sub-expression is optimised/lowered on its own, the finding belongs to that rewrite and is
labelled ``optimize:<innermost such sub-expression>[-over-<partition-defining input>]:...`` whichever step
happened to be last.  Exceptions are labelled ``<step>:<phase>:<ExcType@file:function>``.

Calibration
-----------
* DESIGN 6 #23 ("after df.loc[lo:hi] the divisions do not bound the partitions") is re-attributed: the
  divisions of a loc result are truthful for the graph (``to_delayed``); what is wrong is ``.partitions[i]``
  of a loc result (``Partitions`` pushed through ``LocSlice``).  Hence the two views.
* false alarm corrected: ``dd.concat(axis=1)`` with an input of unknown divisions is documented to raise
  ("If any of division is unknown, it raises ValueError"; a TypeError from ``Concat._divisions`` is the same
  usage error) -> only generated when both inputs have known divisions.
* false alarm corrected: ``ddf[ddf.index < v]`` is not dask API (the comparison gives a dask Index, getitem
  treats it as column labels -> KeyError); the filter step uses ``ddf[ddf.index.to_series() < v]``.
* generator restricted: filtering on the index is only generated for frames with known divisions.  After
  ``reset_index`` (unknown divisions) ``r[r.index.to_series() >= v]`` raises AssertionError "Mismatched
  divisions" / IndexingError: an optimiser defect about frames WITHOUT known divisions (C36/C43 subject),
  reported to the lead, not judged here.
* generator restricted: rolling/cum*/shift/diff/ffill steps are not applied over EMPTY partitions (their
  seam behaviour, incl. the exceptions cummax raises there, is C46's subject); ``NotImplementedError``
  ("Partition size is less than overlapping window size") skips the step.
* ``set_index`` is only applied to columns without NA; given divisions always cover min..max of the column;
  ``repartition(divisions=)`` keeps the outer divisions unless ``force=True``; ``loc[[labels]]`` only with
  labels that exist (pandas raises for missing ones).
* generator restricted: merge/join/concat(axis=1) only when both sides have known divisions (index-aligned);
  ``set_index`` of an EMPTY frame only in the ``sorted=True`` form (the others give ``(nan, nan)`` divisions).
* classifier: a finding is attributed to the innermost sub-expression whose KNOWN divisions change when it is
  optimised on its own (a changed partition count shows there too; the count alone is only used with unknown
  divisions).  Witness: set_index -> filter -> cumsum -> merge(how="right") announced 3 partitions, the graph
  had 2; blamed first on the Merge, it is the filter pushed below the quantile set_index.
* nothing is demanded of frames with unknown divisions (``sort=False``, ``reset_index``, ``sort_values``,
  ``clear_divisions``): they are counted (``stages_unknown_divisions``).
* false alarm corrected: the row-dropping ``map_partitions`` function kept ``df.iloc[::2]``.  After a shuffle the
  order of rows with equal index labels differs between two computations of the same graph (disk shuffle,
  ``uuid`` key names), so other rows survived when the next stage was computed than when this stage was
  observed, and a ``set_index(divisions=[min..max of the observed column])`` built from the observation no
  longer covered the data (``set_index:divisions:graph:index-below-division``, thorough tier, about every
  second run of the same case).  The function now drops every second row of the partition in a canonical order.
* family "sequence": ``set_index(col, sorted=True)`` only on a column that IS ascending (anything else is a
  usage error); merges only between two different unique key columns; ``drop_duplicates(subset=[col])`` on a
  column with duplicates is compared by its kept keys only (which of the duplicate rows survives a shuffle is
  not promised); in this family values are compared although C41 states divisions only, because the mirror
  image of a stale ``presorted`` verdict is a skipped sort (right divisions, wrong row order).
* genuine, fixed by fixes_ready/C41_08: ``len(ddf)`` wrote the partition lengths into the operands of the
  FromPandas expression, so expressions derived afterwards got other tokens; quantile divisions cached before
  the ``len`` and recomputed (other sampling seed) after it then disagree
  (``sequence:merge:depends-on-earlier-operations:index-outside-division-interval``).
"""
from __future__ import annotations

import itertools
import random

PROP = "C41"
RULE = ("case = (index kind, rows, from_pandas parameters, 0-4 construction steps with run-time resolved "
        "parameters); the divisions monitor runs on the base frame and after EVERY step, on the graph's partitions "
        "and on ddf.partitions[i].  Complete sub-space first: all sorted indexes of length 1..6 over a 3-value "
        "alphabet (ints; thorough also strings and floats) x from_pandas npartitions 1..4 and chunksize 1..6, each "
        "followed by repartition(npartitions=1..5).  non-trivial = at least one checked stage with known divisions "
        "and >= 2 partitions; distinct = distinct case descriptions.  Family 'sequence': one base frame with key "
        "columns sorted ascending / descending across partitions, reversed, shuffled inside partitions, random, with an "
        "overlap, with duplicates; 2-8 division-computing operations (sort_values asc/desc, set_index in 8 forms, "
        "shuffle, repartition, index merge of two set_index results, drop_duplicates/unique(split_out)) issued one "
        "after another on the same collection or an equal-token copy, each evaluated one of 9 ways and checked "
        "(divisions, partitions, cache-free current divisions, values vs pandas); caches cleared at case start only; "
        "complete sub-space: all ordered pairs of 12 operations per column shape")
ASSUMPTIONS = [
    "pandas defines min/max/ordering of index values; partitions are what to_delayed()/partitions[i] compute",
    "dask.dataframe is imported through the pyarrow import stub (pandas-backed strings)",
]
BUDGET = {"quick": 200, "thorough": 900}
FLOORS = {
    "quick": {"evaluations": 2050, "distinct_nontrivial": 1400,
              "counters": {"stages": 6900, "stages_known_divisions": 5500, "partitions_checked": 11500,
                           "accessor_views": 3400, "known:from_pandas": 1400, "known:repartition": 2100,
                           "known:loc": 270, "known:set_index": 150, "known:align": 150, "known:blockwise": 190,
                           "known:filter": 95, "known:map_partitions": 85, "known:concat0": 70, "known:window": 150,
                           # family "sequence" (measured on seed 0: 1140 / 3179 / 1782 / 3179 / 1750 / 1592 / 1543 / 438)
                           "seq_cases": 510, "seq_steps": 1430, "seq_steps_known_divisions": 800, "known:sequence": 800,
                           "seq_values_compared": 1430, "seq_cache_free_views": 780,
                           "seq_steps_after_different_op_on_same_column": 700,
                           "seq_steps_filling_divisions_cache": 690, "seq_steps_served_from_divisions_cache": 195},
              "sets": {"known_stage_variants": 35, "seq_variant_x_shape": 65}, "max_skipped_fraction": 0.1},
    "thorough": {"evaluations": 13700, "distinct_nontrivial": 9300,
                 "counters": {"stages": 43000, "stages_known_divisions": 32000, "partitions_checked": 80000,
                              "accessor_views": 24000, "known:from_pandas": 9900, "known:repartition": 6500,
                              "known:loc": 2400, "known:set_index": 1200, "known:align": 1000,
                              "known:blockwise": 1700, "known:filter": 850, "known:map_partitions": 700,
                              "known:concat0": 650, "known:window": 1500,
                              # family "sequence" (measured: 6024 / 18954 / 10430 / 18954 / 10235 / 9829 / 9103 / 2802)
                              "seq_cases": 2700, "seq_steps": 8500, "seq_steps_known_divisions": 4700,
                              "known:sequence": 4700, "seq_values_compared": 8500, "seq_cache_free_views": 4600,
                              "seq_steps_after_different_op_on_same_column": 4400,
                              "seq_steps_filling_divisions_cache": 4100, "seq_steps_served_from_divisions_cache": 1250},
                 "sets": {"known_stage_variants": 30, "seq_variant_x_shape": 65}, "max_skipped_fraction": 0.1},
}
EXHAUSTIVE_SPACE = {
    "quick": "all 83 sorted int indexes of length 1..6 over a 3-value alphabet x from_pandas(npartitions 1..4, "
             "chunksize 1..6) x {base, repartition(npartitions=1..5)}; all 144 ordered pairs of 12 division-computing "
             "operations on one base frame x 5 key-column shapes",
    "thorough": "all 83 sorted indexes of length 1..6 over a 3-value alphabet (int, str and float values) x "
                "from_pandas(npartitions 1..4, chunksize 1..6) x {base, repartition(npartitions=1..5)}; all 144 ordered "
                "pairs of 12 division-computing operations on one base frame x 7 key-column shapes x 3 evaluation modes",
}
CLAIM = ("On every frame produced by the generated pipelines (and on every intermediate stage) that reported known "
         "divisions, the partitions computed from the graph and through .partitions[i] were compared with the "
         "reported divisions and partition count; and every result of the operation sequences issued on one base "
         "frame in one process (state of dask's divisions cache carried from step to step) had ascending divisions "
         "bounding its partitions and the values of the same pandas program.  Held means: no untruthful divisions "
         "among the stages observed; stages with unknown divisions are counted, not judged.")
LEVEL_NOTE = "trusts pandas ordering/min/max of index values and the sync scheduler"
TECHNIQUE = ("runtime monitoring: divisions post-condition (npartitions, per-partition index bounds) on every stage of "
             "random construction pipelines, two partition views, complete small space + random")
CASE_TIMEOUT = 120
PENDING = {   # labels listed in known_findings.d/C41.json (everything else was fixed by fixes_ready/C41_*.patch)
    "optimize:Filter-over-SetIndex[quantiles]:reported-divisions-not-those-of-the-graph":
        "a filter applied after set_index(col) (no divisions given) is pushed below the set_index; the quantile divisions are then recomputed from the filtered data, so ",
    "filter:compute:ValueError@dataframe/dask_expr/_repartition.py:_layer":
        "set_index(col).repartition(divisions=d)[predicate] raises 'right/left side of old and new divisions are different'",
    "optimize:SetIndex[quantiles]:reported-divisions-not-those-of-the-graph":
        "ddf.sort_values('a').set_index('t'): the reported divisions differ from the divisions the lowered graph is built with, so some partitions hold index values outs",
    "set_index:divisions-attribute:RuntimeError@_expr.py:__getattr__":
        "rolling(...).sum().join(other, how='right').set_index(col): reading .divisions raises 'Failed to generate metadata for Merge' ('Series' object has no attribute ",
    "loc:compute:ValueError@dataframe/indexing.py:_partition_of_index_value":
        "sort_values(presorted).repartition(npartitions=more).loc[a:b]: 'Cannot use loc on DataFrame without known divisions' (rare)",
}

INDEX_KINDS = ("range", "sorted", "dups", "dups", "unsorted", "datetime", "strings", "float")
STEP_KINDS = ("loc", "loc", "loc", "repartition", "repartition", "repartition", "set_index", "set_index",
              "filter", "blockwise", "blockwise", "align", "align", "concat0", "map_partitions", "reset_index",
              "sort_values", "window", "window")


# ----------------------------------------------------------------------------- cases
def cases(tier, seed):
    rng = random.Random(seed * 99991 + 41)
    vals = ("int",) if tier == "quick" else ("int", "str", "float")
    for vt in vals:
        for ln in range(1, 7):
            for comb in itertools.combinations_with_replacement(range(3), ln):
                for how, ks in (("npartitions", range(1, 5)), ("chunksize", range(1, 7))):
                    for k in ks:
                        yield {"space": "exhaustive", "letters": "".join(map(str, comb)), "vals": vt,
                               "how": how, "k": k}
    yield from _seq_cases(tier, seed)
    n = 2600 if tier == "quick" else 22000
    for _ in range(n):
        nsteps = rng.choice((1, 1, 2, 2, 3, 4))
        nrows = rng.choice((0, 1, 2, 3, 5, 8, 12, 20, 30, rng.randint(1, 40)))
        yield {"index": rng.choice(INDEX_KINDS), "nrows": nrows, "fseed": rng.randrange(2 ** 31),
               "base": {"how": rng.choice(("npartitions", "npartitions", "chunksize")),
                        "k": rng.choice((1, 2, 3, 4, 5, 7, rng.randint(1, max(1, nrows + 2)))),
                        "sort": rng.random() < 0.85},
               "steps": [{"op": rng.choice(STEP_KINDS), "r": rng.randrange(2 ** 31)} for _ in range(nsteps)]}


# ----------------------------------------------------------------------------- helpers
class _Skip(Exception):
    """step not applicable to the current frame (generator side, not dask)"""


def shard_setup(tier, seed):
    from vf.gen import frames

    frames.setup()
    import dask

    dask.config.set(scheduler="sync")
    _private_tmp()


def _frame(case):
    import numpy as np
    import pandas as pd
    from vf.gen import frames

    pdf = frames.rand_frame(case["fseed"], nrows=case["nrows"], index=case["index"], cols=("a", "b", "c", "d"))
    r = np.random.default_rng(case["fseed"] ^ 0x41)
    n = len(pdf)
    pdf["s"] = np.sort(r.integers(0, max(2, n // 2 + 1), n)).astype("int64")          # sorted, duplicates
    pdf["u"] = r.permutation(n).astype("int64") * 2                                  # unsorted unique
    pdf["f"] = np.round(r.integers(0, max(2, n), n) / 2.0, 1)                          # unsorted float, duplicates
    pdf["t"] = pd.to_datetime("2022-05-01") + pd.to_timedelta(r.integers(0, 3 * n + 1, n), unit="min")
    return pdf


def _ikind(index):
    import pandas as pd

    if isinstance(index, pd.DatetimeIndex):
        return "datetime"
    s = str(index.dtype)
    if s.startswith("int") or s.startswith("uint"):
        return "int"
    if s.startswith("float"):
        return "float"
    if s in ("object", "str", "string"):
        return "str"
    return "other"


def _icls(kind):
    """index class as far as repartition(npartitions) is concerned: numeric/datetime divisions are interpolated"""
    return "numeric-or-datetime" if kind in ("int", "float", "datetime") else "other"


def _nudge(v, kind, up):
    """a value just above / below v in the order of the index kind"""
    import pandas as pd

    if kind == "int":
        return int(v) + (1 if up else -1)
    if kind == "float":
        return round(float(v) + (0.05 if up else -0.05), 3)
    if kind == "datetime":
        return pd.Timestamp(v) + pd.Timedelta(seconds=30 if up else -30)
    if kind == "str":
        v = str(v)
        if up:
            return v + "0"
        return (v[:-1] + chr(ord(v[-1]) - 1) + "~") if v and ord(v[-1]) > 33 else ""
    raise _Skip("index kind")


def _plain(v):
    import numpy as np

    if isinstance(v, np.generic):
        return v.item()
    return v


def _point(rng, cur, divisions, kind):
    """a label position: (value, relation) chosen among division values, index values, neighbours, outside"""
    cands = []
    if divisions and divisions[0] is not None:
        for d in divisions:
            cands += [(d, "at-division"), (_nudge(d, kind, True), "above-division"), (_nudge(d, kind, False), "below-division")]
    idx = cur.index
    if len(idx):
        lo, hi = idx.min(), idx.max()
        for _ in range(3):
            v = idx[rng.randrange(len(idx))]
            cands += [(v, "at-value"), (_nudge(v, kind, True), "near-value"), (_nudge(v, kind, False), "near-value")]
        cands += [(_nudge(_nudge(lo, kind, False), kind, False), "below-range"),
                  (_nudge(_nudge(hi, kind, True), kind, True), "above-range")]
    if not cands:
        raise _Skip("no label candidates")
    v, rel = cands[rng.randrange(len(cands))]
    return _plain(v), rel


def _mp_add(df):
    df = df.copy()
    df["mp"] = 1
    return df


def _mp_drop_rows(df):
    """drops every second row -- of the partition's rows in a canonical order: the order of rows with EQUAL index
    labels after a shuffle is not defined (it changes from one computation of the same graph to the next), and
    the steps after this one are built from what the stage held when it was observed"""
    try:
        by = list(df.columns) if hasattr(df, "columns") else None
        canon = df.sort_values(by) if by is not None else df.sort_values()
        canon = canon.sort_index(kind="stable")
    except Exception:  # noqa: BLE001
        canon = df
    return canon.iloc[::2]


def _mp_ident(df):
    return df


# ----------------------------------------------------------------------------- steps
def _apply(step, ddf, cur, rng, gparts=()):
    """-> (new collection, variant string).  Raises _Skip when the step does not apply."""
    import numpy as np
    import pandas as pd
    import dask.dataframe as dd

    op = step["op"]
    is_frame = isinstance(cur, pd.DataFrame)
    kind = _ikind(cur.index)
    known = bool(ddf.known_divisions)
    divs = ddf.divisions if known else None
    cols = list(cur.columns) if is_frame else []
    num = [c for c in cols if c in ("a", "c", "d", "s", "u", "f", "z", "mp", "q")]
    mono = bool(cur.index.is_monotonic_increasing)

    if op == "loc":
        if kind == "other" or not mono or not len(cur):
            raise _Skip("loc needs a sorted index")
        form = rng.choice(("both", "both", "lo", "hi", "list", "label"))
        if form in ("both", "lo", "hi"):
            (a, ra), (b, rb) = _point(rng, cur, divs, kind), _point(rng, cur, divs, kind)
            if form == "both":
                if b < a:
                    a, b, ra, rb = b, a, rb, ra
                return ddf.loc[a:b], "slice"
            if form == "lo":
                return ddf.loc[a:], "slice"
            return ddf.loc[:b], "slice"
        if not known:
            raise _Skip("list/label loc needs known divisions")
        labels = [_plain(v) for v in pd.unique(cur.index)]
        if form == "label":
            return ddf.loc[labels[rng.randrange(len(labels))]], "label"
        k = rng.randint(1, min(5, len(labels)))
        pick = rng.sample(labels, k)
        if rng.random() < 0.5:
            pick.sort()
            return ddf.loc[pick], "list"
        return ddf.loc[pick], "list"

    if op == "repartition":
        form = rng.choice(("npartitions", "npartitions", "npartitions", "divisions", "divisions", "force", "freq"))
        if form == "npartitions":
            k = rng.choice((1, 2, 3, ddf.npartitions + 1, 2 * ddf.npartitions, len(cur) + 1, len(cur) + 3,
                            rng.randint(1, 12)))
            k = max(1, k)
            rel = "fewer" if k < ddf.npartitions else ("same" if k == ddf.npartitions else "more")
            return ddf.repartition(npartitions=k), "npartitions:%s:%s-index" % (rel, _icls(kind))
        if not known or kind == "other":
            raise _Skip("repartition(divisions/freq) needs known divisions")
        if form == "freq":
            if kind != "datetime":
                raise _Skip("freq needs datetime index")
            return ddf.repartition(freq=rng.choice(("5min", "17min", "1h", "1D"))), "freq"
        lo, hi = divs[0], divs[-1]
        if form == "force":
            lo = _nudge(lo, kind, False) if rng.random() < 0.7 else lo
            hi = _nudge(hi, kind, True) if rng.random() < 0.7 else hi
        inner = set()
        for _ in range(rng.randint(0, 5)):
            v, _rel = _point(rng, cur, divs, kind)
            if lo < v < hi:
                inner.add(v)
        new = [lo] + sorted(inner) + [hi]
        if len(new) == 2 and lo == hi:
            new = [lo, hi]
        if form == "force":
            return ddf.repartition(divisions=new, force=True), "divisions-force"
        return ddf.repartition(divisions=new), "divisions"

    if op == "set_index":
        if not is_frame:
            raise _Skip("series")
        form = rng.choice(("plain", "plain", "npartitions", "divisions", "sorted", "sort-false"))
        if not len(cur) and form != "sorted":
            # quantile divisions of an empty frame are (nan, nan): nothing to be truthful about
            raise _Skip("set_index of an empty frame")
        if form == "sorted":
            if "s" not in cols:
                raise _Skip("no sorted column left")
            if not bool(cur["s"].is_monotonic_increasing):
                raise _Skip("column s is not sorted any more")
            return ddf.set_index("s", sorted=True), "sorted=True"
        avail = [c for c in ("u", "f", "b", "t", "a", "s") if c in cols and c != cur.index.name]
        if not avail:
            raise _Skip("no column")
        col = avail[rng.randrange(len(avail))]
        ck = {"u": "int", "a": "int", "s": "int", "f": "float", "b": "str", "t": "datetime"}[col]
        if cur[col].isna().any():
            raise _Skip("NA in new index")
        if form == "sort-false":
            return ddf.set_index(col, sort=False), "sort=False"
        if form == "plain":
            return ddf.set_index(col, drop=rng.random() < 0.8), "plain"
        if form == "npartitions":
            return ddf.set_index(col, npartitions=rng.randint(1, 6)), "npartitions"
        if not len(cur):
            raise _Skip("no data for divisions")
        uniq = sorted(_plain(v) for v in pd.unique(cur[col]))
        lo, hi = uniq[0], uniq[-1]
        if col == "t":
            lo, hi = pd.Timestamp(lo), pd.Timestamp(hi)
            uniq = [pd.Timestamp(v) for v in uniq]
        inner = sorted(set(rng.sample(uniq, min(len(uniq), rng.randint(0, 4)))) - {lo, hi})
        if rng.random() < 0.4:
            lo, hi = _nudge(lo, ck, False), _nudge(hi, ck, True)
        return ddf.set_index(col, divisions=[lo] + inner + [hi]), "divisions"

    if op == "filter":
        form = rng.choice(("column", "index", "notnull"))
        if not is_frame:
            if form == "index" and len(cur) and kind != "other" and known:
                v, _ = _point(rng, cur, divs, kind)
                return ddf[ddf.index.to_series() >= v], "index"
            return ddf[ddf.notnull()], "notnull"
        if form == "column" and "a" in cols:
            return ddf[ddf["a"] > rng.randint(-1, 3)], "column"
        if form == "index" and len(cur) and kind != "other" and known:
            v, _ = _point(rng, cur, divs, kind)
            ser = ddf.index.to_series()
            return (ddf[ser < v] if rng.random() < 0.5 else ddf[ser >= v]), "index"
        if "c" in cols:
            return ddf[ddf["c"].notnull()], "notnull"
        raise _Skip("no column to filter on")

    if op == "blockwise":
        form = rng.choice(("assign", "arith", "fillna", "astype", "project", "series", "abs"))
        if not is_frame:
            if form == "fillna":
                return ddf.fillna(0), "fillna"
            if form == "astype" and str(cur.dtype).startswith(("int", "float")) and not cur.isna().any():
                return ddf.astype("float64"), "astype"
            if str(cur.dtype).startswith(("int", "float")):
                return ddf * 2 + 1, "arith"
            return ddf.to_frame(), "to_frame"
        if form == "assign" and num:
            return ddf.assign(q=ddf[num[0]] * 2 + 1), "assign"
        if form == "arith" and num:
            return ddf[num] * 2 - 1, "arith"
        if form == "fillna":
            return ddf.fillna({"c": 0.0} if "c" in cols else 0), "fillna"
        if form == "astype" and "a" in cols:
            return ddf.astype({"a": "float64"}), "astype"
        if form == "series" and cols:
            return ddf[cols[rng.randrange(len(cols))]], "series"
        if form == "abs" and num:
            return ddf[num].abs(), "abs"
        if cols:
            k = rng.randint(1, len(cols))
            return ddf[cols[:k]], "project"
        raise _Skip("no columns")

    if op == "align":
        if not is_frame or not len(cur) or kind == "other":
            raise _Skip("align needs a frame")
        src = num[0] if num else None
        if src is None:
            raise _Skip("no numeric column")
        other = cur[[src]].rename(columns={src: "z%d" % rng.randint(0, 9)})
        if any(c in cols for c in other.columns):
            raise _Skip("column clash")
        if rng.random() < 0.6 and len(other) > 1:
            keep = sorted(rng.sample(range(len(other)), rng.randint(1, len(other))))
            other = other.iloc[keep]
        if len(cur) > 25 and cur.index.has_duplicates:
            raise _Skip("row blow-up")
        omono = bool(other.index.is_monotonic_increasing)
        dother = dd.from_pandas(other, npartitions=rng.randint(1, 4), sort=omono)
        how = rng.choice(("inner", "left", "outer", "right"))
        form = rng.choice(("merge", "join", "concat1"))
        if not (known and dother.known_divisions):
            # without known divisions merge/join are hash joins (C39's subject) and concat(axis=1) is
            # documented to raise: the quantifier names INDEX-ALIGNED merges
            raise _Skip("index-aligned merge needs known divisions on both sides")
        if form == "merge":
            return ddf.merge(dother, left_index=True, right_index=True, how=how), "merge:%s" % how
        if form == "join":
            return ddf.join(dother, how=how), "join:%s" % how
        if cur.index.has_duplicates:
            raise _Skip("concat axis=1 with duplicate labels")
        j = "inner" if how == "inner" else "outer"
        return dd.concat([ddf, dother], axis=1, join=j), "concat-axis1:%s" % j

    if op == "concat0":
        if not is_frame or not len(cur) or kind == "other" or not mono:
            raise _Skip("concat needs sorted frame")
        other = cur.copy()
        form = rng.choice(("after", "after", "touching", "overlap"))
        if form in ("after", "touching"):
            # shift labels beyond the current maximum (touching: first new label == current max)
            hi = cur.index.max()
            if kind == "int":
                delta = int(hi - cur.index.min()) + (0 if form == "touching" else 1)
                other.index = cur.index + delta
            elif kind == "float":
                delta = float(hi - cur.index.min()) + (0.0 if form == "touching" else 0.5)
                other.index = cur.index + delta
            elif kind == "datetime":
                delta = (hi - cur.index.min()) + pd.Timedelta(minutes=0 if form == "touching" else 1)
                other.index = cur.index + delta
            else:
                if form == "touching":
                    raise _Skip("strings")
                other.index = pd.Index([str(hi) + "+" + str(v) for v in cur.index], name=cur.index.name,
                                       dtype=cur.index.dtype)
            dother = dd.from_pandas(other, npartitions=rng.randint(1, 4))
            il = rng.random() < 0.4
            return dd.concat([ddf, dother], axis=0, interleave_partitions=il), "axis0:%s:%s%s" % (
                form, "interleave" if il else "ordered", "" if known else ":unknown")
        keep = sorted(rng.sample(range(len(other)), rng.randint(1, len(other))))
        dother = dd.from_pandas(other.iloc[keep], npartitions=rng.randint(1, 4))
        return dd.concat([ddf, dother], axis=0, interleave_partitions=True), "axis0:overlap:interleave%s" % (
            "" if known else ":unknown")

    if op == "map_partitions":
        form = rng.choice(("default", "clear", "no-enforce", "drop-rows", "meta"))
        if form == "default":
            return ddf.map_partitions(_mp_ident), "default"
        if form == "clear":
            return ddf.map_partitions(_mp_ident, clear_divisions=True), "clear_divisions"
        if form == "no-enforce":
            return ddf.map_partitions(_mp_ident, enforce_metadata=False), "enforce_metadata=False"
        if form == "drop-rows":
            return ddf.map_partitions(_mp_drop_rows), "drop-rows"
        if not is_frame or "mp" in cols:
            return ddf.map_partitions(_mp_ident, meta=ddf._meta), "meta"
        return ddf.map_partitions(_mp_add, meta=_mp_add(ddf._meta)), "meta"

    if op == "reset_index":
        if is_frame and (cur.index.name in cols or (cur.index.name is None and "index" in cols)):
            return ddf.reset_index(drop=True), "drop"
        return ddf.reset_index(drop=rng.random() < 0.5), "reset"

    if op == "sort_values":
        if not is_frame:
            raise _Skip("series")
        avail = [c for c in ("a", "u", "f", "d") if c in cols and c != cur.index.name]
        if not avail:
            raise _Skip("no column")
        return ddf.sort_values(avail[rng.randrange(len(avail))]), "sort_values"

    if op == "window":
        # (no cummin/cummax: they fail on one-column frames, which projection push-down creates -- C46's subject)
        form = rng.choice(("rolling", "cumsum", "cumsum", "shift", "shift-neg", "diff", "ffill"))
        if any(len(p) == 0 for p in gparts):
            raise _Skip("window/cumulative ops over empty partitions are C46's subject")
        tgt = ddf
        if is_frame:
            if not num:
                raise _Skip("no numeric columns")
            tgt = ddf[num]
        elif not str(cur.dtype).startswith(("int", "float")):
            raise _Skip("non-numeric series")
        if form == "rolling":
            if not known and ddf.npartitions > 1:
                raise _Skip("rolling needs known divisions")
            return tgt.rolling(rng.choice((1, 2, 3)), min_periods=1).sum(), "rolling"
        if form in ("cumsum", "cummax") and is_frame and len(num) < 2:
            raise _Skip("cumulative ops on one-column frames are C46's subject")
        if form == "cumsum":
            return tgt.cumsum(), "cumsum"
        if form == "cummax":
            return tgt.cummax(), "cummax"
        if form == "shift":
            return tgt.shift(1), "shift"
        if form == "shift-neg":
            return tgt.shift(-1), "shift"
        if form == "diff":
            return tgt.diff(1), "diff"
        return tgt.ffill(limit=1), "ffill"

    raise _Skip("unknown op " + op)


# ----------------------------------------------------------------------------- the monitor on one stage
class _Stop(Exception):
    pass


def _observe(ctx, ddf, stage, state):
    """Runs the monitor on one stage.  Returns (concatenated pandas value of the stage, graph partitions).
    stage: label prefix '<op>:<variant>'."""
    import dask
    import pandas as pd
    from vf.gen import frames

    ctx.count("stages")
    try:
        known = bool(ddf.known_divisions)
        divs = ddf.divisions
        npart = ddf.npartitions
    except NotImplementedError as e:
        ctx.count("unsupported_steps")
        raise _Skip("unsupported: %s" % e)
    except Exception as e:  # noqa: BLE001
        _exception(ctx, e, ddf, stage, "divisions-attribute", state)
        raise _Stop()
    try:
        gparts = list(dask.compute(*ddf.to_delayed(), scheduler="sync"))
    except NotImplementedError as e:
        ctx.count("unsupported_steps")
        raise _Skip("unsupported: %s" % e)
    except Exception as e:  # noqa: BLE001
        _exception(ctx, e, ddf, stage, "compute", state, divisions=[repr(d) for d in divs][:12])
        raise _Stop()
    if not all(isinstance(p, (pd.DataFrame, pd.Series)) for p in gparts):
        raise _Skip("not a frame")
    cur = pd.concat(gparts) if gparts else ddf._meta
    if not known:
        ctx.count("stages_unknown_divisions")
        ctx.op("unknown-after:" + stage.split(":")[0])
        return cur, gparts
    ctx.count("stages_known_divisions")
    ctx.count("known:" + stage.split(":")[0])
    ctx.op("known-after:" + stage.split(":")[0])
    ctx.distinct("known_stage_variants", stage)
    if npart >= 2:
        state["nontrivial"] = True
    ctx.count("partitions_checked", len(gparts))
    shown = [repr(d) for d in divs][:14]
    pshow = [[repr(x) for x in p.index[:8]] for p in gparts][:10]
    # ---- graph view
    if npart != len(divs) - 1:
        ctx.violation("%s:graph:npartitions-vs-divisions" % stage,
                      "npartitions=%d but len(divisions)-1=%d (graph has %d partitions)" % (npart, len(divs) - 1, len(gparts)),
                      divisions=shown, parts=pshow, **state)
        raise _Stop()
    if len(gparts) != len(divs) - 1:
        ctx.violation(_glabel(_where(ddf, stage, True), "partition-count-vs-divisions"),
                      "graph has %d partitions, divisions %s announce %d (stage %s)"
                      % (len(gparts), shown, len(divs) - 1, stage), stage=stage, divisions=shown, parts=pshow, **state)
        raise _Stop()
    v = _bounds(divs, gparts)
    if v:
        ctx.violation(_glabel(_where(ddf, stage, False), v[0]), v[1], stage=stage, divisions=shown,
                      parts=pshow, **state)
        raise _Stop()
    # ---- accessor view (the shared monitor; computes ddf.partitions[i])
    if state.get("accessor_tainted"):
        return cur, gparts
    ctx.count("accessor_views")
    try:
        v = frames.divisions_violation(ddf)
    except NotImplementedError:
        return cur, gparts
    except Exception as e:  # noqa: BLE001
        from vf.core.ctx import through_shim

        if through_shim(e):
            ctx.envlimited("%s: %s" % (type(e).__name__, e))
        else:
            # Partitions pushed through an expression that does not keep partition numbers fails in many
            # ways (KeyError / IndexError in different places): one label per step kind
            w = _where(ddf, stage, True)
            ctx.violation(_glabel(w, "") if w.startswith("optimize:") else
                          "%s:partitions-accessor:exception" % stage.split(":")[0],
                          "%s: %s (partitions accessor)" % (type(e).__name__, str(e)[:300]), stage=stage,
                          divisions=shown, **state)
        state["accessor_tainted"] = True
        return cur, gparts
    if v:
        sym = "index-outside-division-interval" if v[0] in ("index-below-division", "index-above-division") else v[0]
        w = _where(ddf, stage, True)
        ctx.violation(_glabel(w, "") if w.startswith("optimize:") else "%s:partitions-accessor:%s" % (stage, sym),
                      v[1] + " (partitions accessor)", stage=stage, divisions=shown, graph_parts=pshow, **state)
        state["accessor_tainted"] = True
    return cur, gparts


def _glabel(where, symptom):
    """graph-view label.  Findings attributed to a rewrite ('optimize:...') get ONE symptom: the rewritten
    graph has another partitioning than the one reported, whether that shows as a partition count, as index
    values outside their interval or as an exception in a consumer that trusted the reported divisions (the
    message says which)."""
    if where.startswith("optimize:"):
        return where + ":reported-divisions-not-those-of-the-graph"
    return "%s:graph:%s" % (where, symptom)


def _exception(ctx, e, ddf, stage, phase, state, **detail):
    """A dask exception while looking at a stage.  When some sub-expression reports known divisions that its
    lowered form does not have, every downstream consumer fails in its own way: one mechanism, one label."""
    from vf.core.ctx import through_shim

    w = _where(ddf, stage, False)
    if w != stage and not through_shim(e):
        ctx.violation(_glabel(w, "exception-downstream"),
                      "%s: %s (stage %s, %s)" % (type(e).__name__, str(e)[:300], stage, phase), stage=stage,
                      **dict(state, **detail))
        return
    ctx.exception(e, prefix="%s:%s" % (stage.split(":")[0], phase), stage=stage, **dict(state, **detail))


_DEFINERS = {"SetIndex", "Concat", "Repartition", "Merge", "JoinRecursive", "FromPandas", "LocSlice", "LocList",
             "LocElement", "SortValues", "ResetIndex", "SetIndexBlockwise", "FromMap", "RepartitionDivisions",
             "RepartitionToFewer", "RepartitionToMore", "RepartitionFreq", "MapPartitions", "MapOverlap"}


def _desc(e):
    name = type(e).__name__
    try:
        if name == "Concat":
            return "Concat[axis=%s]" % e.axis
        if name == "Repartition":
            return "Repartition[%s]" % ("npartitions" if e.operand("new_partitions") is not None else
                                        "divisions" if e.operand("new_divisions") is not None else "other")
        if name == "SetIndex":
            return "SetIndex[%s]" % ("divisions" if e.operand("user_divisions") is not None else "quantiles")
    except Exception:  # noqa: BLE001
        pass
    return name


def _where(ddf, stage, by_count):
    """Mechanism attribution for graph-view findings.  When the optimiser/lowering changes the partitioning
    that some sub-expression reports, the finding belongs to that rewrite and not to the step that happened to
    be the last one: return 'optimize:<innermost such sub-expression>[-over-<partition-defining input>]'.
    A sub-expression is affected when its known divisions change (by_count: or, with unknown divisions, its
    partition count).  Falls back to the stage label when no sub-expression is affected."""
    seen = set()

    def differs(e):
        o = e.optimize(fuse=False)
        d = e.divisions
        if d[0] is not None and tuple(o.divisions) != tuple(d):
            return True                      # a changed partition count shows here as well
        return by_count and o.npartitions != e.npartitions

    def walk(e):
        for d in e.dependencies():
            r = walk(d)
            if r is not None:
                return r
        if e._name in seen:
            return None
        seen.add(e._name)
        try:
            if differs(e):
                return e
        except Exception:  # noqa: BLE001
            return None
        return None

    try:
        e = walk(ddf.expr)
        if e is None:
            return stage
        top = _desc(e)
        descs = {_desc(x) for x in e.walk()}
        if top == "Projection" and "Concat[axis=1]" in descs:
            # the rewrite by which a projection changes a partitioning: Concat(axis=1)._simplify_up drops the
            # inputs none of whose columns are selected
            return "optimize:Projection-over-Concat[axis=1]"
        if top == "Filter" and "SetIndex[quantiles]" in descs:
            # a filter pushed below set_index changes the quantile divisions (also through a Repartition)
            return "optimize:Filter-over-SetIndex[quantiles]"
        n = 0
        while type(e).__name__ not in _DEFINERS and hasattr(e, "frame") and n < 8:
            try:
                e = e.frame
            except Exception:  # noqa: BLE001
                break
            if not hasattr(e, "dependencies"):
                break
            n += 1
        return "optimize:" + (top if n == 0 else "%s-over-%s" % (top, _desc(e)))
    except Exception:  # noqa: BLE001
        return stage


def _bounds(div, parts):
    """same rule as frames.divisions_violation on already computed partitions (+ NaN-safe message)"""
    from vf.gen import frames

    class _Fake:
        known_divisions = True

        def __init__(self, d, n):
            self.divisions, self.npartitions = d, n

    return frames.divisions_violation(_Fake(tuple(div), len(parts)), parts=parts)


# ----------------------------------------------------------------------------- run
def _run_exhaustive(case, ctx):
    import pandas as pd
    import dask.dataframe as dd

    letters = [int(c) for c in case["letters"]]
    vt = case["vals"]
    vals = {"int": [0, 1, 2], "str": ["a", "b", "c"], "float": [0.5, 1.0, 2.5]}[vt]
    idx = [vals[i] for i in letters]
    pdf = pd.DataFrame({"a": range(len(idx))}, index=pd.Index(idx, name="i"))
    state = {"index": idx, "from_pandas": {case["how"]: case["k"]}}
    dups = len(set(idx)) < len(idx)
    ctx.op("exhaustive:" + vt)
    base_stage = "from_pandas:%s:%s-index" % (case["how"], "dups" if dups else "unique")
    try:
        ddf = dd.from_pandas(pdf, **{case["how"]: case["k"]})
    except Exception as e:  # noqa: BLE001
        ctx.exception(e, prefix=base_stage, **state)
        return
    st = dict(state)
    try:
        _observe(ctx, ddf, base_stage, st)
    except (_Stop, _Skip):
        ctx.nontrivial = bool(st.get("nontrivial"))
        return
    for k in range(1, 6):
        rel = "fewer" if k < ddf.npartitions else ("same" if k == ddf.npartitions else "more")
        stage = "repartition:npartitions:%s:%s-index" % (rel, _icls(vt))
        st2 = dict(state, repartition=k, accessor_tainted=st.get("accessor_tainted", False))
        ctx.op("repartition")
        try:
            r = ddf.repartition(npartitions=k)
        except Exception as e:  # noqa: BLE001
            ctx.exception(e, prefix=stage, **st2)
            continue
        try:
            _observe(ctx, r, stage, st2)
        except (_Stop, _Skip):
            pass
        if st2.get("nontrivial"):
            st["nontrivial"] = True
    ctx.nontrivial = bool(st.get("nontrivial"))
    ctx.sample = {"index": idx, "from_pandas": state["from_pandas"], "divisions": [repr(d) for d in ddf.divisions]}


def run_case(case, ctx):
    from vf.gen import frames

    dd = frames.setup()
    import dask

    dask.config.set(scheduler="sync")
    import warnings

    with warnings.catch_warnings():
        warnings.simplefilter("ignore")
        if case.get("family") == "sequence":
            return _run_sequence(case, ctx, dd)
        if case.get("space") == "exhaustive":
            return _run_exhaustive(case, ctx)
        return _run_random(case, ctx, dd)


def _run_random(case, ctx, dd):
    pdf = _frame(case)
    base = case["base"]
    mono = bool(pdf.index.is_monotonic_increasing)
    state = {"index_kind": case["index"], "rows": len(pdf), "pipeline": []}
    kw = {base["how"]: max(1, base["k"])}
    if not base["sort"]:
        kw["sort"] = False
    stage = "from_pandas:%s%s:%s-index%s" % (base["how"], "" if base["sort"] else "&sort=False",
                                             "dups" if pdf.index.has_duplicates else "unique",
                                             "" if mono or not base["sort"] else "&sorts")
    state["pipeline"].append("from_pandas(%r)" % (kw,))
    ctx.op("from_pandas:" + case["index"])
    try:
        ddf = dd.from_pandas(pdf, **kw)
    except Exception as e:  # noqa: BLE001
        ctx.exception(e, prefix=stage, **state)
        return
    trail = []
    try:
        cur, gparts = _observe(ctx, ddf, stage, state)
        for step in case["steps"]:
            rng = random.Random(step["r"])
            try:
                new, variant = _apply(step, ddf, cur, rng, gparts)
            except _Skip as s:
                ctx.count("steps_not_applicable")
                continue
            except NotImplementedError:
                ctx.count("unsupported_steps")
                continue
            except Exception as e:  # noqa: BLE001
                from vf.core.ctx import dask_frame

                if dask_frame(e) is None:
                    # raised by the generator's own pandas manipulation: not a dask observation
                    ctx.count("steps_not_applicable")
                    continue
                ctx.exception(e, prefix="%s:construct" % step["op"], **state)
                break
            stage = "%s:%s" % (step["op"], variant)
            ctx.op(step["op"])
            state["pipeline"].append(stage)
            try:
                cur, gparts = _observe(ctx, new, stage, state)
            except _Skip:
                state["pipeline"].pop()
                continue
            ddf = new
            trail.append(stage)
    except _Stop:
        pass
    except _Skip:
        pass
    ctx.nontrivial = bool(state.get("nontrivial"))
    ctx.sample = {"pipeline": state["pipeline"], "final_divisions": _safe_divs(ddf)}


def _safe_divs(ddf):
    try:
        return [repr(d) for d in ddf.divisions][:10]
    except Exception:  # noqa: BLE001
        return None


# =============================================================================================
# family "sequence": several division-computing operations on ONE base frame in ONE process
# =============================================================================================
# dask keeps per-process state between operations (the module-level ``divisions_lru`` of
# dask_expr/_shuffle.py: quantile divisions, per-partition mins/maxes and the ``presorted`` verdict of a
# (column expression, npartitions, ascending, upsample) request; ``mem_usages_lru`` of _repartition.py;
# expression singletons with cached properties).  A single pipeline on a fresh frame never sees that state
# being wrong.  This family issues several operations one after another on the SAME base collection (and on
# equal-token rebuilt copies) and checks every result.
SEQ_SHAPES = ("asc", "desc", "ascblk", "descblk", "rand", "overlap", "dups")
SEQ_EVALS = ("npartitions", "divisions", "head", "persist", "optimize", "repr", "compute", "len", "none")
SEQ_KDTYPES = ("int", "int", "float", "datetime", "str")
# the operations of the complete ordered-pair space ("@" = the focus column of the case)
PAIR_OPS = (
    {"op": "sort_values", "col": "@", "asc": True, "np": None},
    {"op": "sort_values", "col": "@", "asc": False, "np": None},
    {"op": "set_index", "form": "plain", "col": "@", "np": None},
    {"op": "set_index", "form": "npartitions", "col": "@", "np": "same"},
    {"op": "set_index", "form": "npartitions", "col": "@", "np": "fewer"},
    {"op": "set_index", "form": "divisions", "col": "@", "np": None},
    {"op": "set_index", "form": "sorted", "col": "@", "np": None},
    {"op": "shuffle", "col": "@", "np": None},
    {"op": "unique", "col": "@", "np": 2},
    {"op": "drop_duplicates", "col": "@", "np": 2},
    {"op": "merge", "col": "@", "col2": "rand", "how": "inner"},
    {"op": "set_index_repartition", "col": "@", "np": "more"},
)


def _seq_cases(tier, seed):
    rng = random.Random(seed * 7919 + 4141)
    # complete sub-space: every ordered pair of PAIR_OPS on the focus column of every shape
    evs = ("npartitions", "head") if tier == "quick" else ("npartitions", "head", "persist")
    for shape in (("asc", "desc", "descblk", "rand", "dups") if tier == "quick" else SEQ_SHAPES):
        for i, a in enumerate(PAIR_OPS):
            for j, b in enumerate(PAIR_OPS):
                for e, ev in enumerate(evs):
                    if tier == "quick" and (i + j) % len(evs) != e:
                        continue          # quick: one evaluation mode per pair (alternating), thorough: all
                    yield {"space": "exhaustive", "family": "sequence", "nrows": 12, "npart": 3, "kdtype": "int",
                           "index": "range", "focus": shape,
                           "steps": [dict(a, ev=ev, on="base"), dict(b, ev="divisions", on="base" if (i + j) % 2 else "copy")]}
    n = 420 if tier == "quick" else 3000
    for _ in range(n):
        nrows = rng.choice((6, 9, 12, 12, 16, 20, 30, rng.randint(4, 40)))
        npart = rng.choice((2, 3, 3, 4, 5))
        focus = rng.choice(SEQ_SHAPES)
        steps = []
        for _s in range(rng.choice((2, 3, 4, 5, 6, 8))):
            col = focus if rng.random() < 0.75 else rng.choice(SEQ_SHAPES)
            steps.append(_seq_rand_step(rng, col, npart))
        yield {"family": "sequence", "nrows": nrows, "npart": npart, "kdtype": rng.choice(SEQ_KDTYPES),
               "index": rng.choice(("range", "range", "shuffled")), "focus": focus, "fseed": rng.randrange(2 ** 31),
               "steps": steps}


def _seq_rand_step(rng, col, npart):
    ev = rng.choice(SEQ_EVALS)
    on = rng.choice(("base", "base", "copy"))
    np_ = rng.choice((None, None, "same", "fewer", "more", 1, 2))
    k = rng.choice(("sort_values", "sort_values", "sort_values", "set_index", "set_index", "set_index", "set_index",
                    "shuffle", "repartition", "unique", "drop_duplicates", "merge", "set_index_repartition",
                    "set_index_loc"))
    st = {"op": k, "col": col, "np": np_, "ev": ev, "on": on}
    if k == "sort_values":
        st["asc"] = rng.random() < 0.5
        if rng.random() < 0.7:
            st["np"] = None
    elif k == "set_index":
        st["form"] = rng.choice(("plain", "plain", "plain", "npartitions", "divisions", "sorted", "sort-false",
                                 "upsample", "drop-false", "tasks"))
        if st["form"] == "npartitions" and st["np"] is None:
            st["np"] = "same"
    elif k in ("unique", "drop_duplicates"):
        st["np"] = rng.choice((2, 3, True))
    elif k == "merge":
        st["col2"] = rng.choice(("rand", "asc", "desc", "ascblk", "descblk"))
        st["how"] = rng.choice(("inner", "outer", "left"))
    elif k in ("repartition", "set_index_repartition"):
        st["np"] = rng.choice(("fewer", "more", "same", 1, 2))
    elif k == "set_index_loc":
        st["r"] = rng.randrange(2 ** 31)
    return st


_SEQ_TMP = []


def _private_tmp():
    """private directory for the disk shuffle's partd files (one ``*.partd`` directory per disk shuffle is left
    behind in the temporary directory), removed when the process ends"""
    import atexit
    import os
    import shutil
    import tempfile

    import dask

    if not _SEQ_TMP:
        # (partd fsyncs every append: a tmpfs directory when there is one)
        d = tempfile.mkdtemp(prefix="vf-c41partd-", dir="/dev/shm" if os.path.isdir("/dev/shm") and os.access("/dev/shm", os.W_OK) else None)
        _SEQ_TMP.append(d)
        atexit.register(shutil.rmtree, d, True)
    dask.config.set(temporary_directory=_SEQ_TMP[0])


def _dask_caches():
    """the module-level caches of dask.dataframe that survive from one operation to the next"""
    out = {}
    try:
        from dask.dataframe.dask_expr import _shuffle

        out["divisions_lru"] = _shuffle.divisions_lru
    except Exception:  # noqa: BLE001
        pass
    try:
        from dask.dataframe.dask_expr import _repartition

        out["mem_usages_lru"] = _repartition.mem_usages_lru
    except Exception:  # noqa: BLE001
        pass
    return out


def _kvalue(rank, kdtype):
    """monotone map rank -> value of the key dtype"""
    import pandas as pd

    if kdtype == "int":
        return [int(r) * 2 for r in rank]
    if kdtype == "float":
        return [float(r) * 0.5 - 3.0 for r in rank]
    if kdtype == "datetime":
        return list(pd.Timestamp("2023-02-01") + pd.to_timedelta([int(r) * 7 for r in rank], unit="min"))
    return ["k%03d" % int(r) for r in rank]


def _seq_frame(case, dd, extra=False):
    """-> (pdf, build) ; build() makes an (equal-token) dask collection of pdf.  extra=True adds a column so that
    every expression name (and with it every cache key) differs from the base frame's."""
    import numpy as np
    import pandas as pd
    import dask

    n, P = case["nrows"], case["npart"]
    r = np.random.default_rng(case.get("fseed", 12345))
    if case["index"] == "range":
        idx = pd.RangeIndex(n, name="i")
        kw = {"npartitions": P}
    else:
        idx = pd.Index(r.permutation(n).astype("int64") * 3, name="i")
        kw = {"npartitions": P, "sort": False}
    v0 = pd.DataFrame({"v": np.arange(n, dtype="int64")}, index=idx)
    lens = [len(p) for p in dask.compute(*dd.from_pandas(v0, **kw).to_delayed(), scheduler="sync")]
    bounds = np.cumsum([0] + lens)
    pos = np.arange(n)
    ranks = {"asc": pos.copy(), "desc": (n - 1 - pos)}
    for name, src in (("ascblk", ranks["asc"]), ("descblk", ranks["desc"])):
        a = src.copy()
        for x, y in zip(bounds[:-1], bounds[1:]):
            a[x:y] = r.permutation(a[x:y])
        ranks[name] = a
    ranks["rand"] = r.permutation(n)
    a = pos.copy()
    if len(lens) >= 2 and 0 < bounds[1] < n:
        b = int(bounds[1])
        a[b - 1], a[b] = a[b], a[b - 1]                      # the two neighbours of the first boundary swapped
    ranks["overlap"] = a
    ranks["dups"] = np.sort(r.integers(0, max(2, n // 2), n))  # ascending, duplicates (also across boundaries)
    pdf = v0.copy()
    for name in SEQ_SHAPES:
        pdf["k_" + name] = _kvalue(ranks[name], case["kdtype"])
    pdf["w"] = np.round(r.normal(size=n), 2)
    if extra:
        pdf["zz"] = 1

    def build():
        return dd.from_pandas(pdf.copy(), **kw)

    return pdf, build, lens


def _seq_np(v, P):
    if v is None or v is True:
        return v
    if v == "same":
        return P
    if v == "fewer":
        return max(1, P - 1)
    if v == "more":
        return P + 2
    return int(v)


def _seq_variant(st):
    op = st["op"]
    if op == "sort_values":
        return "sort_values[%s%s]" % ("asc" if st["asc"] else "desc", "" if st.get("np") is None else "&npartitions")
    if op == "set_index":
        return "set_index[%s]" % st["form"]
    if op in ("unique", "drop_duplicates"):
        return "%s[split_out]" % op
    if op in ("shuffle", "repartition", "set_index_repartition"):
        return "%s[%s]" % (op, "default" if st.get("np") is None else "npartitions")
    if op == "merge":
        return "merge[set_index-both:%s]" % st["how"]
    return op


def _seq_build(st, ddf, ddf2, pdf, P):
    """-> (dask result, pandas expectation, how to compare).  how: 'ordered' | 'multiset' | 'sorted-by:<col>' |
    'set' ; raises _Skip when the step does not apply to this frame (generator side)."""
    import pandas as pd

    op = st["op"]
    col = "k_" + st["col"]
    np_ = _seq_np(st.get("np"), P)
    tgt = ddf
    if op == "sort_values":
        kw = {} if np_ is None else {"npartitions": np_}
        return (tgt.sort_values(col, ascending=st["asc"], **kw), pdf.sort_values(col, ascending=st["asc"], kind="stable"),
                "sorted-by:%s:%s" % (col, "asc" if st["asc"] else "desc"))
    if op == "set_index":
        form = st["form"]
        exp = pdf.set_index(col, drop=form != "drop-false")
        if form == "plain":
            return tgt.set_index(col), exp, "multiset"
        if form == "drop-false":
            return tgt.set_index(col, drop=False), exp, "multiset"
        if form == "tasks":
            return tgt.set_index(col, shuffle_method="tasks"), exp, "multiset"
        if form == "upsample":
            return tgt.set_index(col, upsample=2.0), exp, "multiset"
        if form == "npartitions":
            return tgt.set_index(col, npartitions=np_), exp, "multiset"
        if form == "sort-false":
            return tgt.set_index(col, sort=False), exp, "multiset"
        if form == "sorted":
            if not bool(pdf[col].is_monotonic_increasing):
                raise _Skip("sorted=True needs a sorted column")
            return tgt.set_index(col, sorted=True), exp, "ordered"
        uniq = sorted(pd.unique(pdf[col]))
        k = max(1, min(len(uniq) - 1, np_ or P))
        cut = sorted({uniq[(len(uniq) - 1) * i // k] for i in range(k + 1)} | {uniq[0], uniq[-1]})
        if len(cut) < 2:
            cut = [uniq[0], uniq[-1]]
        cut = [_plain(c) for c in cut]
        return tgt.set_index(col, divisions=cut), exp, "multiset"
    if op == "shuffle":
        kw = {} if np_ is None else {"npartitions": np_}
        return tgt.shuffle(col, **kw), pdf, "multiset"
    if op == "repartition":
        return tgt.repartition(npartitions=np_ or P + 1), pdf, "ordered"
    if op == "set_index_repartition":
        return tgt.set_index(col).repartition(npartitions=np_ or P + 1), pdf.set_index(col), "multiset"
    if op == "set_index_loc":
        rng = random.Random(st.get("r", 0))
        vals = sorted(pd.unique(pdf[col]))
        a, b = sorted((vals[rng.randrange(len(vals))], vals[rng.randrange(len(vals))]))
        a, b = _plain(a), _plain(b)
        return tgt.set_index(col).loc[a:b], pdf.set_index(col).sort_index().loc[a:b], "multiset"
    if op == "unique":
        return tgt[col].unique(split_out=np_), pd.Series(pd.unique(pdf[col]), name=col), "set"
    if op == "drop_duplicates":
        return (tgt.drop_duplicates(subset=[col], split_out=np_), pdf.drop_duplicates(subset=[col]),
                "multiset" if pdf[col].is_unique else "keys:%s" % col)
    if op == "merge":
        col2 = "k_" + st["col2"]
        if col2 == col or not pdf[col].is_unique or not pdf[col2].is_unique:
            raise _Skip("merge needs two different unique key columns")
        left, right = tgt.set_index(col)[["v"]], ddf2.set_index(col2)[["w"]]
        exp = pdf.set_index(col)[["v"]].merge(pdf.set_index(col2)[["w"]], left_index=True, right_index=True, how=st["how"])
        return left.merge(right, left_index=True, right_index=True, how=st["how"]), exp, "multiset"
    raise _Skip("unknown op " + op)


def _seq_evaluate(r, ev):
    """one of the ways a user looks at a lazy result; -> the collection to check afterwards"""
    if ev == "npartitions":
        r.npartitions
    elif ev == "divisions":
        r.divisions
    elif ev == "head":
        r.head(3)
    elif ev == "persist":
        return r.persist(scheduler="sync")
    elif ev == "optimize":
        r.optimize()
    elif ev == "repr":
        repr(r)
    elif ev == "compute":
        r.compute(scheduler="sync")
    elif ev == "len":
        len(r)
    return r


def _seq_symptom(r, exp, how):
    """the C41 invariants on one result, independent of dask's caches: divisions sorted, every partition inside its
    interval (graph view), the cache-free min/max view (``clear_divisions().compute_current_divisions()``), values
    equal pandas.  -> (symptom, message, known, npartitions, counters) ; symptom None when everything holds."""
    import dask
    import pandas as pd
    from vf.gen import frames

    known = bool(r.known_divisions)
    divs = tuple(r.divisions)
    npart = r.npartitions
    gparts = list(dask.compute(*r.to_delayed(), scheduler="sync"))
    info = {"known": known, "npartitions": npart, "views": 0}
    shown = [repr(d) for d in divs][:12]
    pshow = [[repr(x) for x in p.index[:8]] for p in gparts][:8]
    tail = " (divisions %s, partitions %s)" % (shown, pshow)
    if npart != len(divs) - 1:
        return "npartitions-vs-divisions", "npartitions=%d, len(divisions)-1=%d%s" % (npart, len(divs) - 1, tail), info
    if len(gparts) != npart:
        return "partition-count-vs-divisions", "graph has %d partitions, %d announced%s" % (len(gparts), npart, tail), info
    if known:
        try:
            bad = [i for i in range(len(divs) - 1) if divs[i] > divs[i + 1]]
        except TypeError:
            bad = []
        if bad:
            return "divisions-not-sorted", "divisions are not ascending%s" % tail, info
        v = _bounds(divs, gparts)
        if v:
            return "index-outside-division-interval", v[1] + tail, info
        # cache-free view: dask's documented recomputation of the divisions from the data (per-partition min/max)
        if gparts and all(len(p) for p in gparts):
            info["views"] = 1
            try:
                cur = r.clear_divisions().compute_current_divisions()
            except ValueError as e:
                return "partitions-not-in-index-order", "compute_current_divisions(): %s%s" % (str(e)[:200], tail), info
            try:
                off = [i for i in range(npart) if not (divs[i] <= cur[i] and (cur[i] < divs[i + 1] or (i == npart - 1 and cur[i] <= divs[i + 1])))]
            except TypeError:
                off = []
            if len(cur) != len(divs) or off:
                return ("current-divisions-outside-reported-divisions",
                        "compute_current_divisions() of the cleared frame gives %r%s" % (cur, tail), info)
    # ---- values
    got = pd.concat(gparts) if gparts else r._meta
    m = None
    if how == "ordered":
        m = frames.compare(got, exp, ordered=True, check_dtype=False)
    elif how == "multiset":
        m = frames.compare(got, exp, ordered=False, check_dtype=False)
    elif how == "set":
        a, b = sorted(got.tolist()), sorted(exp.tolist())
        m = None if a == b else ("values", "unique values %r, pandas %r" % (a[:20], b[:20]))
    elif how.startswith("keys:"):
        c = how[5:]
        a, b = sorted(got[c].tolist()), sorted(exp[c].tolist())
        m = None if a == b else ("values", "kept keys %r, pandas %r" % (a[:20], b[:20]))
    elif how.startswith("sorted-by:"):
        _, c, d = how.split(":")
        a, b = got[c].tolist(), exp[c].tolist()
        if a != b:
            sym = "order" if sorted(a) == sorted(b) else "values"
            return sym, "column %s after sort_values(%s): %r, pandas %r%s" % (c, d, a[:24], b[:24], tail), info
        m = frames.compare(got, exp, ordered=False, check_dtype=False)
    if m:
        return "values", m[1][:600] + tail, info
    return None, "", info


def _run_sequence(case, ctx, dd):
    _private_tmp()
    caches = _dask_caches()
    for c in caches.values():
        c.clear()                           # every CASE starts from clean caches (cases independent and replayable);
    ctx.count("seq_cases")                 # nothing is cleared between the steps of a case
    P = case["npart"]
    pdf, build, lens = _seq_frame(case, dd)
    ddf = build()
    lru = caches.get("divisions_lru")
    state = {"rows": len(pdf), "partition_lengths": lens, "kdtype": case["kdtype"], "index": case["index"],
             "sequence": []}
    earlier = []           # (column, variant) of the steps done so far
    checked_known = 0
    for st in case["steps"]:
        st = dict(st)
        if st["col"] == "@":
            st["col"] = case["focus"]
        variant = _seq_variant(st)
        tgt = ddf if st.get("on") != "copy" else build()          # equal-token rebuilt copy
        desc = "%s(%s%s) on %s, then .%s" % (variant, st["col"], "" if st.get("np") is None else ", np=%s" % st["np"],
                                               st.get("on", "base"), st.get("ev", "none"))
        before = set(lru.data) if lru is not None else set()
        try:
            r, exp, how = _seq_build(st, tgt, build(), pdf, P)
        except _Skip:
            ctx.count("steps_not_applicable")
            continue
        except NotImplementedError:
            ctx.count("unsupported_steps")
            continue
        except Exception as e:  # noqa: BLE001
            from vf.core.ctx import dask_frame

            if dask_frame(e) is None:
                ctx.count("steps_not_applicable")
                continue
            _seq_report(ctx, case, st, variant, "exception", e, state, earlier, dd, pdf, phase="construct")
            break
        state["sequence"].append(desc)
        ctx.count("seq_steps")
        ctx.op("seq:" + variant)
        ctx.op("seq-eval:" + st.get("ev", "none"))
        ctx.distinct("seq_variant_x_shape", [variant, st["col"]])
        related = [v for c, v in earlier if c == st["col"]]
        if related:
            ctx.count("seq_steps_after_step_on_same_column")
        if any(v != variant for v in related):
            ctx.count("seq_steps_after_different_op_on_same_column")
        try:
            r2 = _seq_evaluate(r, st.get("ev", "none"))
            sym, msg, info = _seq_symptom(r2, exp, how)
        except NotImplementedError:
            ctx.count("unsupported_steps")
            continue
        except Exception as e:  # noqa: BLE001
            _seq_report(ctx, case, st, variant, "exception", e, state, earlier, dd, pdf, phase="evaluate")
            break
        if lru is not None:
            after = set(lru.data)
            if after - before:
                ctx.count("seq_steps_filling_divisions_cache")
            elif before and st["op"] in ("sort_values", "set_index", "set_index_repartition", "set_index_loc", "merge") \
                    and st.get("form") not in ("divisions", "sorted", "sort-false"):
                ctx.count("seq_steps_served_from_divisions_cache")
        ctx.count("seq_values_compared")
        ctx.count("seq_cache_free_views", info["views"])
        if info["known"]:
            ctx.count("seq_steps_known_divisions")
            ctx.count("known:sequence")
            ctx.count("stages_known_divisions")
            ctx.distinct("known_stage_variants", "sequence:" + variant)
            if info["npartitions"] >= 2:
                checked_known += 1
        else:
            ctx.count("seq_steps_unknown_divisions")
        ctx.count("stages")
        if sym:
            _seq_report(ctx, case, st, variant, sym, msg, state, earlier, dd, pdf, result=r)
            break
        earlier.append((st["col"], variant))
    ctx.nontrivial = checked_known >= 1 and len(earlier) >= 2
    ctx.sample = {"sequence": state["sequence"], "partition_lengths": lens}


def _seq_report(ctx, case, st, variant, sym, what, state, earlier, dd, pdf, phase=None, result=None):
    """A step of a sequence failed.  Run the same step ALONE on a frame whose expression names differ (one more
    column), i.e. with nothing that earlier steps left behind applying to it: when it fails there too the finding
    belongs to the operation (labelled like the single-pipeline families), otherwise to state leaking between
    operations."""
    from vf.core.ctx import exc_label, through_shim

    if isinstance(what, BaseException):
        if through_shim(what):
            ctx.envlimited("%s: %s" % (type(what).__name__, what))
            return
        msg = "%s: %s (%s)" % (type(what).__name__, str(what)[:300], phase)
        sym = "%s:%s" % (phase, exc_label(what))
    else:
        msg = what
    alone = None
    try:
        pdf2, build2, _ = _seq_frame(case, dd, extra=True)
        r, exp, how = _seq_build(st, build2(), build2(), pdf2, case["npart"])
        if "zz" in getattr(exp, "columns", ()):
            pass
        alone = _seq_symptom(_seq_evaluate(r, st.get("ev", "none")), exp, how)[0]
    except Exception as e:  # noqa: BLE001
        alone = "exception:%s" % type(e).__name__
    detail = dict(state, step=st, earlier_steps=["%s(%s)" % (v, c) for c, v in earlier], alone=alone)
    stage = "%s:%s" % (st["op"], variant[variant.index("[") + 1:-1] if "[" in variant else "plain")
    where = stage
    if result is not None:
        try:
            where = _where(result, stage, True)
        except Exception:  # noqa: BLE001
            where = stage
    if alone is not None and where.startswith("optimize:"):
        # fails alone as well and some sub-expression reports other divisions than its optimised form has: the
        # rewrite's finding, named like the pipeline families name it
        ctx.violation(_glabel(where, sym), msg, stage=stage, **detail)
    elif alone is None and earlier:
        # one label per operation and symptom (the variants of an operation share the state that leaks)
        ctx.violation("sequence:%s:depends-on-earlier-operations:%s" % (st["op"], sym),
                      "%s -- the same step alone on a differently named copy of the frame is fine; earlier "
                      "operations in this process: %s" % (msg, detail["earlier_steps"]), where=where, **detail)
    else:
        ctx.violation("sequence:%s:%s" % (variant, sym), msg, **detail)
