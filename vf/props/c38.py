"""C38 — groupby results equal pandas groupby.

Every case is ONE description (frame seed, partitioning, grouping keys, groupby
keywords, operation, dask-only execution keywords).  From it the same program is
run twice: on the dask collection (real ``dask.dataframe`` API, ``scheduler="sync"``)
and on the concatenated pandas frame (reference = pandas).  The computed dask
result is compared with the pandas result with the shared comparison discipline
(``vf.gen.frames.compare``: object kind, columns and their order, dtypes with
str/object equivalence, length, index incl. names, values, Series name).

Row order
---------
Row order is compared only

* for aggregations when ``sort=True`` is passed explicitly AND ``split_out`` is
  1 / not given (pandas promises sorted group keys, dask promises the same only
  there);
* for the cumulative operations (cumsum/cumprod/cumcount): both sides return
  the rows of the input in input order.

Everything else is compared as a *keyed multiset*: both sides are sorted by the
index (= the group keys for aggregations, the original row labels for
transform-like operations) and then by the values, and compared row by row.

Order-dependent operations
--------------------------
``first``/``last``/``idxmin``/``idxmax`` (ties)/``shift``/``ffill``/``bfill``
depend on the order of the rows inside each group.  pandas defines that order
(the row order of the frame); the statement says the dask result equals pandas
"for every split_out, shuffle method", so they are generated both without a
shuffle (main facet) and with ``split_out>1`` / an explicit ``shuffle_method``
(facet ``after-shuffle`` in the label).  Whether a shuffle is really part of the
plan is read from the lowered expression (class names containing "Shuffle").

Staged comparison ("explain and repair")
----------------------------------------
A deviation that can be normalised away is reported under its own label and
then repaired, and the comparison continues, so that one result can carry
several findings: object kind -> column order (reorder) -> Series/index names
(rename) -> a group whose key is NA present on one side only (drop it; only
when the other keys agree) -> groups duplicated after a shuffle (0.0/-0.0 keys,
NA keys, unobserved categories) -> unobserved-category groups missing -> rows
with NA key missing from transform-like results -> length -> dtype (relax) ->
index -> values.  The label is ``<op family>:<verified input predicate>:<symptom>``;
a predicate is only used when it was checked on the witness (e.g. "all
differing groups are present in >= 2 partitions"), otherwise ``other``.

Pre-step facet (partitioning knowledge)
---------------------------------------
dask remembers how a frame was hash-partitioned (``unique_partition_mapping_columns_from_shuffle``) and on which
index it is divided, and lets groupby apply/transform/shift/ffill/bfill/median (and split_out aggregations) skip their
shuffle when the groups are already inside one partition.  These cases put a step in FRONT of the groupby that
leaves such knowledge (or must drop it): ``shuffle(on=K)`` with K a superset / equal / subset / overlapping /
disjoint set of the group keys, ``groupby(K).agg(split_out>1).reset_index()``, a hash ``merge(on=K)``, shuffle +
repartition, ``set_index``, ``repartition``; optionally followed by a blockwise step (assign a new column, filter,
overwrite one of the shuffle columns).  Then every groupby op family runs on that frame X (whole-frame, one column,
list selection, and a list selection that keeps the shuffle columns).  Reference = pandas on ``compute(X)``: the steps
before the groupby belong to other properties, this facet checks that the groupby on X equals pandas on the rows of X.
Frames are all-numeric (int keys a, h, g; floats c, d).  Order-dependent operations get a deterministic (task) shuffle in
the pre-step and are not generated after ``set_index`` (not stable among equal index values, the row order of X is not
defined).  A failure that disappears when the same partitions are handed over materialised (``from_map``, no knowledge)
is labelled ``<op group>:pre-step-partitioning-knowledge&keys-relation:<rel>``.  Counters
``pre-step:<kind>&keys-relation:<rel>`` and ``pre-step-then:<step>`` have floors.

One mechanism = one label (``_canonicalise``)
--------------------------------------------
* an exception under a *verified* predicate is labelled with the exception type only (no raising frame); an
  unmatched exception keeps ``Type@file:function``.
* symptom variants of one verified predicate are merged statically (agg with first/last -> ``first-last``; the two
  shapes of SeriesGroupBy.agg with median -> ``result-shape``; cov/corr with an empty partition -> ``exception``;
  empty-frame / empty-result findings -> one label per op group and symptom class names|dtype|exception).
* ablation: for the input features that produce a tail of symptom variants -- categorical key with
  observed=False, a float key holding 0.0 and -0.0, NA keys with dropna=False, NA keys with dropna not disabled --
  the failing case is re-run with the feature removed (observed=True; -0.0 replaced by 0.0; dropna not passed; the
  NA-key rows removed from the frame).  Findings that name the feature or have no verified predicate, and that are
  gone in the ablated run, are caused by it and are replaced by ONE label ``<op group>:<feature>`` (op groups:
  agg-any, transform-like, nunique, median, cov-corr, value_counts, cum).  Findings that survive the ablation keep
  their own label, and a failure that nothing explains keeps its full ``family:other:symptom`` label, so new defects
  (and the mutants) still show as new.

Calibration (false alarms corrected; everything else is in PENDING / known_findings.d/C38.json)
-----------------------------------------------------------------------------------------
* symptom classification: the shared ``frames.compare(ordered=False)`` sorts by values first, so a wrong value
  showed up as an "index" difference; this module sorts by the index (group keys) first and decides index vs
  values itself, comparing categorical index levels by value.
* ``split_out=True`` equals ``1`` in Python: ``True in (None, 1)`` made the harness compare row order for
  ``split_out=True`` and mis-label features; all such tests are now identity tests.
* ``nunique`` and ``median`` default to ``split_out=True``: row order is compared for them only when
  ``split_out=1`` is passed explicitly (plus ``sort=True``).
* ``value_counts``: within a group pandas orders by count with unspecified tie order -> always keyed multiset.
* generator domain restricted to what the statement names: ``split_every=False`` (not a documented value),
  ``df.index`` objects as keys and ``agg([... 'nunique' ...])`` are not generated.  cov/corr are generated only
  for plain column keys without NA and float/int columns: with other keys/columns they produced seven more
  crash classes (listed in findings_proposed/C38.md section D) that would only multiply labels.
* named aggregation may repeat a (column, function) pair in pandas; the generator keeps such specs (dask raises:
  PENDING), they are not an oracle error.
* NA-group repair is applied only when the non-NA key sets of both sides agree (otherwise a result that lost
  most rows was mis-labelled "NA group missing").
* pandas raising (all-NA group for idxmin/idxmax, unobserved categories with idxmin, ...) -> ``ctx.reject``.
"""
from __future__ import annotations

import random
import warnings

PROP = "C38"

# ---------------------------------------------------------------------------
# vocabulary

NUM_COLS = ("c", "d", "a", "n")                 # float NaN, float integral, int64, nullable Int64
ANY_COLS = ("c", "d", "a", "n", "b", "e", "t", "m")
FEW_KEYS = ("a", "b", "e", "k", "n", "s:a%2", "s:d>0", "s:col:b")
MANY_KEYS = ("g", "c", "@index", "s:c.round", "t")
NA_KEYS = ("n", "c", "s:c.round")

F_NUM = ("sum", "mean", "prod", "var", "std", "median")
F_ANY = ("min", "max", "count", "first", "last")
F_AGG = ("sum", "mean", "min", "max", "count", "size", "first", "last", "var", "std", "prod", "median")
ORDER_DEP = ("first", "last", "idxmin", "idxmax", "shift", "ffill", "bfill")
SPLIT_OUT = (None, 1, 2, 3, True)
SHUFFLE = (None, "tasks", "disk")
SORT = (None, True, False)
SPLIT_EVERY = (None, None, 2, 3, 8)


def _demean(x):
    return x - x.mean()


def _ap_share(g):
    return g.assign(share=g["d"] / g["d"].abs().sum())


def _ap_span(g):
    return g["d"].max() - g["d"].min()


def _ap_s_demean(x):
    return x - x.mean()


def _ap_s_span(x):
    return x.max() - x.min()


APPLY = {"share": _ap_share, "span": _ap_span, "s-demean": _ap_s_demean, "s-span": _ap_s_span}
TRANSFORMS = {"sum": "sum", "mean": "mean", "max": "max", "min": "min", "count": "count", "demean": _demean}

# ---------------------------------------------------------------------------
# case stream


def _base_col(tok):
    """column of the frame a key token is derived from (None for the index)."""
    if tok.startswith("@"):
        return None
    if tok.startswith("s:col:"):
        return tok[6:]
    if tok.startswith("s:"):
        return tok[2]
    return tok


def _rand_by(rng, groups):
    pool = FEW_KEYS if groups == "few" else MANY_KEYS
    r = rng.random()
    if r < 0.55:
        by = [rng.choice(pool)]
    elif r < 0.9:
        by = [rng.choice(pool), rng.choice(FEW_KEYS)]
    else:
        by = [rng.choice(pool), rng.choice(FEW_KEYS), rng.choice(("a", "e", "k", "b"))]
    out, seen = [], set()
    for t in by:
        b = _base_col(t)
        if (b or t) in seen:
            continue
        seen.add(b or t)
        out.append(t)
    if sum(1 for t in out if t.startswith("@")) > 1:
        out = [t for t in out if not t.startswith("@")] or ["a"]
    return out


def _rand_gkw(rng, by):
    gkw = {}
    s = rng.choice(SORT)
    if s is not None:
        gkw["sort"] = s
    nak = any(t in NA_KEYS for t in by)
    d = rng.choice((None, True, False, False) if nak else (None, None, True, False))
    if d is not None:
        gkw["dropna"] = d
    if "k" in by:
        o = rng.choice((None, True, False, False))
        if o is not None:
            gkw["observed"] = o
    elif rng.random() < 0.1:
        gkw["observed"] = rng.choice((True, False))
    return gkw


def _rand_akw(rng, allow=("split_out", "shuffle_method", "split_every"), plain=False):
    akw = {}
    if plain:
        # "no shuffle" facet: split_out 1/None and shuffle_method None
        if "split_out" in allow and rng.random() < 0.3:
            akw["split_out"] = 1
        if "split_every" in allow and rng.random() < 0.5:
            akw["split_every"] = rng.choice((2, 3))
        return akw
    if "split_out" in allow:
        so = rng.choice(SPLIT_OUT)
        if so is not None:
            akw["split_out"] = so
    if "shuffle_method" in allow:
        sm = rng.choice(SHUFFLE)
        if sm is not None:
            akw["shuffle_method"] = sm
    if "split_every" in allow:
        se = rng.choice(SPLIT_EVERY)
        if se is not None:
            akw["split_every"] = se
    return akw


def _cols_not_keys(pool, by):
    used = {_base_col(t) for t in by if not t.startswith("s:") or t.startswith("s:col:")}
    return [c for c in pool if c not in used]


def _rand_op(rng, by):
    """returns (op, allowed dask keywords, order-dependent?)"""
    kind = rng.choices(
        ("single", "agg", "cum", "transform", "shift", "fill", "value_counts", "idx", "covcorr", "size", "nunique"),
        (30, 22, 8, 6, 5, 6, 6, 7, 4, 3, 5))[0]
    num = _cols_not_keys(NUM_COLS, by) or ["d"]
    anyc = _cols_not_keys(ANY_COLS, by) or ["d"]
    full = ("split_out", "shuffle_method", "split_every")
    if kind == "single":
        fn = rng.choice(F_NUM + F_ANY + ("first", "last"))
        pool = num if fn in F_NUM else anyc
        r = rng.random()
        if r < 0.45:
            sel = rng.choice(pool)
        elif r < 0.9 or fn not in ("count", "first", "last"):
            sel = rng.sample(pool, min(len(pool), rng.randint(1, 3)))
        else:
            sel = None
        op = {"kind": "single", "fn": fn, "sel": sel}
        if fn in ("var", "std"):
            dd_ = rng.choice((None, 0, 1, 2))
            if dd_ is not None:
                op["kw"] = {"ddof": dd_}
        return op, full, fn in ORDER_DEP
    if kind == "size":
        return {"kind": "single", "fn": "size", "sel": rng.choice((None, None, rng.choice(anyc), [rng.choice(anyc)]))}, full, False
    if kind == "nunique":
        return {"kind": "single", "fn": "nunique", "sel": rng.choice(anyc)}, full, False
    if kind == "idx":
        fn = rng.choice(("idxmin", "idxmax"))
        sel = rng.choice(num) if rng.random() < 0.6 else rng.sample(num, min(len(num), 2))
        return {"kind": "single", "fn": fn, "sel": sel}, full, True
    if kind == "covcorr":
        cols = rng.sample(num, min(len(num), rng.choice((2, 2, 3))))
        if len(cols) < 2:
            cols = ["c", "d"]
        op = {"kind": "single", "fn": rng.choice(("cov", "corr")), "sel": cols}
        if op["fn"] == "cov" and rng.random() < 0.4:
            op["kw"] = {"ddof": rng.choice((0, 1, 2))}
        return op, ("split_out", "split_every"), False
    if kind == "agg":
        form = rng.choice(("str", "list", "dict", "dictlist", "named", "s-str", "s-list", "s-named"))
        fns = list(F_AGG)
        if form.startswith("s-"):
            fpool = fns
            col = rng.choice(num)
            if form == "s-str":
                spec = rng.choice(fpool)
            elif form == "s-list":
                spec = rng.sample(fpool, rng.randint(1, 3))
            else:
                spec = {"r%d" % i: f for i, f in enumerate(rng.sample(fpool, rng.randint(1, 3)))}
            op = {"kind": "agg", "form": form, "sel": col, "spec": spec}
        elif form in ("str", "list"):
            cols = rng.sample(num, min(len(num), rng.randint(1, 3)))
            spec = rng.choice(fns) if form == "str" else rng.sample(fns, rng.randint(1, 3))
            op = {"kind": "agg", "form": form, "sel": cols, "spec": spec}
        elif form in ("dict", "dictlist"):
            cols = rng.sample(num, min(len(num), rng.randint(1, 3)))
            spec = {}
            for c in cols:
                spec[c] = rng.choice(fns) if form == "dict" or rng.random() < 0.3 else rng.sample(fns, rng.randint(1, 2))
            op = {"kind": "agg", "form": form, "sel": None, "spec": spec}
        else:
            spec = {}
            for i in range(rng.randint(1, 3)):
                spec["r%d" % i] = [rng.choice(num), rng.choice(fns)]
            op = {"kind": "agg", "form": form, "sel": None, "spec": spec}
        used = _agg_funcs(op)
        return op, full, any(f in ORDER_DEP for f in used)
    if kind == "cum":
        fn = rng.choice(("cumsum", "cumprod", "cumcount"))
        if fn == "cumcount":
            sel = rng.choice((None, rng.choice(anyc)))
        else:
            sel = rng.choice(num) if rng.random() < 0.6 else rng.sample(num, min(len(num), 2))
        return {"kind": "cum", "fn": fn, "sel": sel}, (), False
    if kind == "transform":
        sel = rng.choice(num) if rng.random() < 0.7 else rng.sample(num, min(len(num), 2))
        func = rng.choice(sorted(TRANSFORMS))
        if func == "demean":
            # a Python function goes through pandas' slow path, whose result dtype for nullable / mixed frames is a
            # pandas quirk (object columns, <NA> vs NaN): float columns only
            fl = [c for c in ("c", "d") if c in num] or ["d"]
            sel = rng.choice(fl) if rng.random() < 0.7 else fl
        return {"kind": "transform", "func": func, "sel": sel}, ("shuffle_method",), False
    if kind == "shift":
        sel = rng.choice(anyc) if rng.random() < 0.7 else rng.sample(num, min(len(num), 2))
        op = {"kind": "shift", "periods": rng.choice((1, 1, -1, 2)), "sel": sel}
        return op, ("shuffle_method",), True
    if kind == "fill":
        r = rng.random()
        sel = rng.choice(("c", "n", "m", "c")) if r < 0.6 else (["c", "n"] if r < 0.85 else None)
        if sel is not None and not isinstance(sel, list) and sel in {_base_col(t) for t in by}:
            sel = "c" if "c" not in {_base_col(t) for t in by} else "m"
        if isinstance(sel, list):
            sel = [c for c in sel if c not in {_base_col(t) for t in by}] or ["m"]
        op = {"kind": rng.choice(("ffill", "bfill")), "sel": sel}
        if rng.random() < 0.3:
            op["limit"] = 1
        return op, ("shuffle_method",), True
    # value_counts
    pool = [c for c in ("a", "b", "e", "d", "n", "k", "m") if c not in {_base_col(t) for t in by}] or ["d"]
    return {"kind": "value_counts", "sel": rng.choice(pool)}, full, False


def _agg_funcs(op):
    spec = op["spec"]
    if isinstance(spec, str):
        return [spec]
    if isinstance(spec, list):
        return list(spec)
    out = []
    for v in spec.values():
        if isinstance(v, str):
            out.append(v)
        elif op["form"] == "named":
            out.append(v[1])
        else:
            out.extend(v)
    return out


EXH_FUNCS = ("sum", "mean", "min", "max", "count", "size", "nunique", "first", "last", "idxmin", "idxmax",
             "var", "std", "prod", "median", "value_counts", "agg-list", "agg-named")


_FULL = ("split_out", "shuffle_method", "split_every")
GRID_KEYS = (
    (["a"], {}), (["n"], {"dropna": False}), (["n"], {}), (["a", "b"], {}), (["k"], {"observed": False}),
    (["k", "a"], {"observed": False}), (["s:a%2"], {}), (["@index"], {}), (["s:c.round"], {"dropna": False}),
    (["s:d>0", "b"], {}), (["a", "b"], {"dropna": False}), (["a"], {"sort": True}),
)
GRID_OPS = tuple(
    [({"kind": "single", "fn": fn, "sel": "d"}, _FULL) for fn in
     ("sum", "mean", "min", "max", "count", "size", "nunique", "first", "last", "idxmin", "idxmax", "var", "std", "prod", "median")]
    + [({"kind": "single", "fn": fn, "sel": ["d", "c"]}, _FULL) for fn in ("sum", "mean", "var", "first", "median", "idxmax")]
    + [({"kind": "single", "fn": "count", "sel": None}, _FULL), ({"kind": "single", "fn": "size", "sel": None}, _FULL),
       ({"kind": "single", "fn": "cov", "sel": ["c", "d"]}, ("split_out", "split_every")),
       ({"kind": "single", "fn": "corr", "sel": ["c", "d"]}, ("split_out", "split_every")),
       ({"kind": "single", "fn": "cov", "sel": ["d", "g"], "kw": {"ddof": 0}}, ("split_out", "split_every")),
       ({"kind": "agg", "form": "list", "sel": ["c", "d"], "spec": ["sum", "mean", "max"]}, _FULL),
       ({"kind": "agg", "form": "dictlist", "sel": None, "spec": {"c": "sum", "d": ["min", "std"]}}, _FULL),
       ({"kind": "agg", "form": "named", "sel": None, "spec": {"x": ["c", "sum"], "y": ["d", "last"]}}, _FULL),
       ({"kind": "agg", "form": "s-list", "sel": "d", "spec": ["count", "var"]}, _FULL),
       ({"kind": "agg", "form": "s-named", "sel": "d", "spec": {"lo": "min", "hi": "max"}}, _FULL),
       ({"kind": "agg", "form": "list", "sel": ["c", "d"], "spec": ["median", "sum"]}, _FULL),
       ({"kind": "agg", "form": "s-str", "sel": "d", "spec": "median"}, _FULL),
       ({"kind": "value_counts", "sel": "e"}, _FULL),
       ({"kind": "cum", "fn": "cumsum", "sel": "d"}, ()), ({"kind": "cum", "fn": "cumprod", "sel": ["d", "c"]}, ()),
       ({"kind": "cum", "fn": "cumcount", "sel": None}, ()),
       ({"kind": "transform", "func": "mean", "sel": "d"}, ("shuffle_method",)),
       ({"kind": "shift", "periods": 1, "sel": "d"}, ("shuffle_method",)),
       ({"kind": "ffill", "sel": "c"}, ("shuffle_method",)), ({"kind": "bfill", "sel": ["c", "m"]}, ("shuffle_method",))]
)


def rand_partition_desc_(rng, n):
    from vf.gen.frames import rand_partition_desc

    return rand_partition_desc(rng, n, allow_unknown=True)


def _keys_for(rng, by, rel):
    """shuffle / merge / pre-aggregation keys K with the given relation to the grouping keys `by`"""
    rest = [k for k in PRE_KEYS if k not in by]
    if rel == "equal":
        return list(by)
    if rel == "superset":
        return list(by) + rest[:rng.randint(1, len(rest))] if rest else None
    if rel == "subset":
        return rng.sample(by, rng.randint(1, len(by) - 1)) if len(by) > 1 else None
    if rel == "overlap":
        return [rng.choice(by)] + [rng.choice(rest)] if rest and len(by) > 1 else None
    return [rng.choice(rest)] if rest else None           # disjoint


PRE_GRID = (
    {"kind": "shuffle", "keys": ["a", "h"]}, {"kind": "shuffle", "keys": ["a"]}, {"kind": "shuffle", "keys": ["a", "h", "g"]},
    {"kind": "shuffle", "keys": ["h", "g"]}, {"kind": "shuffle", "keys": ["g"]}, {"kind": "shuffle", "keys": ["a", "h"], "method": "disk"},
    {"kind": "agg", "keys": ["a", "h"], "split_out": 3, "fn": "sum"}, {"kind": "agg", "keys": ["a", "h", "g"], "split_out": 2, "fn": "max"},
    {"kind": "merge", "keys": ["a", "h"]}, {"kind": "merge", "keys": ["a"]},
    {"kind": "shuffle+repartition", "keys": ["a", "h"], "n": 2}, {"kind": "set_index", "keys": ["g"]},
    {"kind": "repartition", "keys": [], "n": 3},
)
_SHUF = ("shuffle_method",)
PRE_OPS = tuple(
    [({"kind": "single", "fn": fn, "sel": sel}, _FULL) for fn in ("sum", "mean", "var", "max", "count", "median")
     for sel in ("c", ["c", "d"], "keepK", None)]
    + [({"kind": "single", "fn": "size", "sel": None}, _FULL), ({"kind": "single", "fn": "nunique", "sel": "d"}, _FULL),
       ({"kind": "value_counts", "sel": "d"}, _FULL),
       ({"kind": "agg", "form": "list", "sel": ["c", "d"], "spec": ["sum", "max"]}, _FULL),
       ({"kind": "agg", "form": "dictlist", "sel": None, "spec": {"c": "sum", "d": ["min", "mean"]}}, _FULL),
       ({"kind": "agg", "form": "named", "sel": None, "spec": {"x": ["c", "sum"], "y": ["d", "count"]}}, _FULL),
       ({"kind": "apply", "func": "share", "sel": None}, _SHUF), ({"kind": "apply", "func": "span", "sel": None}, _SHUF),
       ({"kind": "apply", "func": "share", "sel": "keepK+d"}, _SHUF),
       ({"kind": "apply", "func": "s-demean", "sel": "c"}, _SHUF), ({"kind": "apply", "func": "s-span", "sel": "d"}, _SHUF),
       ({"kind": "transform", "func": "mean", "sel": None}, _SHUF), ({"kind": "transform", "func": "mean", "sel": "c"}, _SHUF),
       ({"kind": "transform", "func": "sum", "sel": "keepK"}, _SHUF), ({"kind": "transform", "func": "demean", "sel": "d"}, _SHUF),
       ({"kind": "shift", "periods": 1, "sel": "d"}, _SHUF), ({"kind": "shift", "periods": 1, "sel": None}, _SHUF),
       ({"kind": "ffill", "sel": "c"}, _SHUF), ({"kind": "bfill", "sel": None}, _SHUF),
       ({"kind": "cum", "fn": "cumsum", "sel": "d"}, ()), ({"kind": "cum", "fn": "cumsum", "sel": None}, ()),
       ({"kind": "cum", "fn": "cumprod", "sel": ["d", "c"]}, ()), ({"kind": "cum", "fn": "cumcount", "sel": None}, ())]
)


def _pre_op(op, pre, by):
    """resolve the selection placeholders: keepK = a list selection that keeps the shuffle columns which are not
    grouping keys (so the frame still carries all columns of the earlier shuffle when it is grouped)"""
    sel = op.get("sel")
    K = pre.get("keys") or []
    if pre["kind"] == "set_index" and op["kind"] in ("cum", "shift", "ffill", "bfill"):
        # set_index is not stable among equal index values and the optimizer may plan it differently for compute(X) and
        # for the groupby on X: the row order of X is not defined, so operations that depend on it have no reference
        return None
    extra = [k for k in K if k not in by]
    if pre["kind"] == "set_index":
        extra = []
    if sel in ("keepK", "keepK+d"):
        if not extra:
            return None
        sel = extra + (["c", "d"] if sel == "keepK+d" else ["c"])
    op = dict(op, sel=sel)
    return op


def _exh_op(fn):
    if fn == "size":
        return {"kind": "single", "fn": "size", "sel": None}
    if fn == "value_counts":
        return {"kind": "value_counts", "sel": "e"}
    if fn == "agg-list":
        return {"kind": "agg", "form": "list", "sel": ["c", "d"], "spec": ["sum", "mean", "max"]}
    if fn == "agg-named":
        return {"kind": "agg", "form": "named", "sel": None, "spec": {"x": ["c", "sum"], "y": ["d", "std"]}}
    return {"kind": "single", "fn": fn, "sel": "d" if fn in ("nunique", "idxmin", "idxmax") else "c"}


def cases(tier, seed):
    rng = random.Random(seed * 1000003 + 38)
    # ---- complete sub-space: one fixed frame (24 rows, sorted index, 5 row slices with an empty one),
    #      every function x split_out x shuffle_method x sort, for a plain key and an NA key ----------
    keysets = [(["a"], {}), (["n"], {"dropna": False})]
    if tier == "thorough":
        keysets += [(["a", "b"], {}), (["k"], {"observed": False}), (["n"], {}), (["s:a%2"], {})]
    for by, g0 in keysets:
        for fn in EXH_FUNCS:
            for so in SPLIT_OUT:
                for sm in SHUFFLE:
                    for s in SORT:
                        gkw = dict(g0)
                        if s is not None:
                            gkw["sort"] = s
                        akw = {}
                        if so is not None:
                            akw["split_out"] = so
                        if sm is not None:
                            akw["shuffle_method"] = sm
                        yield {"space": "exhaustive", "fseed": 38, "nrows": 24, "index": "sorted", "groups": "few",
                               "nakey": False, "part": {"how": "slices", "cuts": [5, 11, 11, 19]},
                               "by": by, "bylist": False, "gkw": gkw, "op": _exh_op(fn), "akw": akw}
    # ---- complete sub-space B: edge grid = every operation form x key kind x {frame with an empty partition,
    #      empty frame} x {no keywords, split_out=2 + task shuffle} --------------------------------------------
    for nrows, part, index in ((24, {"how": "slices", "cuts": [0, 5, 11, 11, 19]}, None), (0, {"how": "npartitions", "n": 2}, None)):
        for by, g0 in GRID_KEYS:
            for op, allow in GRID_OPS:
                if op.get("fn") in ("cov", "corr") and by not in (["a"], ["a", "b"]):
                    continue
                used = {_base_col(t) for t in by if not t.startswith("s:")}
                sel = op.get("sel")
                if sel is not None and (set(sel if isinstance(sel, list) else [sel]) & used):
                    continue
                if op["kind"] == "agg" and isinstance(op["spec"], dict) and op["form"] != "s-named" and \
                        ({(v[0] if op["form"] == "named" else k) for k, v in op["spec"].items()} & used):
                    continue
                variants = [{}, {"split_out": 2, "shuffle_method": "tasks"}]
                if op.get("fn") == "median" or (op["kind"] == "agg" and "median" in _agg_funcs(op)):
                    variants.append({"split_every": 8})
                elif g0.get("dropna") is False or g0.get("observed") is False:
                    variants.append({"split_every": 2})      # tree reduction with a combine step (6 partitions)
                for akw in variants:
                    akw = {k: v for k, v in akw.items() if k in allow}
                    yield {"space": "exhaustive", "fseed": 3838, "nrows": nrows, "index": "dups" if "@index" in by else "sorted",
                           "groups": "few", "nakey": False, "part": part, "by": by, "bylist": False, "gkw": dict(g0),
                           "op": op, "akw": akw}
                    if not allow:
                        break
    # ---- complete sub-space C: pre-step grid = {steps that leave partitioning knowledge on the frame} x {blockwise
    #      step after it} x {every groupby op family, whole-frame / column-selected / selection keeping the shuffle columns}
    quick_ops = {("single", "sum"), ("single", "median"), ("single", "size"), ("single", "nunique"), ("value_counts", None),
                 ("agg", "list"), ("agg", "named"), ("apply", "share"), ("apply", "s-demean"), ("transform", "mean"),
                 ("transform", "sum"), ("shift", None), ("ffill", None), ("cum", "cumsum"), ("cum", "cumcount")}
    for pre in PRE_GRID:
        for then in (None, "assign", "filter", "assign-key") if tier == "thorough" else (None, "filter", "assign-key"):
            if then == "assign-key" and (not pre.get("keys") or pre["kind"] == "set_index"):
                continue
            for by in (["a"], ["a", "h"]):
                if pre["kind"] == "set_index" and pre["keys"][0] in by and then == "assign-key":
                    continue
                for op, allow in PRE_OPS:
                    if tier != "thorough" and (op["kind"], op.get("fn") or op.get("form") or op.get("func")) not in quick_ops:
                        continue
                    op = _pre_op(op, pre, by)
                    if op is None:
                        continue
                    yield {"space": "exhaustive", "fseed": 3840, "nrows": 40, "index": "range", "groups": "few", "nakey": False,
                           "part": {"how": "npartitions", "n": 4}, "by": by, "bylist": False, "gkw": {}, "op": op, "akw": {},
                           "pre": dict(pre, **({"then": then} if then else {}))}
    # ---- random pre-step cases
    kp = 500 if tier == "quick" else 12000
    rp = random.Random(seed * 7919 + 3838)
    for _ in range(kp):
        by = rp.choice((["a"], ["h"], ["g"], ["a", "h"], ["a", "g"], ["h", "g"], ["a", "h", "g"]))
        rel = rp.choice(("superset", "superset", "equal", "subset", "overlap", "disjoint"))
        K = _keys_for(rp, by, rel)
        kind = rp.choice(("shuffle", "shuffle", "agg", "merge", "shuffle+repartition", "set_index", "repartition"))
        if K is None and kind not in ("repartition",):
            continue
        pre = {"kind": kind, "keys": K, "method": rp.choice(("tasks", "tasks", "disk"))}
        if kind == "shuffle" and rp.random() < 0.4:
            pre["npartitions"] = rp.randint(2, 6)
        if kind == "agg":
            pre.update(split_out=rp.choice((2, 3, True)), fn=rp.choice(("sum", "max", "min")))
        if kind in ("repartition", "shuffle+repartition"):
            pre["n"] = rp.randint(1, 6)
        if kind == "repartition":
            pre["keys"] = []
        if kind == "set_index":
            pre["keys"] = K[:1]
        then = rp.choice((None, None, "assign", "filter", "assign-key"))
        if then and not (then == "assign-key" and (not pre["keys"] or kind == "set_index")):
            pre["then"] = then
        op, allow = rp.choice(PRE_OPS)
        op = _pre_op(op, pre, by)
        if op is None:
            continue
        nrows = rp.randint(8, 80)
        akw = {}
        if "shuffle_method" in allow and rp.random() < 0.5:
            akw["shuffle_method"] = rp.choice(("tasks", "disk"))
        if "split_out" in allow and rp.random() < 0.3:
            akw["split_out"] = rp.choice((2, 3))
        gkw = {"sort": rp.choice((True, False))} if rp.random() < 0.2 else {}
        yield {"fseed": rp.randrange(2 ** 31), "nrows": nrows, "index": rp.choice(("range", "sorted", "unsorted", "dups")),
               "groups": "few", "nakey": False, "part": rand_partition_desc_(rp, nrows), "by": by, "bylist": False,
               "gkw": gkw, "op": op, "akw": akw, "pre": pre}
    # ---- random ------------------------------------------------------------------------------------
    k = 2400 if tier == "quick" else 60000
    from vf.gen.frames import INDEX_KINDS, rand_partition_desc

    for _ in range(k):
        groups = rng.choice(("few", "few", "many"))
        r = rng.random()
        nrows = 0 if r < 0.02 else (rng.randint(1, 4) if r < 0.08 else rng.randint(5, 60))
        by = _rand_by(rng, groups)
        index = rng.choice(INDEX_KINDS)
        if any(t == "@index" for t in by) and index in ("range", "unsorted"):
            index = rng.choice(("dups", "dups", "sorted", "float", "strings", "datetime"))
        if any(t == "@index" for t in by) and rng.random() < 0.5:
            index = "dups"
        op, allow, odep = _rand_op(rng, by)
        nakey = rng.random() < 0.3
        if op.get("fn") in ("cov", "corr"):
            # cov/corr: plain column keys without NA, float/int value columns (see Calibration)
            by = rng.choice((["a"], ["b"], ["e"], ["g"], ["a", "b"], ["e", "a"], ["g", "e"]))
            cols = [c for c in ("c", "d", "a") if c not in by]
            op["sel"] = rng.sample(cols, 2 if len(cols) == 2 or rng.random() < 0.6 else 3)
            nakey = False
        plain = odep and rng.random() < 0.55
        akw = _rand_akw(rng, allow, plain=plain)
        gkw = _rand_gkw(rng, by)
        if op.get("fn") in ("first", "last") and gkw.get("sort"):
            # GroupBy.first/last take their own sort= (NotImplemented when truthy); the groupby-level
            # sort is what the statement names
            pass
        yield {"fseed": rng.randrange(2 ** 31), "nrows": nrows, "index": index, "groups": groups,
               "nakey": nakey, "part": rand_partition_desc(rng, nrows, allow_unknown=True),
               "by": by, "bylist": rng.random() < 0.3, "gkw": gkw, "op": op, "akw": akw}


# ---------------------------------------------------------------------------
# building both sides from the one description


_TMP = []


def _private_tmp():
    """a private directory for the disk shuffle's partd files (dask leaves one ``*.partd`` directory per disk shuffle
    behind in the temporary directory), removed when the shard / process ends."""
    import atexit
    import shutil
    import tempfile

    import dask

    if not _TMP:
        d = tempfile.mkdtemp(prefix="vf-c38partd-")
        _TMP.append(d)
        atexit.register(shutil.rmtree, d, True)
    dask.config.set(temporary_directory=_TMP[0])


def shard_setup(tier, seed):
    """once per shard: pyarrow stub + dask.dataframe + private temporary directory"""
    from vf.gen import frames

    frames.setup()
    warnings.simplefilter("ignore")
    _private_tmp()


def shard_finish():
    import shutil

    for d in _TMP:
        shutil.rmtree(d, ignore_errors=True)
    del _TMP[:]
    return {}


def _frame(case):
    import numpy as np

    from vf.gen import frames

    pdf = frames.rand_frame(case["fseed"], nrows=case["nrows"], index=case["index"], cols="wide")
    n = len(pdf)
    r = np.random.default_rng(case["fseed"] ^ 0x38)
    pdf["g"] = r.integers(0, max(2, n // 2), n).astype("int64")      # many groups
    if case.get("nakey") and n:
        mask = r.random(n) < 0.2
        pdf.loc[mask, "b"] = None                                      # NA keys in the str column
    if case.get("pre"):
        # pre-step facet: an all-numeric frame, so that whole-frame groupby forms are valid: int keys a (few), g (many),
        # h (codes of b), float columns c (NaN) and d
        import pandas as pd

        pdf["h"] = pd.factorize(pdf["b"])[0].astype("int64")
        pdf = pdf[["a", "g", "h", "c", "d"]]
    # ---- ablations (only used to attribute a failure to an input feature, see _canonicalise) ----
    if case.get("nonegzero"):
        pdf["c"] = pdf["c"] + 0.0                                      # -0.0 -> 0.0
    if case.get("dropnakeyrows") and n:
        pdf = pdf[~_row_na_keys(pdf, case)]
    return pdf


_NONEGZERO = [False]     # set by _run for the ablated re-run of a case (derived keys cannot see the case)


def _series_key(df, tok):
    if tok == "s:a%2":
        return df["a"] % 2
    if tok == "s:d>0":
        return df["d"] > 0
    if tok == "s:n%2":
        return df["n"] % 2
    if tok == "s:c.round":
        return df["c"].round() + 0.0 if _NONEGZERO[0] else df["c"].round()
    if tok.startswith("s:col:"):
        return df[tok[6:]]
    raise ValueError(tok)


def _keys(df, case):
    out = []
    for tok in case["by"]:
        if tok == "@index":
            out.append(df.index.name)
        elif tok == "@indexobj":
            out.append(df.index)
        elif tok.startswith("s:"):
            out.append(_series_key(df, tok))
        else:
            out.append(tok)
    if len(out) == 1 and not case.get("bylist"):
        return out[0]
    return out


PRE_KEYS = ("a", "h", "g")
_PARTLEN = []


def _pre(x, pre, pdf0, deterministic=False):
    """the step(s) in front of the groupby, applied to the dask frame: they leave the frame with (or without)
    knowledge about how its rows are distributed over the partitions"""
    dd = frames_setup()
    kind, K = pre["kind"], pre.get("keys") or []
    if deterministic:
        # the reference is pandas on compute(X); an operation that depends on the row order or keeps the row labels (a merge
        # numbers its output rows per partition) needs X to come out identically in both computations, which the disk
        # shuffle does not promise
        pre = dict(pre, method="tasks")
    if kind in ("shuffle", "shuffle+repartition"):
        x = x.shuffle(on=K, shuffle_method=pre.get("method", "tasks"), **({"npartitions": pre["npartitions"]} if pre.get("npartitions") else {}))
        if kind == "shuffle+repartition":
            x = x.repartition(npartitions=pre["n"])
    elif kind == "agg":
        x = getattr(x.groupby(K), pre.get("fn", "sum"))(split_out=pre["split_out"], shuffle_method=pre.get("method", "tasks"))
        x = x.reset_index()
    elif kind == "merge":
        other = pdf0[K].drop_duplicates().reset_index(drop=True)
        other["w"] = (other.index.to_numpy() % 5).astype("float64")
        x = x.merge(dd.from_pandas(other, npartitions=2), on=K, how="inner", shuffle_method=pre.get("method", "tasks"),
                    broadcast=False)
    elif kind == "set_index":
        x = x.set_index(K[0], shuffle_method=pre.get("method", "tasks"))
    elif kind == "repartition":
        x = x.repartition(npartitions=pre["n"])
    else:
        raise ValueError(kind)
    then = pre.get("then")
    if then == "assign":
        x = x.assign(z=x["c"] * 2)
    elif then == "filter":
        x = x[x["d"] > -2]
    elif then == "assign-key":
        x = x.assign(**{K[0]: x[K[0]] % 2})
    return x


def frames_setup():
    from vf.gen import frames

    return frames.setup()


def _relation(K, G):
    K, G = set(K), set(G)
    if not K:
        return "none"
    if K == G:
        return "equal"
    if K > G:
        return "superset"
    if K < G:
        return "subset"
    return "overlap" if K & G else "disjoint"


def _apply(df, case, dask_side, meta=None):
    op = case["op"]
    g = df.groupby(_keys(df, case), **case["gkw"])
    sel = op.get("sel")
    if sel is not None:
        g = g[sel]
    akw = dict(case["akw"]) if dask_side else {}
    k = op["kind"]
    if k == "single":
        return getattr(g, op["fn"])(**op.get("kw", {}), **akw)
    if k == "agg":
        spec = op["spec"]
        if op["form"] == "named":
            return g.agg(**{name: tuple(v) for name, v in spec.items()}, **akw)
        if op["form"] == "s-named":
            return g.agg(**spec, **akw)
        return g.agg(spec, **akw)
    if k == "cum":
        return getattr(g, op["fn"])()
    mkw = dict(akw, meta=meta) if dask_side else {}
    if k == "transform":
        return g.transform(TRANSFORMS[op["func"]], **mkw)
    if k == "apply":
        return g.apply(APPLY[op["func"]], **mkw)
    if k == "shift":
        return g.shift(op["periods"], **mkw)
    if k in ("ffill", "bfill"):
        return getattr(g, k)(limit=op.get("limit"), **akw)
    if k == "value_counts":
        return g.value_counts(**akw)
    raise ValueError(k)


def _opname(op):
    k = op["kind"]
    if k in ("single", "cum"):
        return op["fn"]
    if k == "agg":
        return "agg"
    if k == "transform":
        return "transform"
    return k          # apply, shift, ffill, bfill, value_counts


FAMILY = {"idxmin": "idxmin-idxmax", "idxmax": "idxmin-idxmax", "first": "first-last", "last": "first-last",
          "ffill": "ffill-bfill", "bfill": "ffill-bfill", "cumsum": "cum", "cumprod": "cum", "cumcount": "cum",
          "cov": "cov-corr", "corr": "cov-corr", "mean": "mean-var-std", "var": "mean-var-std", "std": "mean-var-std"}


def _family(name):
    return FAMILY.get(name, name)


def _keysorted(x):
    """keyed-multiset normal form: rows sorted by index levels, then by values (NaN last), stable."""
    import numpy as np
    import pandas as pd

    from vf.gen.frames import _sortable

    if isinstance(x, pd.Series):
        df = x.to_frame(name="__v")
    else:
        df = x.copy()
    df.columns = ["__c%d" % i for i in range(df.shape[1])]
    if isinstance(df.index, pd.MultiIndex):
        idx = df.index.to_frame(index=False, allow_duplicates=True)
        idx.columns = ["__i%d" % i for i in range(idx.shape[1])]
    else:
        idx = pd.DataFrame({"__i0": np.asarray(df.index, dtype=object) if isinstance(df.index.dtype, pd.CategoricalDtype)
                            else df.index})
    idx = idx.reset_index(drop=True)
    both = pd.concat([idx, df.reset_index(drop=True)], axis=1)
    keys = _sortable(both).reset_index(drop=True)
    try:
        order = keys.sort_values(list(keys.columns), kind="stable", na_position="last").index
    except TypeError:
        keys = keys.astype(str)
        order = keys.sort_values(list(keys.columns), kind="stable").index
    return x.iloc[np.asarray(order)]


def _plain_index(idx):
    """index with categorical levels turned into their values (categories are compared as sets elsewhere)."""
    import pandas as pd

    if isinstance(idx, pd.MultiIndex):
        f = idx.to_frame(index=False, allow_duplicates=True)
        f.columns = range(f.shape[1])
        for c in f.columns:
            if isinstance(f[c].dtype, pd.CategoricalDtype):
                f[c] = f[c].astype(object)
        return pd.MultiIndex.from_frame(f, names=list(idx.names))
    if isinstance(idx.dtype, pd.CategoricalDtype):
        return idx.astype(object)
    return idx


def _key_frame(idx, nkeys):
    import pandas as pd

    if isinstance(idx, pd.MultiIndex):
        f = idx.to_frame(index=False, allow_duplicates=True).iloc[:, :nkeys]
    else:
        f = pd.DataFrame({0: idx})
    f.columns = range(f.shape[1])
    for c in f.columns:
        if isinstance(f[c].dtype, pd.CategoricalDtype):
            f[c] = f[c].astype(object)
    return f


def _na_key_mask(x, nkeys):
    return _key_frame(x.index, nkeys).isna().any(axis=1).to_numpy()


def _key_tuples(x, nkeys):
    import pandas as pd

    f = _key_frame(x.index, nkeys)
    return [tuple("<NA>" if pd.isna(v) else v for v in row) for row in f.itertuples(index=False, name=None)]


def _row_na_keys(pdf, case):
    """per input row: is any grouping key NA (pandas drops such rows from the groups when dropna is true)."""
    import numpy as np
    import pandas as pd

    ks = _keys(pdf, case)
    ks = ks if isinstance(ks, list) else [ks]
    m = np.zeros(len(pdf), dtype=bool)
    for k in ks:
        if isinstance(k, pd.Series):
            m |= k.isna().to_numpy()
        elif k == pdf.index.name and k is not None and k not in pdf.columns:
            m |= pd.isna(pdf.index).to_numpy() if hasattr(pd.isna(pdf.index), "to_numpy") else np.asarray(pd.isna(pdf.index))
        else:
            m |= pdf[k].isna().to_numpy()
    return m


def _neg_zero_key(pdf, case):
    import numpy as np
    import pandas as pd

    ks = _keys(pdf, case)
    for k in ks if isinstance(ks, list) else [ks]:
        v = k if isinstance(k, pd.Series) else (pdf[k] if k in pdf.columns else None)
        if v is not None and v.dtype == "float64":
            a = v.to_numpy()
            z = a == 0
            if (z & np.signbit(a)).any() and (z & ~np.signbit(a)).any():
                return True
    return False


def _partition_key_sets(ddf, case):
    """group keys present in each input partition (computed with pandas on the materialised partitions)."""
    import dask

    parts = dask.compute(*[ddf.partitions[i] for i in range(ddf.npartitions)], scheduler="sync")
    out = []
    nk = len(case["by"])
    for p in parts:
        if not len(p):
            out.append(set())
            continue
        ks = _keys(p, case)
        s = p.groupby(ks, dropna=False, observed=True, sort=False).size()
        out.append(set(_key_tuples(s, nk)))
    return out


def _diff_keys(r, e, nkeys):
    """keys of the rows that differ between two key-sorted results with identical index."""
    import numpy as np
    import pandas as pd

    a = r.to_frame() if isinstance(r, pd.Series) else r
    b = e.to_frame() if isinstance(e, pd.Series) else e
    bad = np.zeros(len(a), dtype=bool)
    for i in range(a.shape[1]):
        x, y = a.iloc[:, i], b.iloc[:, i]
        xn, yn = x.isna().to_numpy(), y.isna().to_numpy()
        try:
            xv = x.to_numpy(dtype="float64", na_value=np.nan)
            yv = y.to_numpy(dtype="float64", na_value=np.nan)
            same = np.isclose(xv, yv, rtol=1e-7, atol=1e-8, equal_nan=True)
        except (TypeError, ValueError):
            same = np.asarray(x.astype(object).to_numpy() == y.astype(object).to_numpy())
            same = same | (xn & yn)
        bad |= ~same
    keys = _key_tuples(r, nkeys)
    return {k for k, b_ in zip(keys, bad) if b_}


def _features(case, pdf, ddf, plan):
    by, gkw, akw, op = case["by"], case["gkw"], case["akw"], case["op"]
    sel = op.get("sel")
    selcols = list(pdf.columns) if sel is None else (sel if isinstance(sel, list) else [sel])
    f = {}
    f["shuffle-plan"] = any("Shuffle" in n for n in plan)
    so = akw.get("split_out")
    f["split_out>1"] = so is True or (so is not None and so != 1)
    f["shuffle_method"] = akw.get("shuffle_method")
    f["split_every"] = akw.get("split_every")
    f["sort"] = gkw.get("sort")
    f["dropna"] = gkw.get("dropna")
    f["observed"] = gkw.get("observed")
    f["cat-key"] = "k" in by
    f["multi-key"] = len(by) > 1
    f["series-key"] = any(t.startswith("s:") for t in by)
    f["series-key-name-collides"] = any(t.startswith("s:") and _base_col(t) in selcols for t in by)
    f["index-key"] = any(t.startswith("@") for t in by)
    f["na-keys"] = bool(_row_na_keys(pdf, case).any())
    f["nullable-int-key"] = "n" in by
    f["datetime-key"] = "t" in by
    f["neg-zero-key"] = _neg_zero_key(pdf, case)
    f["npartitions"] = ddf.npartitions
    f["pre-step"] = "%s&keys-relation:%s" % (case["pre"]["kind"], _relation(case["pre"].get("keys") or [], by)) \
        if case.get("pre") else None
    f["empty-partition"] = any(n == 0 for n in _part_lengths(case, len(pdf), ddf))
    f["known-divisions"] = bool(ddf.known_divisions)
    f["index-increasing-unique"] = bool(pdf.index.is_monotonic_increasing and pdf.index.is_unique)
    f["index-unique"] = bool(pdf.index.is_unique)
    f["rows"] = len(pdf)
    f["values-have-NA"] = bool(pdf[[c for c in selcols if c in pdf.columns]].isna().any().any())
    return f


def _fallback_pred(f):
    if not f.get("rows", 1):
        return "empty-frame"
    if f.get("empty-result"):
        return "empty-result"
    if f.get("cat-key") and f.get("observed") is False:
        return "cat-key&observed=False"
    return "other"


class _Judge:
    """staged comparison: every deviation that can be normalised away is reported with its own label and then
    repaired, so that a second, different deviation in the same result is still seen."""

    def __init__(self, case, ctx, name, feats, pdf, ddf, ordered, rtol, odep):
        self.case, self.ctx, self.name, self.f = case, ctx, name, feats
        self.pdf, self.ddf, self.ordered, self.rtol, self.odep = pdf, ddf, ordered, rtol, odep
        self.fam = _family(name)
        self.nkeys = len(case["by"])
        self.got = self.exp = None

    def report(self, pred, symptom, msg, fam=None):
        verified = pred != "other"
        if not verified:
            pred = _fallback_pred(self.f)
        self.ctx.finding(fam or self.fam, pred, symptom, msg, verified, features=self.f, by=self.case["by"],
                         gkw=self.case["gkw"], akw=self.case["akw"], op=self.case["op"], got=self.got, expected=self.exp)

    # ------------------------------------------------------------------
    def run(self, r, e):
        import pandas as pd

        from vf.gen import frames

        case, f, op = self.case, self.f, self.case["op"]
        self.got, self.exp = _short(r), _short(e)
        f["empty-result"] = hasattr(e, "__len__") and len(e) == 0
        kind = op["kind"]
        agg_like = kind in ("single", "agg", "value_counts")
        # 1 -- object kind
        if isinstance(e, pd.DataFrame) != isinstance(r, pd.DataFrame) or isinstance(e, pd.Series) != isinstance(r, pd.Series):
            pred = "other"
            if kind == "agg" and "median" in _agg_funcs(op) and op["form"] == "s-str":
                pred = "agg[median]&series-groupby&single-function"
            self.report(pred, "kind", "got %s, expected %s" % (type(r).__name__, type(e).__name__))
            return
        if not isinstance(e, (pd.DataFrame, pd.Series)):
            m = frames.compare(r, e, rtol=self.rtol)
            if m:
                self.report("other", m[0], m[1])
            return
        # 2 -- columns
        if isinstance(e, pd.DataFrame) and list(r.columns) != list(e.columns):
            same_set = len(r.columns) == len(e.columns) and set(map(repr, r.columns)) == set(map(repr, e.columns)) \
                and r.columns.is_unique
            if same_set:
                pred = "other"
                sel = op.get("sel")
                if isinstance(sel, list) and [c for c in self.pdf.columns if c in sel] != sel:
                    if self.fam in ("mean-var-std", "cov-corr", "median"):
                        pred = "list-selection-not-in-frame-order"
                    elif kind == "agg" and "median" in _agg_funcs(op):
                        pred = "agg[median]&list-selection-not-in-frame-order"
                self.report(pred, "columns-order", "columns %s vs expected %s" % (list(r.columns), list(e.columns)))
                r = r[list(e.columns)]
                if self.fam == "cov-corr":
                    self.ordered = False      # the inner index level lists the same columns
            else:
                pred = "other"
                if kind == "agg" and "median" in _agg_funcs(op) and op["form"] in ("s-list", "s-named"):
                    pred = "agg[median]&series-groupby"
                self.report(pred, "columns", "columns %s vs expected %s" % (list(r.columns), list(e.columns)))
                if r.shape[1] != e.shape[1]:
                    return
                r = r.copy()
                r.columns = e.columns
        # 3 -- names
        if isinstance(e, pd.Series) and not (r.name == e.name or (pd.isna(r.name) if not isinstance(r.name, tuple) else False)
                                             and (pd.isna(e.name) if not isinstance(e.name, tuple) else False)):
            pred = "other"
            if self.name == "cumcount" and self.f["empty-partition"]:
                pred = "empty-partition"
            self.report(pred, "name", "Series name %r vs expected %r" % (r.name, e.name))
            r = r.rename(e.name)
        if list(r.index.names) != list(e.index.names):
            self.report(self._pred_other(), "index-names",
                        "index names %s vs expected %s" % (list(r.index.names), list(e.index.names)))
            if r.index.nlevels != e.index.nlevels:
                return
            r = r.rename_axis(list(e.index.names)) if r.index.nlevels > 1 else r.rename_axis(e.index.names[0])
        # 4 -- groups that exist on one side only for a nameable reason
        if agg_like and r.index.nlevels >= min(self.nkeys, e.index.nlevels) and r.index.nlevels == e.index.nlevels:
            rn, en = _na_key_mask(r, self.nkeys), _na_key_mask(e, self.nkeys)
            if rn.any() != en.any():
                # only when the NA group is the whole difference in the key sets
                rk0 = {k for k, m_ in zip(_key_tuples(r, self.nkeys), rn) if not m_}
                ek0 = {k for k, m_ in zip(_key_tuples(e, self.nkeys), en) if not m_}
                if rk0 != ek0:
                    rn = en = rn & False
            if rn.any() and not en.any():
                self.report("na-keys&dropna!=False", "extra-NA-group",
                            "%d result rows carry an NA group key, pandas has none (dropna=%r)" % (rn.sum(), f["dropna"]))
                r = r[~rn]
            elif en.any() and not rn.any():
                self.report("na-keys&dropna=False", "NA-group-missing",
                            "pandas has %d rows with an NA group key, the result none" % en.sum())
                e = e[~en]
            if len(r) > len(e) and f["shuffle-plan"] and self.fam != "cov-corr" and kind != "value_counts":
                rk = _key_tuples(r, self.nkeys)
                dup = {k for k in rk if rk.count(k) > 1}
                if dup and set(rk) == set(_key_tuples(e, self.nkeys)):
                    if f["neg-zero-key"] and all(any(isinstance(v, float) and v == 0 for v in k) for k in dup):
                        self.report("key-has-0.0-and-negative-0.0&shuffle", "groups-duplicated",
                                    "groups %s appear more than once (0.0 and -0.0 are one pandas group)" % sorted(dup, key=repr)[:4],
                                    fam="agg-any")
                        return
                    if f["dropna"] is False and all("<NA>" in k for k in dup):
                        self.report("na-keys&dropna=False&shuffle", "NA-group-split",
                                    "groups %s appear more than once" % sorted(dup, key=repr)[:4], fam="agg-any")
                        return
            if f["cat-key"] and f["observed"] is False and kind != "value_counts" and len(r) != len(e):
                rk, ek = _key_tuples(r, self.nkeys), _key_tuples(e, self.nkeys)
                xfam = self.name if self.name in ("nunique", "median") else "agg-any"
                if len(rk) > len(ek) and set(rk) == set(ek) and len(set(rk)) < len(rk) and self.name not in ("cov", "corr"):
                    self.report("cat-key&observed=False" + ("&shuffle" if f["shuffle-plan"] else ""), "groups-duplicated",
                                "%d result rows for %d distinct group keys; pandas has %d rows" % (len(rk), len(set(rk)), len(ek)),
                                fam=xfam)
                    return
                if len(rk) < len(ek) and set(rk) < set(ek) and (len(set(rk)) == len(rk) or self.fam == "cov-corr"):
                    try:
                        obs = self.pdf.groupby(_keys(self.pdf, case), observed=True, dropna=False, sort=False).size()
                        obs = set(_key_tuples(obs, self.nkeys))
                    except Exception:  # noqa: BLE001
                        obs = None
                    miss = set(ek) - set(rk)
                    if obs is not None and not (miss & obs):
                        import numpy as np

                        self.report("cat-key&observed=False", "unobserved-groups-missing",
                                    "%d groups of unobserved category combinations are absent" % len(miss), fam=xfam)
                        e = e[np.asarray([k not in miss for k in ek])]
        if not agg_like and kind != "cum" and len(r) != len(e):
            nam = _row_na_keys(self.pdf, case)
            if f["dropna"] is not False and nam.any() and len(e) - nam.sum() <= len(r) < len(e):
                self.report("na-keys&dropna!=False", "rows-with-NA-key-missing",
                            "%d rows vs expected %d: %d of the %d rows whose key is NA are absent"
                            % (len(r), len(e), len(e) - len(r), nam.sum()), fam="transform-like")
                if len(r) != len(e) - nam.sum():
                    return
                e = e[~nam]
        # 5 -- length
        if len(r) != len(e):
            self.report(self._pred_other(), "length", "%d rows vs expected %d" % (len(r), len(e)))
            return
        # 6 -- keyed multiset / ordered comparison
        if not self.ordered:
            try:
                r, e = _keysorted(r), _keysorted(e)
            except Exception:  # noqa: BLE001
                pass
        m = frames.compare(r, e, ordered=True, rtol=self.rtol)
        if m is not None and m[0] == "dtype":
            self.report(self._pred_dtype(r, e), "dtype", m[1])
            m = frames.compare(r, e, ordered=True, rtol=self.rtol, check_dtype=False)
        if m is None:
            return
        symptom = m[0]
        if symptom in ("index", "values"):
            mi = frames.compare(_plain_index(r.index), _plain_index(e.index), ordered=True)
            symptom = "index" if mi is not None else "values"
        if symptom == "index" and self.ordered:
            # same rows in another order?
            try:
                m2 = frames.compare(_keysorted(r), _keysorted(e), ordered=True, rtol=self.rtol, check_dtype=False)
            except Exception:  # noqa: BLE001
                m2 = m
            if m2 is None:
                self.report(self._pred_other("row-order"), "row-order", m[1])
                return
        self.report(self._pred_values(r, e, symptom), symptom, m[1])

    # ------------------------------------------------------------------
    def _pred_other(self, symptom=None):
        f = self.f
        if symptom == "row-order" and self.name in ("nunique", "median") and f["sort"] is True:
            return "sort=True&split_out=1"
        if self.name == "median" and f["split_every"] and (f["series-key"] or f["index-key"]):
            return "split_every&series-or-index-key"
        if self.fam == "value_counts" and f["neg-zero-key"]:
            return "key-has-0.0-and-negative-0.0"
        if self.fam == "value_counts" and f["na-keys"] and f["dropna"] is False:
            return "na-keys&dropna=False"
        return "other"

    def _pred_dtype(self, r, e):
        return "other"

    def _pred_values(self, r, e, symptom):
        f, case, op = self.f, self.case, self.case["op"]
        fam = self.fam
        if symptom != "values":
            if fam in ("ffill-bfill", "shift", "transform") and f["shuffle-plan"] and not f["index-unique"]:
                return "after-shuffle&duplicate-index-labels"
            return "other"
        if fam == "agg" and f["cat-key"] and f["observed"] is False and {"median", "size"} <= set(_agg_funcs(op)):
            # the holistic path appends one placeholder row per unobserved category and partition; size counts them
            return "agg[median+size]&cat-key&observed=False"
        spans = None
        if fam in ("idxmin-idxmax", "first-last") or (fam == "agg" and self.odep):
            try:
                sets = _partition_key_sets(self.ddf, case)
                cnt = {}
                for s in sets:
                    for k in s:
                        cnt[k] = cnt.get(k, 0) + 1
                dk = _diff_keys(r, e, self.nkeys)
                spans = bool(dk) and all(cnt.get(k, 0) >= 2 for k in dk)
            except Exception:  # noqa: BLE001
                spans = None
        if fam == "idxmin-idxmax":
            return "group-spans-partitions" if spans else "other"
        if fam == "first-last" or (fam == "agg" and self.odep):
            if spans and f["shuffle-plan"]:
                return "after-shuffle:group-spans-partitions"
            return "group-spans-partitions" if spans else "other"
        if fam == "transform" and f["neg-zero-key"] and f["shuffle-plan"]:
            return "key-has-0.0-and-negative-0.0&shuffle"
        if fam == "transform" and f["na-keys"] and f["dropna"] is False and f["shuffle-plan"]:
            return "na-keys&dropna=False&shuffle"
        if fam == "value_counts" and f["neg-zero-key"]:
            return "key-has-0.0-and-negative-0.0"
        if fam == "value_counts" and f["na-keys"] and f["dropna"] is False:
            return "na-keys&dropna=False"
        if fam == "cum":
            if f["values-have-NA"] and self._all_diffs_are_result_na(r, e):
                return "NA-in-values:spurious-NA"
            return "other"
        if fam == "ffill-bfill":
            return "after-shuffle" if f["shuffle-plan"] else "other"
        if fam == "shift":
            if f["shuffle-plan"] and not f["index-increasing-unique"]:
                return "after-shuffle&index-not-strictly-increasing"
            if f["shuffle-plan"] and f["neg-zero-key"]:
                return "key-has-0.0-and-negative-0.0&shuffle"
            return "other"
        if fam == "cov-corr":
            if f["values-have-NA"]:
                return "NA-in-values"
            if self.name == "cov" and op.get("kw", {}).get("ddof", 1) != 1:
                return "ddof!=1"
            return "other"
        return "other"


def _all_diffs_are_result_na(self, r, e):
    import numpy as np
    import pandas as pd

    a = r.to_frame() if isinstance(r, pd.Series) else r
    b = e.to_frame() if isinstance(e, pd.Series) else e
    for i in range(a.shape[1]):
        x, y = a.iloc[:, i], b.iloc[:, i]
        xn = x.isna().to_numpy()
        xv = x.to_numpy(dtype="float64", na_value=np.nan)
        yv = y.to_numpy(dtype="float64", na_value=np.nan)
        diff = ~np.isclose(xv, yv, rtol=1e-7, atol=1e-8, equal_nan=True)
        if (diff & ~xn).any():
            return False
    return True


_Judge._all_diffs_are_result_na = _all_diffs_are_result_na


def _short(x):
    try:
        return x.head(12).to_string()[:700]
    except Exception:  # noqa: BLE001
        return repr(x)[:300]


def _exc_prefix(case, name, feats, exc):
    """op family + verified input-feature predicate for an exception raised by dask."""
    from vf.core.ctx import dask_frame

    fam = _family(name)
    fr = dask_frame(exc)
    fn = fr[1] if fr else ""
    len_pdf = feats.get("rows", 1)
    msg = str(exc)
    op = case["op"]
    f = feats
    pred = "other"
    if fn == "_groupby_raise_unaligned" and f["series-key"] and fam == "cum":
        pred = "series-key"
    elif "already exists" in msg and f["series-key-name-collides"]:
        fam, pred = "agg-any", "series-key-named-like-selected-column&shuffle"
    elif fam == "median" and isinstance(exc, (ZeroDivisionError, AssertionError)) and f["split_every"] \
            and f["split_every"] > f["npartitions"]:
        pred = "split_every>npartitions"
    elif fam == "agg" and fn == "_build_agg_args" and "conflicting aggregation" in msg and op["form"] == "named" \
            and len({tuple(v) for v in op["spec"].values()}) < len(op["spec"]):
        pred = "named&same-(column,function)-twice"
    elif fam == "agg" and "median" in _agg_funcs(op):
        if isinstance(exc, KeyError) and "options" in msg and f["sort"] is True:
            pred = "agg[median]&sort=True"
        elif fn == "_non_agg_chunk" and f["index-key"]:
            pred = "agg[median]&index-key"
        else:
            pred = "agg[median]&other"
    elif fam == "idxmin-idxmax" and "all NA values" in msg:
        pred = "group-all-NA-within-a-partition"
    elif fam == "value_counts" and fn == "_value_counts_aggregate" and isinstance(exc, ValueError) \
            and f["multi-key"] and f["dropna"] is False:
        pred = "multi-key&dropna=False"
    elif fam == "value_counts" and fn == "_value_counts_aggregate" and isinstance(exc, AttributeError) \
            and f.get("partition-without-non-NA-key"):
        pred = "partition-without-non-NA-key"
    elif fam == "value_counts" and fn == "_groupby_aggregate" and "multiple levels" in msg and f["multi-key"] \
            and f.get("partition-without-non-NA-key"):
        pred = "multi-key&partition-without-non-NA-key"
    elif fam == "value_counts" and isinstance(exc, KeyError) and f.get("partition-without-non-NA-key") and f["shuffle-plan"]:
        pred = "partition-without-non-NA-key&shuffle"
    elif fam in ("ffill-bfill", "transform") and f["nullable-int-key"] and f["dropna"] is False and "NA is ambiguous" in msg:
        fam, pred = "transform-like", "nullable-int-key&dropna=False"
    elif f["cat-key"] and f["observed"] is False and "non-empty take from an empty" in msg and op["kind"] in ("single", "agg"):
        fam, pred = "agg-any", "cat-key&observed=False&multi-key" if f["multi-key"] else "cat-key&observed=False"
    elif fam in ("ffill-bfill", "transform") and f["na-keys"] and f["dropna"] is not False and fn == "_groupby_slice_transform" \
            and ("No objects to concatenate" in msg or "non-empty take from an empty" in msg):
        fam, pred = "transform-like", "na-keys&dropna!=False"
    elif fam == "value_counts" and fn == "_value_counts" and f["cat-key"] and f["observed"] is False:
        pred = "cat-key&observed=False"
    elif fam == "shift" and "duplicate labels" in msg and f["series-key"] and not f["index-unique"]:
        pred = "series-key&duplicate-index-labels"
    elif fam == "cov-corr":
        if fn == "make_meta_object":
            pred = "meta-of-tuple-chunk"
        elif fn in ("_cov_finalizer", "_cov_agg") and isinstance(exc, (ValueError, AttributeError)) and f["empty-partition"]:
            pred = "empty-partition"
        elif fn == "_groupby_raise_unaligned" and isinstance(exc, KeyError) and f["series-key"] and f["multi-key"]:
            pred = "series-key&multi-key"
        elif f["index-key"] and isinstance(exc, KeyError):
            pred = "index-key"
        elif "NA is ambiguous" in msg and f["values-have-NA"]:
            pred = "nullable-NA-in-values"
    verified = pred != "other"
    if not verified:
        pred = _fallback_pred(f)
    return fam, pred, verified


class _Tap:
    """what _run reports to: observation calls go to the real ctx (or nowhere, for the ablated re-run of a case);
    findings are collected as structured items (family, predicate, symptom) so that they can be canonicalised
    before they become labels."""

    def __init__(self, ctx=None):
        self.ctx, self.items, self.status, self.feats = ctx, [], "ok", None
        self.nontrivial, self.sig, self.sample = False, None, None

    @property
    def violations(self):
        return self.items

    def op(self, *a):
        if self.ctx is not None:
            self.ctx.op(*a)

    def count(self, *a):
        if self.ctx is not None:
            self.ctx.count(*a)

    def distinct(self, *a):
        if self.ctx is not None:
            self.ctx.distinct(*a)

    def reject(self, reason):
        self.status = "rejected"
        if self.ctx is not None:
            self.ctx.reject(reason)

    def unsupported(self, reason):
        self.status = "unsupported"
        if self.ctx is not None:
            self.ctx.unsupported(reason)

    def finding(self, fam, pred, symptom, msg, verified, **detail):
        self.items.append({"fam": fam, "pred": pred, "symptom": symptom, "msg": msg, "verified": verified,
                           "detail": detail, "exc": None})

    def exception(self, exc, fam, pred, verified, **detail):
        from vf.core.ctx import CaseTimeout, exc_label

        if isinstance(exc, CaseTimeout):
            raise exc
        self.items.append({"fam": fam, "pred": pred, "symptom": exc_label(exc), "msg": "%s: %s" % (type(exc).__name__, exc),
                           "verified": verified, "detail": detail, "exc": exc})


def _label(it):
    if it.get("label"):
        return it["label"]
    sym = it["symptom"]
    if it["exc"] is not None and it["verified"]:
        sym = sym.split("@")[0]            # the verified input predicate names the mechanism; keep the exception type only
    return "%s:%s:%s" % (it["fam"], it["pred"], sym)


def _group(fam):
    if fam in ("nunique", "median", "cov-corr", "value_counts", "cum"):
        return fam
    if fam in ("transform", "shift", "ffill-bfill", "transform-like", "apply"):
        return "transform-like"
    return "agg-any"


def _symptom_class(it):
    if it["exc"] is not None:
        return "exception"
    s = it["symptom"]
    return "names" if s in ("name", "index-names") else s


ABLATIONS = ("cat-key&observed=False", "key-has-0.0-and-negative-0.0", "na-keys&dropna=False", "na-keys&dropna!=False",
             "pre-step-partitioning-knowledge")


def _ablated(case, feats, feature):
    """the same case with one input feature removed, or None when the case does not have the feature"""
    gkw = dict(case["gkw"])
    if feature == "cat-key&observed=False" and feats.get("cat-key") and feats.get("observed") is False:
        gkw["observed"] = True
        return dict(case, gkw=gkw)
    if feature == "key-has-0.0-and-negative-0.0" and feats.get("neg-zero-key"):
        return dict(case, nonegzero=True)
    if feature == "na-keys&dropna=False" and feats.get("na-keys") and feats.get("dropna") is False:
        gkw.pop("dropna")
        return dict(case, gkw=gkw)
    if feature == "na-keys&dropna!=False" and feats.get("na-keys") and feats.get("dropna") is not False:
        return dict(case, dropnakeyrows=True)
    if feature == "pre-step-partitioning-knowledge" and case.get("pre") and not case.get("noknowledge"):
        return dict(case, noknowledge=True)      # the same partitions, materialised
    return None


def _canonicalise(case, feats, items):
    """one mechanism = one label.

    (1) static merges of symptom variants of one verified predicate; (2) ablation: for the input features that
    produce a tail of symptom variants (unobserved categories, 0.0/-0.0 keys, NA keys) the case is re-run with the
    feature removed; findings that name the feature (or have no verified predicate) and are gone in the ablated run
    are caused by it and are replaced by ONE label ``<op group>:<feature>``.  Whatever is not matched keeps its full
    label, so a new defect still shows as new."""
    for it in items:
        if it["fam"] == "agg" and it["pred"].endswith("group-spans-partitions"):
            it["fam"] = "first-last"                      # agg([... 'first'/'last' ...]) runs the same chunk/aggregate pair
        if it["pred"] in ("agg[median]&series-groupby&single-function", "agg[median]&series-groupby") \
                and it["symptom"] in ("kind", "columns"):
            it["pred"], it["symptom"] = "agg[median]&series-groupby", "result-shape"
        if it["fam"] == "cov-corr" and it["pred"] == "empty-partition" and it["exc"] is not None:
            it["label"] = "cov-corr:empty-partition:exception"
        if it["pred"] == "empty-frame":
            it["label"] = "%s:empty-frame:%s" % (_group(it["fam"]), _symptom_class(it))
        if it["pred"] == "empty-result":
            it["label"] = "%s:empty-result:%s" % (_group(it["fam"]), _symptom_class(it))
        for feature in ABLATIONS:
            # the staged comparison verified the feature on the witness (e.g. "the duplicated groups are ..."):
            # all its symptom variants are one mechanism
            if it["verified"] and (it["pred"] == feature or it["pred"].startswith(feature + "&")):
                it["label"], it["canonical"] = "%s:%s" % (_group(it["fam"]), feature), True
    for feature in ABLATIONS:
        elig = [it for it in items if not it.get("canonical") and (feature in it["pred"] or not it["verified"])]
        if not elig:
            continue
        acase = _ablated(case, feats, feature)
        if acase is None:
            continue
        tap = _Tap(None)
        try:
            _run(acase, tap)
        except Exception:  # noqa: BLE001  (attribution only)
            continue
        if tap.status != "ok":
            continue
        left = {(it["fam"], it["symptom"]) for it in tap.items}
        gone = [it for it in elig if (it["fam"], it["symptom"]) not in left]
        if not gone:
            continue
        first = gone[0]
        name = feature
        if feature == "pre-step-partitioning-knowledge":
            # which step left the knowledge does not matter for the mechanism, the relation of its keys to the group keys does
            name = "%s&keys-relation:%s" % (feature, _relation(case["pre"].get("keys") or [], case["by"]))
        merged = dict(first, label="%s:%s" % (_group(first["fam"]), name), canonical=True,
                      msg="%s  [caused by %s: the same case without it has none of %s]"
                          % (first["msg"], feature, sorted({_label(g) for g in gone})))
        items = [it for it in items if it not in gone] + [merged]
    return items


def run_case(case, ctx):
    from vf.core.ctx import through_shim

    tap = _Tap(ctx)
    _run(case, tap)
    ctx.nontrivial, ctx.sig, ctx.sample = tap.nontrivial, tap.sig, tap.sample
    items = tap.items
    if items and tap.feats is not None:
        ctx.count("cases_with_findings")
        items = _canonicalise(case, tap.feats, items)
        if any(it.get("canonical") for it in items):
            ctx.count("findings_attributed_by_ablation")
    seen = set()
    for it in items:
        lab = _label(it)
        if lab in seen:
            continue
        seen.add(lab)
        if it["exc"] is not None:
            if through_shim(it["exc"]):
                ctx.envlimited(it["msg"])
                continue
            import traceback

            e = it["exc"]
            it["detail"]["traceback"] = "".join(traceback.format_exception(type(e), e, e.__traceback__))[-3000:]
        ctx.violation(lab, it["msg"], **it["detail"])


def _run(case, ctx):
    from vf.gen import frames

    frames.setup()
    import pandas as pd

    warnings.simplefilter("ignore")
    if not _TMP:
        _private_tmp()          # replay / direct call without shard_setup
    _NONEGZERO[0] = bool(case.get("nonegzero"))
    op = case["op"]
    name = _opname(op)
    pdf = _frame(case)
    ctx.op("op:" + name)
    if op["kind"] == "agg":
        ctx.op("aggform:" + op["form"])
    pre = case.get("pre")
    pre_ddf = None
    if pre:
        # ---- pre-step facet: the grouped frame X is the result of earlier dask steps (shuffle, groupby-agg +
        # reset_index, hash merge, set_index, repartition, then maybe a blockwise step).  Reference = pandas on
        # compute(X): the property is about the groupby, the steps before it belong to other properties; what
        # matters here is the partitioning knowledge they leave on X.
        import dask

        tag = "pre-step:%s&keys-relation:%s" % (pre["kind"], _relation(pre.get("keys") or [], case["by"]))
        try:
            ddf0 = frames.partition(pdf, case["part"])
            pre_ddf = _pre(ddf0, pre, pdf, deterministic=op["kind"] not in ("single", "agg", "value_counts"))
            # one optimised plan for the whole of X, as in the groupby graph (slicing X with .partitions[i] can be planned
            # differently, e.g. where reset_index numbers the rows)
            parts = dask.compute(*pre_ddf.to_delayed(), scheduler="sync")
            pdf = pd.concat(parts) if parts else pre_ddf._meta
            _PARTLEN[:] = [len(x) for x in parts]
        except NotImplementedError as ex:
            ctx.unsupported("pre-step %s: %s" % (pre["kind"], ex))
            return
        except Exception as ex:  # noqa: BLE001
            ctx.exception(ex, "pre-step[%s]" % pre["kind"], "other", False, pre=pre)
            return
        ctx.count(tag)
        if pre.get("then"):
            ctx.count("pre-step-then:" + pre["then"])
    # ---- reference first: pandas refusing the program means the property does not speak ------------
    try:
        expected = _apply(pdf, case, False)
    except Exception as ex:  # noqa: BLE001
        ctx.reject("pandas: %s: %s" % (type(ex).__name__, ex))
        return
    meta = None
    if op["kind"] in ("transform", "shift", "apply"):
        meta = expected.iloc[:0] if isinstance(expected, pd.DataFrame) else (expected.name, expected.dtype)
    try:
        if pre_ddf is None:
            ddf = frames.partition(pdf, case["part"])
        elif case.get("noknowledge"):
            # ablation: the same partitions, materialised, without any knowledge about how they were produced
            dd = frames.setup()
            ddf = dd.from_map(frames._ident, list(parts), meta=pre_ddf._meta)
        else:
            ddf = pre_ddf
    except Exception as ex:  # noqa: BLE001
        ctx.exception(ex, "partition", "other", False)
        return
    plan = ()
    odep = name in ORDER_DEP or (op["kind"] == "agg" and any(f in ORDER_DEP for f in _agg_funcs(op)))
    try:
        coll = _apply(ddf, case, True, meta=meta)
        try:
            plan = sorted({type(x).__name__ for x in coll.optimize(fuse=False).expr.walk()})
        except Exception:  # noqa: BLE001  (plan is observability only; compute decides)
            plan = ()
        result = coll.compute(scheduler="sync")
    except NotImplementedError as ex:
        ctx.unsupported("%s: %s" % (name, ex))
        return
    except Exception as ex:  # noqa: BLE001
        feats = _features(case, pdf, ddf, plan)
        if name == "value_counts":
            # _value_counts returns an index-less empty Series for a partition that is empty or holds NA keys only
            try:
                feats["partition-without-non-NA-key"] = not len(pdf) or any(
                    not {k for k in ks if "<NA>" not in k} for ks in _partition_key_sets(ddf, case))
            except Exception:  # noqa: BLE001
                feats["partition-without-non-NA-key"] = None
        ctx.feats = feats
        ctx.exception(ex, *_exc_prefix(case, name, feats, ex), case_features=feats, by=case["by"],
                      gkw=case["gkw"], akw=case["akw"], op=op)
        return
    feats = _features(case, pdf, ddf, plan)
    ctx.feats = feats
    shuffled = feats["shuffle-plan"]
    ordered = (op["kind"] == "cum") or (
        op["kind"] in ("single", "agg") and case["gkw"].get("sort") is True
        and case["akw"].get("split_out") is not True
        and case["akw"].get("split_out") in ((1,) if name in ("nunique", "median") else (None, 1)))
    ctx.count("compared")
    ctx.count("cmp_ordered" if ordered else "cmp_keyed_multiset")
    ctx.count("plan_shuffle" if shuffled else "plan_no_shuffle")
    if odep:
        ctx.count("order_dependent_after_shuffle" if shuffled else "order_dependent_main")
    if feats["na-keys"]:
        ctx.count("na_key_cases")
    if "k" in case["by"]:
        ctx.count("categorical_key_cases")
    if any(n == 0 for n in _part_lengths(case, len(pdf), ddf)):
        ctx.count("empty_partition_cases")
    nexp = len(expected) if hasattr(expected, "__len__") else 1
    ctx.nontrivial = len(pdf) >= 2 and nexp >= 2 and ddf.npartitions >= 2
    ctx.sig = (case["by"], case["gkw"], op, case["akw"], case["fseed"], case["nrows"], case["part"])
    ctx.distinct("programs", (case["by"], sorted(case["gkw"].items()), op, sorted(case["akw"].items(), key=str)))
    ctx.distinct("plans", plan)
    rtol = 1e-9 if name in ("min", "max", "count", "size", "first", "last", "nunique", "idxmin", "idxmax", "cumcount",
                            "shift", "ffill", "bfill", "value_counts") else 1e-7
    nv = len(ctx.violations)
    try:
        _Judge(case, ctx, name, feats, pdf, ddf, ordered, rtol, odep).run(result, expected)
    except Exception as ex:  # noqa: BLE001  (a comparison step that cannot be carried out is a mismatch of its own)
        if len(ctx.violations) == nv:
            ctx.finding(_family(name), "other", "uncomparable", "%s: %s" % (type(ex).__name__, ex), False, features=feats,
                        got=_short(result), expected=_short(expected))
    ctx.sample = {"op": name, "by": case["by"], "gkw": case["gkw"], "akw": case["akw"], "rows": len(pdf),
                  "npartitions": ddf.npartitions, "groups": nexp, "ordered": ordered, "shuffle": shuffled}


def _part_lengths(case, n, ddf):
    if case.get("pre"):
        return list(_PARTLEN) or [1]
    d = case["part"]
    if d.get("how") in ("slices", "delayed"):
        cuts = sorted(min(max(0, c), n) for c in d.get("cuts", []))
        b = [0] + cuts + [n]
        return [y - x for x, y in zip(b[:-1], b[1:])]
    return [1] * ddf.npartitions if n >= ddf.npartitions else [0]


RULE = ("cases = (frame seed/rows/index kind, partitioning incl. empty partitions and unknown divisions, grouping keys "
        "[column(s), index name, derived Series, NA keys, categorical], sort/dropna/observed, operation, "
        "split_out/shuffle_method/split_every). Complete sub-spaces first: (A) one fixed 24-row frame in 5 row slices with "
        "an empty one, keys 'a' and 'n'(dropna=False): 18 operations x split_out{None,1,2,3,True} x shuffle_method{None,"
        "tasks,disk} x sort{None,True,False}; (B) edge grid: 41 operation forms x 12 key kinds x {24-row frame with empty "
        "first and middle partition, empty frame} x {no keywords, split_out=2+tasks[, split_every=8 for median]}; then "
        "(C) pre-step grid: 13 steps that leave (or drop) partitioning knowledge on the frame [shuffle on keys that are a "
        "superset/equal/subset/overlap/disjoint of the group keys, groupby-agg(split_out>1)+reset_index, hash merge, "
        "shuffle+repartition, set_index, repartition] x {nothing, filter, overwrite a shuffle column[, assign]} x group keys "
        "['a'], ['a','h'] x every groupby op family in whole-frame / selected / selection-keeping-the-shuffle-columns form, "
        "reference = pandas on compute(frame after the pre-step); then seeded random pre-step cases; then "
        "seeded random cases (frames.rand_frame(cols='wide') + many-groups key 'g', 0..60 rows, all index kinds, random "
        "partition descriptions). non-trivial = >=2 rows, >=2 result rows, >=2 partitions; distinct = distinct (program, "
        "frame seed, rows, partitioning)")
ASSUMPTIONS = [
    "pandas 3.0.5 on the concatenated frame is the reference; its refusal (exception) removes the case",
    "dask.dataframe is imported through the pyarrow import stub (pandas-backed strings, convert-string=False)",
    "scheduler='sync'; shuffle_method None resolves to the disk shuffle here; the distributed/p2p shuffle is not reachable",
    "transform/shift get meta= derived from the pandas result (name, dtype / empty frame), as a user would pass it",
]
BUDGET = {"quick": 240, "thorough": 2400}
FLOORS = {
    "quick": {"evaluations": 3600, "distinct_nontrivial": 2000, "max_skipped_fraction": 0.3,
              "counters": {"compared": 2400, "cmp_ordered": 280, "cmp_keyed_multiset": 2100, "plan_shuffle": 1100,
                           "plan_no_shuffle": 1200, "order_dependent_main": 330, "order_dependent_after_shuffle": 320,
                           "na_key_cases": 700, "categorical_key_cases": 250, "empty_partition_cases": 1500,
                           "pre-step:shuffle&keys-relation:superset": 150, "pre-step:shuffle&keys-relation:equal": 90,
                           "pre-step:shuffle&keys-relation:subset": 30, "pre-step:shuffle&keys-relation:overlap": 35,
                           "pre-step:shuffle&keys-relation:disjoint": 100, "pre-step:agg&keys-relation:superset": 100,
                           "pre-step:agg&keys-relation:equal": 30, "pre-step:merge&keys-relation:superset": 40,
                           "pre-step:merge&keys-relation:equal": 60, "pre-step:set_index&keys-relation:disjoint": 30,
                           "pre-step:repartition&keys-relation:none": 60,
                           "pre-step:shuffle+repartition&keys-relation:superset": 40, "pre-step-then:filter": 290,
                           "pre-step-then:assign-key": 240},
              "sets": {"programs": 2000, "plans": 120}},
    "thorough": {"evaluations": 36000, "distinct_nontrivial": 25000, "max_skipped_fraction": 0.3,
                 "counters": {"compared": 26000, "cmp_ordered": 4400, "cmp_keyed_multiset": 22000, "plan_shuffle": 12000,
                              "plan_no_shuffle": 14500, "order_dependent_main": 4400, "order_dependent_after_shuffle": 3800,
                              "na_key_cases": 7800, "categorical_key_cases": 4000, "empty_partition_cases": 5900,
                              "pre-step:shuffle&keys-relation:superset": 800, "pre-step:shuffle&keys-relation:equal": 440,
                              "pre-step:shuffle&keys-relation:subset": 190, "pre-step:shuffle&keys-relation:overlap": 190,
                              "pre-step:shuffle&keys-relation:disjoint": 480, "pre-step:agg&keys-relation:superset": 470,
                              "pre-step:agg&keys-relation:equal": 170, "pre-step:merge&keys-relation:superset": 300,
                              "pre-step:merge&keys-relation:equal": 230, "pre-step:set_index&keys-relation:disjoint": 150,
                              "pre-step:repartition&keys-relation:none": 750,
                              "pre-step:shuffle+repartition&keys-relation:superset": 290, "pre-step-then:filter": 1200,
                              "pre-step-then:assign-key": 970, "pre-step-then:assign": 1250},
                 "sets": {"programs": 25000, "plans": 310}},
}
EXHAUSTIVE_SPACE = {
    "quick": "(A) 18 operations x split_out{None,1,2,3,True} x shuffle_method{None,tasks,disk} x sort{None,True,False} on one "
             "fixed frame for keys 'a' and 'n'(dropna=False) [1620 programs]; (B) edge grid 41 operation forms x 12 key kinds x "
             "{frame with empty partitions, empty frame} x {plain, split_out=2+tasks[, split_every=8]} [1896 programs]; (C) pre-step grid "
             "13 partitioning-knowledge steps x {none, filter, overwrite shuffle column} x 2 group-key sets x 23 op forms [1700 programs]",
    "thorough": "as quick, (A) additionally for keys ['a','b'], 'k'(observed=False), 'n', Series a%2 [4860 programs]; (C) with all 47 "
                "op forms and the assign step [~4400 programs]",
}
CASE_TIMEOUT = 120
CLAIM = ("Every groupby program of the generated stream (two complete finite products of operation x key kind x setting "
         "on fixed frames, then seeded random frames/partitionings/keys/settings) was executed through the real "
         "dask.dataframe API and its computed result compared with pandas on the concatenated frame: object kind, "
         "columns and their order, names, dtypes, group keys incl. NA / unobserved-category groups, values (rtol 1e-7 "
         "for floating reductions), and row order where both sides promise it. 'Held' means no difference outside the "
         "known findings among the executions observed; differences are reported under narrow mechanism labels and "
         "every normalisable deviation (column order, names, NA group, dtype) is repaired before the comparison "
         "continues, so that a second defect in the same result is still seen.")
LEVEL_NOTE = ("trusts pandas as the reference, the shared comparison discipline of vf.gen.frames, and the harness' own "
              "key-sorting normal form for keyed-multiset comparison")
TECHNIQUE = ("runtime monitoring: differential oracle against pandas on every computed groupby result (staged comparison with "
             "explain-and-repair), lowered-plan observation for the after-shuffle facet, complete setting products + random")

# the labels that remain with fixes_ready/C38_*.patch applied; each is an entry of known_findings.d/C38.json
PENDING = {
    'agg-any:cat-key&observed=False':
        'aggregations grouped by a categorical key with observed=False return groups several times (every output partition re-expands all categories), or miss/raise on unobserved combinations with several keys',
    'agg-any:key-has-0.0-and-negative-0.0':
        'a float key holding both 0.0 and -0.0 (one group in pandas) is split into two groups by every shuffle',
    'agg-any:series-key-named-like-selected-column&shuffle:ValueError':
        "aggregations with split_out>1 raise 'cannot insert a, already exists' when a Series key has the name of a selected column",
    'agg:agg[median+size]&cat-key&observed=False:values':
        'agg containing median and size with a categorical key and observed=False: size counts placeholder rows (q 12 instead of 11, unobserved category 4 instead of 0)',
    'agg:agg[median]&index-key:KeyError':
        "agg containing median grouped by the index name raises KeyError (None of ['idx'] are in the columns)",
    'agg:agg[median]&list-selection-not-in-frame-order:columns-order':
        "agg('median') / agg([.. 'median' ..]) on a list selection returns the columns in frame order",
    'agg:agg[median]&series-groupby:result-shape':
        "SeriesGroupBy.agg('median') returns a DataFrame and agg([... 'median' ...]) has columns (col, func) instead of func",
    'agg:agg[median]&sort=True:KeyError':
        "groupby(sort=True).agg with median raises KeyError: 'options'",
    'agg:named&same-(column,function)-twice:ValueError':
        "named aggregation that uses the same (column, function) pair twice raises 'conflicting aggregation functions'; pandas accepts it",
    'cov-corr:NA-in-values:values':
        'groupby cov/corr differ from pandas when a column has NaN: pandas uses pairwise complete observations',
    'cov-corr:empty-partition:exception':
        "groupby cov/corr raise (cannot reindex on an axis with duplicate labels / multiple levels only valid with MultiIndex / 'Index' object has no attribute 'levels') when a partition is empty",
    'cov-corr:list-selection-not-in-frame-order:columns-order':
        'groupby cov/corr return a list selection in frame column order (columns and inner index level)',
    'cov-corr:meta-of-tuple-chunk:ValueError':
        "groupby cov/corr raise 'Expected iterable of tuples of (name, dtype)' on a one-partition frame and with split_out>1",
    'cum:NA-in-values:spurious-NA:values':
        "groupby cumsum/cumprod give NaN for all later rows of a group once the group's values inside one partition are all NaN",
    'cum:series-key:ValueError':
        "groupby cumsum/cumprod/cumcount grouped by a derived Series raise 'Grouping by an unaligned column is unsafe and unsupported'",
    'ffill-bfill:after-shuffle:values':
        'groupby ffill/bfill fill from the wrong rows whenever the frame is shuffled (always, unless grouped by the index name on known divisions)',
    'first-last:after-shuffle:group-spans-partitions:values':
        'groupby first/last (also inside agg) with split_out>1, or agg containing median, take the first/last of hash-shuffled per-partition results instead of the first/last row of the group',
    'idxmin-idxmax:group-all-NA-within-a-partition:ValueError':
        "groupby idxmin/idxmax raise 'encountered all NA values' when the rows of a group inside one partition are all NA although the group has values",
    'idxmin-idxmax:group-spans-partitions:values':
        "groupby idxmin/idxmax return the arg-extreme of the first partition that contains the group instead of the group's",
    'median:cat-key&observed=False':
        'groupby median with a categorical key and observed=False returns every group once per partition',
    'median:sort=True&split_out=1:row-order':
        'groupby(sort=True).median(split_out=1) is not sorted by key',
    'nunique:cat-key&observed=False':
        'SeriesGroupBy.nunique ignores observed=False: unobserved categories are missing',
    'shift:after-shuffle&index-not-strictly-increasing:values':
        'groupby shift after the shuffle orders the rows of a group by index label (sort_index), which is the row order only when the index is strictly increasing',
    'shift:series-key&duplicate-index-labels:ValueError':
        "groupby shift by a derived Series key on a frame with duplicate index labels raises 'cannot reindex on an axis with duplicate labels'",
    'transform-like:cat-key&observed=False':
        'groupby transform/shift/ffill with a categorical key and observed=False return extra rows labelled by the categories and lose the index name',
    'transform-like:empty-frame:dtype':
        'groupby ffill/bfill of an empty frame return int columns as float64',
    'transform-like:empty-frame:names':
        'groupby transform/shift on an empty frame lose the index name',
    'transform-like:key-has-0.0-and-negative-0.0':
        'transform/shift/ffill: rows with key 0.0 and -0.0 land in different partitions and are processed as two groups',
    'transform-like:na-keys&dropna!=False':
        'transform/ffill/bfill with NA keys (dropna not disabled): rows whose key is NA are dropped, or the call raises, when a shuffled partition holds NA keys only',
    'transform-like:nullable-int-key&dropna=False:TypeError':
        "groupby(<nullable Int64 key>, dropna=False).ffill()/bfill()/transform(f) raise 'boolean value of NA is ambiguous'",
    'value_counts:cat-key&observed=False':
        'SeriesGroupBy.value_counts with a categorical key and observed=False: zero-count rows differ from pandas / the chunk raises on a partition without rows for a category',
    'value_counts:empty-frame:dtype':
        'value_counts of an empty frame is float64 (pandas int64)',
    'value_counts:empty-frame:names':
        "value_counts of an empty frame has no name (pandas 'count')",
    'value_counts:empty-result:dtype':
        'value_counts whose result is empty is float64',
    'value_counts:empty-result:names':
        'value_counts whose result is empty (e.g. the column is all NA) has no name',
    'value_counts:key-has-0.0-and-negative-0.0':
        'value_counts: keys 0.0 and -0.0 are merged/split differently from pandas',
    'value_counts:multi-key&dropna=False:ValueError':
        "groupby([k1, k2], dropna=False)[col].value_counts() raises 'Values not found in passed level: Index([nan])' even without NA keys",
}
