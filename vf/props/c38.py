"""C38 — groupby results equal pandas groupby.

Every case is ONE description (frame seed, partitioning, grouping keys, groupby
keywords, operation, dask-only execution keywords).  From it the same program is
run twice: on the dask collection (real ``dask.dataframe`` API, ``scheduler="sync"``)
and on the concatenated pandas frame (reference = pandas).  The computed dask
result is compared with the pandas result with the shared comparison discipline
(``vf.gen.frames.compare``: object kind, columns and their order, dtypes with
str/object equivalence, length, index incl. names, values, Series name).

Row order
---------
Row order is compared only

* for aggregations when ``sort=True`` is passed explicitly AND ``split_out`` is
  1 / not given (pandas promises sorted group keys, dask promises the same only
  there);
* for the cumulative operations (cumsum/cumprod/cumcount): both sides return
  the rows of the input in input order.

Everything else is compared as a *keyed multiset*: both sides are sorted by the
index (= the group keys for aggregations, the original row labels for
transform-like operations) and then by the values, and compared row by row.

Order-dependent operations
--------------------------
``first``/``last``/``idxmin``/``idxmax`` (ties)/``shift``/``ffill``/``bfill``
depend on the order of the rows inside each group.  pandas defines that order
(the row order of the frame); the statement says the dask result equals pandas
"for every split_out, shuffle method", so they are generated both without a
shuffle (main facet) and with ``split_out>1`` / an explicit ``shuffle_method``
(facet ``after-shuffle`` in the label).  Whether a shuffle is really part of the
plan is read from the lowered expression (class names containing "Shuffle").

Calibration
-----------
(see the end of this docstring; filled in from the runs on the unchanged tree)
"""
from __future__ import annotations

import random
import warnings

PROP = "C38"

# ---------------------------------------------------------------------------
# vocabulary

NUM_COLS = ("c", "d", "a", "n")                 # float NaN, float integral, int64, nullable Int64
ANY_COLS = ("c", "d", "a", "n", "b", "e", "t", "m")
FEW_KEYS = ("a", "b", "e", "k", "n", "s:a%2", "s:d>0", "s:n%2", "s:col:b")
MANY_KEYS = ("g", "c", "@index", "@indexobj", "s:c.round", "t")
NA_KEYS = ("n", "c", "s:n%2", "s:c.round")

F_NUM = ("sum", "mean", "prod", "var", "std", "median")
F_ANY = ("min", "max", "count", "first", "last")
F_AGG = ("sum", "mean", "min", "max", "count", "size", "first", "last", "var", "std", "prod", "median")
ORDER_DEP = ("first", "last", "idxmin", "idxmax", "shift", "ffill", "bfill")
SPLIT_OUT = (None, 1, 2, 3, True)
SHUFFLE = (None, "tasks", "disk")
SORT = (None, True, False)
SPLIT_EVERY = (None, 2, 3, False)


def _demean(x):
    return x - x.mean()


def _span(x):
    return x.max() - x.min()


TRANSFORMS = {"sum": "sum", "mean": "mean", "max": "max", "min": "min", "count": "count", "demean": _demean}

# ---------------------------------------------------------------------------
# case stream


def _base_col(tok):
    """column of the frame a key token is derived from (None for the index)."""
    if tok.startswith("@"):
        return None
    if tok.startswith("s:col:"):
        return tok[6:]
    if tok.startswith("s:"):
        return tok[2]
    return tok


def _rand_by(rng, groups):
    pool = FEW_KEYS if groups == "few" else MANY_KEYS
    r = rng.random()
    if r < 0.55:
        by = [rng.choice(pool)]
    elif r < 0.9:
        by = [rng.choice(pool), rng.choice(FEW_KEYS)]
    else:
        by = [rng.choice(pool), rng.choice(FEW_KEYS), rng.choice(("a", "e", "k", "b"))]
    out, seen = [], set()
    for t in by:
        b = _base_col(t)
        if (b or t) in seen:
            continue
        seen.add(b or t)
        out.append(t)
    if sum(1 for t in out if t.startswith("@")) > 1:
        out = [t for t in out if not t.startswith("@")] or ["a"]
    return out


def _rand_gkw(rng, by):
    gkw = {}
    s = rng.choice(SORT)
    if s is not None:
        gkw["sort"] = s
    nak = any(t in NA_KEYS for t in by)
    d = rng.choice((None, True, False, False) if nak else (None, None, True, False))
    if d is not None:
        gkw["dropna"] = d
    if "k" in by:
        o = rng.choice((None, True, False, False))
        if o is not None:
            gkw["observed"] = o
    elif rng.random() < 0.1:
        gkw["observed"] = rng.choice((True, False))
    return gkw


def _rand_akw(rng, allow=("split_out", "shuffle_method", "split_every"), plain=False):
    akw = {}
    if plain:
        # "no shuffle" facet: split_out 1/None and shuffle_method None
        if "split_out" in allow and rng.random() < 0.3:
            akw["split_out"] = 1
        if "split_every" in allow and rng.random() < 0.5:
            akw["split_every"] = rng.choice((2, 3))
        return akw
    if "split_out" in allow:
        so = rng.choice(SPLIT_OUT)
        if so is not None:
            akw["split_out"] = so
    if "shuffle_method" in allow:
        sm = rng.choice(SHUFFLE)
        if sm is not None:
            akw["shuffle_method"] = sm
    if "split_every" in allow:
        se = rng.choice(SPLIT_EVERY)
        if se is not None:
            akw["split_every"] = se
    return akw


def _cols_not_keys(pool, by):
    used = {_base_col(t) for t in by if not t.startswith("s:") or t.startswith("s:col:")}
    return [c for c in pool if c not in used]


def _rand_op(rng, by):
    """returns (op, allowed dask keywords, order-dependent?)"""
    kind = rng.choices(
        ("single", "agg", "cum", "transform", "shift", "fill", "value_counts", "idx", "covcorr", "size", "nunique"),
        (30, 22, 8, 6, 5, 6, 6, 7, 4, 3, 5))[0]
    num = _cols_not_keys(NUM_COLS, by) or ["d"]
    anyc = _cols_not_keys(ANY_COLS, by) or ["d"]
    full = ("split_out", "shuffle_method", "split_every")
    if kind == "single":
        fn = rng.choice(F_NUM + F_ANY + ("first", "last"))
        pool = num if fn in F_NUM else anyc
        r = rng.random()
        if r < 0.45:
            sel = rng.choice(pool)
        elif r < 0.9 or fn not in ("count", "first", "last"):
            sel = rng.sample(pool, min(len(pool), rng.randint(1, 3)))
        else:
            sel = None
        op = {"kind": "single", "fn": fn, "sel": sel}
        if fn in ("var", "std"):
            dd_ = rng.choice((None, 0, 1, 2))
            if dd_ is not None:
                op["kw"] = {"ddof": dd_}
        return op, full, fn in ORDER_DEP
    if kind == "size":
        return {"kind": "single", "fn": "size", "sel": rng.choice((None, None, rng.choice(anyc), [rng.choice(anyc)]))}, full, False
    if kind == "nunique":
        return {"kind": "single", "fn": "nunique", "sel": rng.choice(anyc)}, full, False
    if kind == "idx":
        fn = rng.choice(("idxmin", "idxmax"))
        sel = rng.choice(num) if rng.random() < 0.6 else rng.sample(num, min(len(num), 2))
        return {"kind": "single", "fn": fn, "sel": sel}, full, True
    if kind == "covcorr":
        cols = rng.sample(num, min(len(num), rng.choice((2, 2, 3))))
        if len(cols) < 2:
            cols = ["c", "d"]
        op = {"kind": "single", "fn": rng.choice(("cov", "corr")), "sel": cols}
        if op["fn"] == "cov" and rng.random() < 0.4:
            op["kw"] = {"ddof": rng.choice((0, 1, 2))}
        return op, ("split_out", "split_every"), False
    if kind == "agg":
        form = rng.choice(("str", "list", "dict", "dictlist", "named", "s-str", "s-list", "s-named"))
        fns = list(F_AGG)
        if form.startswith("s-"):
            fpool = fns
            col = rng.choice(num)
            if form == "s-str":
                spec = rng.choice(fpool)
            elif form == "s-list":
                spec = rng.sample(fpool, rng.randint(1, 3))
            else:
                spec = {"r%d" % i: f for i, f in enumerate(rng.sample(fpool, rng.randint(1, 3)))}
            op = {"kind": "agg", "form": form, "sel": col, "spec": spec}
        elif form in ("str", "list"):
            cols = rng.sample(num, min(len(num), rng.randint(1, 3)))
            spec = rng.choice(fns) if form == "str" else rng.sample(fns, rng.randint(1, 3))
            op = {"kind": "agg", "form": form, "sel": cols, "spec": spec}
        elif form in ("dict", "dictlist"):
            cols = rng.sample(num, min(len(num), rng.randint(1, 3)))
            spec = {}
            for c in cols:
                spec[c] = rng.choice(fns) if form == "dict" or rng.random() < 0.3 else rng.sample(fns, rng.randint(1, 2))
            op = {"kind": "agg", "form": form, "sel": None, "spec": spec}
        else:
            spec = {}
            for i in range(rng.randint(1, 3)):
                spec["r%d" % i] = [rng.choice(num), rng.choice(fns)]
            op = {"kind": "agg", "form": form, "sel": None, "spec": spec}
        used = _agg_funcs(op)
        return op, full, any(f in ORDER_DEP for f in used)
    if kind == "cum":
        fn = rng.choice(("cumsum", "cumprod", "cumcount"))
        if fn == "cumcount":
            sel = rng.choice((None, rng.choice(anyc)))
        else:
            sel = rng.choice(num) if rng.random() < 0.6 else rng.sample(num, min(len(num), 2))
        return {"kind": "cum", "fn": fn, "sel": sel}, (), False
    if kind == "transform":
        sel = rng.choice(num) if rng.random() < 0.7 else rng.sample(num, min(len(num), 2))
        return {"kind": "transform", "func": rng.choice(sorted(TRANSFORMS)), "sel": sel}, ("shuffle_method",), False
    if kind == "shift":
        sel = rng.choice(anyc) if rng.random() < 0.7 else rng.sample(num, min(len(num), 2))
        op = {"kind": "shift", "periods": rng.choice((1, 1, -1, 2)), "sel": sel}
        return op, ("shuffle_method",), True
    if kind == "fill":
        r = rng.random()
        sel = rng.choice(("c", "n", "m", "c")) if r < 0.6 else (["c", "n"] if r < 0.85 else None)
        if sel is not None and not isinstance(sel, list) and sel in {_base_col(t) for t in by}:
            sel = "c" if "c" not in {_base_col(t) for t in by} else "m"
        if isinstance(sel, list):
            sel = [c for c in sel if c not in {_base_col(t) for t in by}] or ["m"]
        op = {"kind": rng.choice(("ffill", "bfill")), "sel": sel}
        if rng.random() < 0.3:
            op["limit"] = 1
        return op, ("shuffle_method",), True
    # value_counts
    pool = [c for c in ("a", "b", "e", "d", "n", "k", "m") if c not in {_base_col(t) for t in by}] or ["d"]
    return {"kind": "value_counts", "sel": rng.choice(pool)}, full, False


def _agg_funcs(op):
    spec = op["spec"]
    if isinstance(spec, str):
        return [spec]
    if isinstance(spec, list):
        return list(spec)
    out = []
    for v in spec.values():
        if isinstance(v, str):
            out.append(v)
        elif op["form"] == "named":
            out.append(v[1])
        else:
            out.extend(v)
    return out


EXH_FUNCS = ("sum", "mean", "min", "max", "count", "size", "nunique", "first", "last", "idxmin", "idxmax",
             "var", "std", "prod", "median", "value_counts", "agg-list", "agg-named")


def _exh_op(fn):
    if fn == "size":
        return {"kind": "single", "fn": "size", "sel": None}
    if fn == "value_counts":
        return {"kind": "value_counts", "sel": "e"}
    if fn == "agg-list":
        return {"kind": "agg", "form": "list", "sel": ["c", "d"], "spec": ["sum", "mean", "max"]}
    if fn == "agg-named":
        return {"kind": "agg", "form": "named", "sel": None, "spec": {"x": ["c", "sum"], "y": ["d", "std"]}}
    return {"kind": "single", "fn": fn, "sel": "c" if fn != "nunique" else "d"}


def cases(tier, seed):
    rng = random.Random(seed * 1000003 + 38)
    # ---- complete sub-space: one fixed frame (24 rows, sorted index, 5 row slices with an empty one),
    #      every function x split_out x shuffle_method x sort, for a plain key and an NA key ----------
    keysets = [(["a"], {}), (["n"], {"dropna": False})]
    if tier == "thorough":
        keysets += [(["a", "b"], {}), (["k"], {"observed": False}), (["n"], {}), (["s:a%2"], {})]
    for by, g0 in keysets:
        for fn in EXH_FUNCS:
            for so in SPLIT_OUT:
                for sm in SHUFFLE:
                    for s in SORT:
                        gkw = dict(g0)
                        if s is not None:
                            gkw["sort"] = s
                        akw = {}
                        if so is not None:
                            akw["split_out"] = so
                        if sm is not None:
                            akw["shuffle_method"] = sm
                        yield {"space": "exhaustive", "fseed": 38, "nrows": 24, "index": "sorted", "groups": "few",
                               "nakey": False, "part": {"how": "slices", "cuts": [5, 11, 11, 19]},
                               "by": by, "bylist": False, "gkw": gkw, "op": _exh_op(fn), "akw": akw}
    # ---- random ------------------------------------------------------------------------------------
    k = 1700 if tier == "quick" else 42000
    from vf.gen.frames import INDEX_KINDS, rand_partition_desc

    for _ in range(k):
        groups = rng.choice(("few", "few", "many"))
        r = rng.random()
        nrows = 0 if r < 0.02 else (rng.randint(1, 4) if r < 0.08 else rng.randint(5, 60))
        by = _rand_by(rng, groups)
        index = rng.choice(INDEX_KINDS)
        if any(t == "@index" for t in by) and index in ("range", "unsorted"):
            index = rng.choice(("dups", "dups", "sorted", "float", "strings", "datetime"))
        if any(t == "@indexobj" for t in by) and rng.random() < 0.6:
            index = "dups"
        op, allow, odep = _rand_op(rng, by)
        plain = odep and rng.random() < 0.55
        akw = _rand_akw(rng, allow, plain=plain)
        gkw = _rand_gkw(rng, by)
        if op.get("fn") in ("first", "last") and gkw.get("sort"):
            # GroupBy.first/last take their own sort= (NotImplemented when truthy); the groupby-level
            # sort is what the statement names
            pass
        yield {"fseed": rng.randrange(2 ** 31), "nrows": nrows, "index": index, "groups": groups,
               "nakey": rng.random() < 0.3, "part": rand_partition_desc(rng, nrows, allow_unknown=True),
               "by": by, "bylist": rng.random() < 0.3, "gkw": gkw, "op": op, "akw": akw}


# ---------------------------------------------------------------------------
# building both sides from the one description


def shard_setup(tier, seed):
    from vf.gen import frames

    frames.setup()
    warnings.simplefilter("ignore")


def _frame(case):
    import numpy as np

    from vf.gen import frames

    pdf = frames.rand_frame(case["fseed"], nrows=case["nrows"], index=case["index"], cols="wide")
    n = len(pdf)
    r = np.random.default_rng(case["fseed"] ^ 0x38)
    pdf["g"] = r.integers(0, max(2, n // 2), n).astype("int64")      # many groups
    if case.get("nakey") and n:
        mask = r.random(n) < 0.2
        pdf.loc[mask, "b"] = None                                      # NA keys in the str column
    return pdf


def _series_key(df, tok):
    if tok == "s:a%2":
        return df["a"] % 2
    if tok == "s:d>0":
        return df["d"] > 0
    if tok == "s:n%2":
        return df["n"] % 2
    if tok == "s:c.round":
        return df["c"].round()
    if tok.startswith("s:col:"):
        return df[tok[6:]]
    raise ValueError(tok)


def _keys(df, case):
    out = []
    for tok in case["by"]:
        if tok == "@index":
            out.append(df.index.name)
        elif tok == "@indexobj":
            out.append(df.index)
        elif tok.startswith("s:"):
            out.append(_series_key(df, tok))
        else:
            out.append(tok)
    if len(out) == 1 and not case.get("bylist"):
        return out[0]
    return out


def _apply(df, case, dask_side, meta=None):
    op = case["op"]
    g = df.groupby(_keys(df, case), **case["gkw"])
    sel = op.get("sel")
    if sel is not None:
        g = g[sel]
    akw = dict(case["akw"]) if dask_side else {}
    k = op["kind"]
    if k == "single":
        return getattr(g, op["fn"])(**op.get("kw", {}), **akw)
    if k == "agg":
        spec = op["spec"]
        if op["form"] == "named":
            return g.agg(**{name: tuple(v) for name, v in spec.items()}, **akw)
        if op["form"] == "s-named":
            return g.agg(**spec, **akw)
        return g.agg(spec, **akw)
    if k == "cum":
        return getattr(g, op["fn"])()
    mkw = dict(akw, meta=meta) if dask_side else {}
    if k == "transform":
        return g.transform(TRANSFORMS[op["func"]], **mkw)
    if k == "shift":
        return g.shift(op["periods"], **mkw)
    if k in ("ffill", "bfill"):
        return getattr(g, k)(limit=op.get("limit"), **akw)
    if k == "value_counts":
        return g.value_counts(**akw)
    raise ValueError(k)


def _opname(op):
    k = op["kind"]
    if k in ("single", "cum"):
        return op["fn"]
    if k == "agg":
        return "agg"
    if k == "transform":
        return "transform"
    return k


def _keysorted(x):
    """keyed-multiset normal form: rows sorted by index levels, then by values (NaN last), stable."""
    import numpy as np
    import pandas as pd

    from vf.gen.frames import _sortable

    if isinstance(x, pd.Series):
        df = x.to_frame(name="__v")
    else:
        df = x.copy()
    df.columns = ["__c%d" % i for i in range(df.shape[1])]
    if isinstance(df.index, pd.MultiIndex):
        idx = df.index.to_frame(index=False)
        idx.columns = ["__i%d" % i for i in range(idx.shape[1])]
    else:
        idx = pd.DataFrame({"__i0": np.asarray(df.index, dtype=object) if isinstance(df.index.dtype, pd.CategoricalDtype)
                            else df.index})
    idx = idx.reset_index(drop=True)
    both = pd.concat([idx, df.reset_index(drop=True)], axis=1)
    keys = _sortable(both).reset_index(drop=True)
    try:
        order = keys.sort_values(list(keys.columns), kind="stable", na_position="last").index
    except TypeError:
        keys = keys.astype(str)
        order = keys.sort_values(list(keys.columns), kind="stable").index
    return x.iloc[np.asarray(order)]


def _compare(r, e, ordered, rtol):
    import pandas as pd

    from vf.gen import frames

    if not ordered and isinstance(r, (pd.Series, pd.DataFrame)) and isinstance(e, (pd.Series, pd.DataFrame)):
        if type(r) is type(e) and len(r) == len(e) and (r.ndim == 1 or r.shape[1] == e.shape[1]):
            try:
                r, e = _keysorted(r), _keysorted(e)
            except Exception:  # noqa: BLE001  (cannot normalise: let the shared comparison decide)
                return frames.compare(r, e, ordered=False, rtol=rtol)
    return frames.compare(r, e, ordered=True, rtol=rtol)


def _features(case, pdf, ddf, plan):
    by, gkw, akw, op = case["by"], case["gkw"], case["akw"], case["op"]
    f = {}
    f["shuffle-plan"] = any("Shuffle" in n for n in plan)
    f["split_out>1"] = akw.get("split_out") not in (None, 1)
    f["shuffle_method"] = akw.get("shuffle_method")
    f["sort"] = gkw.get("sort")
    f["dropna=False"] = gkw.get("dropna") is False
    f["observed=False"] = gkw.get("observed") is False
    f["cat-key"] = "k" in by
    f["multi-key"] = len(by) > 1
    f["series-key"] = any(t.startswith("s:") for t in by)
    f["index-key"] = any(t.startswith("@") for t in by)
    f["npartitions"] = ddf.npartitions
    f["known-divisions"] = bool(ddf.known_divisions)
    return f


def run_case(case, ctx):
    from vf.gen import frames

    frames.setup()
    import pandas as pd

    warnings.simplefilter("ignore")
    op = case["op"]
    name = _opname(op)
    pdf = _frame(case)
    ctx.op("op:" + name)
    if op["kind"] == "agg":
        ctx.op("aggform:" + op["form"])
    # ---- reference first: pandas refusing the program means the property does not speak ------------
    try:
        expected = _apply(pdf, case, False)
    except Exception as ex:  # noqa: BLE001
        ctx.reject("pandas: %s: %s" % (type(ex).__name__, ex))
        return
    meta = None
    if op["kind"] in ("transform", "shift"):
        meta = expected.iloc[:0] if isinstance(expected, pd.DataFrame) else (expected.name, expected.dtype)
    try:
        ddf = frames.partition(pdf, case["part"])
    except Exception as ex:  # noqa: BLE001
        ctx.exception(ex, prefix="partition")
        return
    plan = ()
    odep = name in ORDER_DEP or (op["kind"] == "agg" and any(f in ORDER_DEP for f in _agg_funcs(op)))
    try:
        coll = _apply(ddf, case, True, meta=meta)
        try:
            plan = sorted({type(x).__name__ for x in coll.optimize(fuse=False).expr.walk()})
        except Exception:  # noqa: BLE001  (plan is observability only; compute decides)
            plan = ()
        result = coll.compute(scheduler="sync")
    except NotImplementedError as ex:
        ctx.unsupported("%s: %s" % (name, ex))
        return
    except Exception as ex:  # noqa: BLE001
        feats = _features(case, pdf, ddf, plan)
        ctx.exception(ex, prefix=_exc_prefix(case, name), case_features=feats)
        return
    feats = _features(case, pdf, ddf, plan)
    shuffled = feats["shuffle-plan"]
    ordered = (op["kind"] == "cum") or (
        op["kind"] in ("single", "agg", "value_counts") and case["gkw"].get("sort") is True
        and case["akw"].get("split_out") in (None, 1))
    if op["kind"] == "value_counts":
        ordered = False   # within a group pandas orders by count with unspecified tie order
    ctx.count("compared")
    ctx.count("cmp_ordered" if ordered else "cmp_keyed_multiset")
    ctx.count("plan_shuffle" if shuffled else "plan_no_shuffle")
    if odep:
        ctx.count("order_dependent_after_shuffle" if shuffled else "order_dependent_main")
    if any(t in NA_KEYS for t in case["by"]) or case.get("nakey") and "b" in {_base_col(t) for t in case["by"]}:
        ctx.count("na_key_cases")
    if "k" in case["by"]:
        ctx.count("categorical_key_cases")
    nexp = len(expected) if hasattr(expected, "__len__") else 1
    ctx.nontrivial = len(pdf) >= 2 and nexp >= 2 and ddf.npartitions >= 2
    ctx.sig = (case["by"], case["gkw"], op, case["akw"], case["fseed"], case["nrows"], case["part"])
    ctx.distinct("programs", (case["by"], sorted(case["gkw"].items()), op, sorted(case["akw"].items(), key=str)))
    ctx.distinct("plans", plan)
    rtol = 1e-7 if name in ("var", "std", "cov", "corr", "agg", "transform", "mean", "prod", "sum", "cumprod", "cumsum") else 1e-9
    m = _compare(result, expected, ordered, rtol)
    if m is not None:
        facet = ":after-shuffle" if (odep and shuffled) else ""
        label = "%s%s:%s:%s" % (name, facet, _predicate(case, feats, m[0], result, expected), m[0])
        ctx.violation(label, m[1], features=feats, by=case["by"], gkw=case["gkw"], akw=case["akw"], op=op,
                      got=_short(result), expected=_short(expected))
    ctx.sample = {"op": name, "by": case["by"], "gkw": case["gkw"], "akw": case["akw"], "rows": len(pdf),
                  "npartitions": ddf.npartitions, "groups": nexp, "ordered": ordered, "shuffle": shuffled}


def _short(x):
    try:
        return x.head(12).to_string()[:700]
    except Exception:  # noqa: BLE001
        return repr(x)[:300]


def _exc_prefix(case, name):
    return name


def _predicate(case, feats, kind, result, expected):
    """input-feature predicate of the label; refined during calibration so that one mechanism = one label."""
    return "any"


RULE = ("cases = (frame seed/rows/index kind, partitioning incl. empty partitions and unknown divisions, grouping keys "
        "[column(s), index name, index object, derived Series, NA keys, categorical], sort/dropna/observed, operation, "
        "split_out/shuffle_method/split_every); first a complete product function x split_out x shuffle_method x sort on "
        "one fixed frame, then seeded random cases; non-trivial = >=2 rows, >=2 result rows, >=2 partitions; distinct = "
        "distinct (program, frame seed, partitioning)")
ASSUMPTIONS = [
    "pandas 3.0.5 on the concatenated frame is the reference; its refusal (exception) removes the case",
    "dask.dataframe is imported through the pyarrow import stub (pandas-backed strings, convert-string=False)",
    "scheduler='sync'; the distributed/p2p shuffle is not reachable in this environment",
]
BUDGET = {"quick": 45, "thorough": 600}
FLOORS = {"quick": {"evaluations": 10, "distinct_nontrivial": 5}, "thorough": {"evaluations": 10, "distinct_nontrivial": 5}}
EXHAUSTIVE_SPACE = None
CASE_TIMEOUT = 90
CLAIM = "draft"
LEVEL_NOTE = "trusts pandas as the reference and the shared comparison discipline of vf.gen.frames"
TECHNIQUE = "runtime monitoring: differential oracle against pandas on every computed groupby result"
PENDING = {}
