"""C25 — lazy array metadata matches the computed data, per block.

Statement (fixed): for any array expression the computed result's shape and dtype equal the lazy
.shape/.dtype; each individually computed block has the shape that .chunks declares for it, and the
blocks placed by their block index reassemble the full result.

Monitor.  A case is a small program: an input array (shape, dtype, data seed, chunking) and a pipeline
of 2-6 steps from the operation families of C19-C24, C26 and C27 (vf/gen/c25_ops.py).  The harness
keeps EVERY program-visible stage array (not the arrays dask creates internally).  All stages are
computed together in one ``dask.compute(*stages)`` (sync; a seeded tenth on threads).  For each stage

* lazy-shape / lazy-dtype / lazy-chunks: computed shape and dtype == lazy .shape/.dtype, known chunk
  sizes add up to the computed axis length (unknown sizes, nan, match anything but ndim still counts);
* block-shape / block-dtype: every block computed separately through ``.blocks[idx]`` AND through
  ``to_delayed()`` has exactly the shape the .chunks entry declares (nan matches anything) and the lazy dtype;
* block-placement: the blocks, placed by block index (np.block of the nested list), equal the stage value;
* vs-numpy: the stage value equals NumPy applied to the same pipeline (shape, dtype, values; exact until a
  step reassociates floating point arithmetic, then the tolerance of compare.float_tol) — so that a
  metadata lie which is "compensated" by an equally wrong computation is still seen.

Only the FIRST failing stage of a pipeline is reported (later stages inherit the fault); stages are judged in program
order, so a step that cannot be built / computed is only looked at after everything before it was found consistent.
Labels: ``<step variant>:<input features>:<facet>`` with input features zero-length | 0-d | unknown-chunks |
axis-of-length<=1-in-several-chunks | zero-size-chunk (+ op specific predicates); mechanisms triaged on the unchanged
tree get one label each (`classify`).  An expression that dask refuses to build or to compute has no computed result:
the statement does not speak, the case is recorded (counters build-refused:*/compute-refused:*) and not alarmed —
unless its blocks, computed one by one, contradict .chunks.

Calibration
* see CALIBRATION below (filled while triaging alarms on the unchanged tree) and the domain notes in vf/gen/c25_ops.py.
"""
from __future__ import annotations

import itertools
import random
import warnings

import numpy as np

from ..gen import arrays as A
from ..gen import c25_ops as O
from ..core.ctx import exc_label
from ..mon.compare import compare_arrays, lazy_meta_mismatch

PROP = "C25"
RULE = ("cases = (input shape 0-3 d with lengths 0-6, dtype, data seed, chunking (12% with an extra zero-size chunk), pipeline of 2-6 steps). "
        "Steps are drawn from "
        "elementwise/broadcast ops, indexing (slices, ints, None, Ellipsis, int lists, boolean masks NumPy and dask -> unknown chunks), "
        "setitem, reductions (axis/keepdims/split_every), scans, rechunk, reshape, transpose family, flip/rot90, squeeze/expand_dims, "
        "concatenate/stack/block, broadcast_to, pad modes, diff, roll, repeat, tile, tril/triu, take, map_overlap (trim), unique, bincount, "
        "histogram, searchsorted, digitize, isin, coarsen, argwhere, flatnonzero, compute_chunk_sizes. Complete part: every 2-step pipeline "
        "over a fixed list of 14 steps on all 8 chunkings of a (2,3) array. non-trivial = >=2 steps and an input axis with >=2 chunks; "
        "distinct = distinct case description.")
ASSUMPTIONS = ["NumPy 2.x is the reference for stage values", "sync scheduler (threads for a tenth)",
               "np.block / placement by offsets done by the harness"]
BUDGET = {"quick": 90, "thorough": 900}
# measured on the unchanged tree (quick, seeds 0,1,2,7): 3768 evaluations, ~3000 distinct non-trivial, ~15400 stages, ~145000 blocks,
# ~30000 reassemblies, 620-760 stages with unknown chunk sizes; ~1.3 % skipped
FLOORS = {"quick": {"evaluations": 1700, "distinct_nontrivial": 1350,
                    "counters": {"stages_checked": 7000, "lazy_meta_checked": 7000, "blocks_checked": 65000, "reassembled": 13500,
                                 "compared_with_numpy": 7000, "joint_computes": 1700, "stages_unknown_chunks": 280,
                                 "pipelines_len_2": 900, "pipelines_len_6": 190},
                    "max_skipped_fraction": 0.1},
          "thorough": {"evaluations": 19000, "distinct_nontrivial": 15000,
                       "counters": {"stages_checked": 90000, "blocks_checked": 900000, "reassembled": 180000, "compared_with_numpy": 90000,
                                    "stages_unknown_chunks": 5000},
                       "max_skipped_fraction": 0.1}}
EXHAUSTIVE_SPACE = "every 2-step pipeline over a fixed list of 14 steps x all 8 chunkings of a (2,3) int64 array (1568 programs)"
CLAIM = ("Every program-visible stage of every generated pipeline was computed by the real dask.array, whole (all stages in one "
         "dask.compute) and block by block (.blocks and to_delayed), and compared with its own lazy shape/dtype/chunks, with the "
         "reassembled blocks and with NumPy; held = no mismatch and no dask exception inside the domain on the executions observed.")
LEVEL_NOTE = "NumPy is the value reference; only program-visible stages are monitored; unknown chunk sizes (nan) match any block size"
TECHNIQUE = "runtime monitoring: per-stage, per-block metadata oracle + NumPy differential over generated pipelines and a complete small space"
CASE_TIMEOUT = 60

SHORT_AXIS = "axis-of-length<=1-in-several-chunks"
MAX_BLOCKS = 120
BLOCKVIEW_0D = "blocks-view:0-d-array:block-is-not-the-value"
# Labels that still fire on the repaired tree: recorded as known findings in known_findings.d/C25.json
PENDING = {
    "bincount:max>=minlength:lazy-shape": "da.bincount(x, minlength=m) declares shape (m,) although the result is longer whenever "
                                          "x.max() >= m; findings_proposed/C25.md #4, no safe small fix",
    "cum.sequential:zero-size-chunk:result-shape": "sequential cumsum/cumprod/nancumsum over an axis with a zero-size chunk: blocks after the empty "
                                                   "one are empty (lazy 6, computed 3) or _cumsum_merge raises; C25.md #6",
    "aligned-op:all-axes-empty-array-in-several-zero-size-chunks:blocks-do-not-match-chunks":
        "an array whose axes are ALL empty, one of them split into several zero-size chunks, concatenated/combined with another operand: "
        "Array.rechunk returns such an array unchanged, so the operands are not aligned and .blocks[i] raises IndexError; C25.md #9",
    "reduce.var-std:zero-size-chunk:vs-numpy-values": "var/std of an array with a zero-size chunk is NaN (0/0 in the moment combine); metadata is "
                                                      "consistent, C22 value defect; C25.md #8",
}
# Mechanisms found by this check and repaired by fixes_ready/C25_01..04 (labels must not fire any more):
#   blocks-view:0-d-array:block-is-not-the-value                      (BlockView.__getitem__ of a 0-d array)
#   aligned-op:axis-of-length<=1-in-several-chunks:blocks-do-not-match-chunks   (unify_chunks)
#   reduce.minmax:empty-blocks:result-shape, searchsorted:empty-blocks:result-shape   (chunk_min/chunk_max placeholder)
#   negative-step-slice:zero-size-chunk:vs-numpy-shape                (_slice_1d, duplicate chunk boundaries)
#   coarsen:zero-size-chunk:result-shape                              (repaired in /repo by 010fa95, independently)

CALIBRATION = [
    "dask raising while a step is BUILT, or while a whole stage is computed although all earlier stages are consistent and the "
    "stage's own blocks (if computable) agree with .chunks: the expression has no computed result, the statement does not speak; "
    "recorded (build-refused:/compute-refused: in the operation histogram, skipped when nothing could be checked), not alarmed. "
    "Classes seen: reshape NotImplementedError (merge/split only), setitem IndexError/ValueError for int+negative-step / array values, "
    "max over unknown-size blocks (_concatenate2 ValueError), zero-length inputs to reshape/ravel/roll/unique/argwhere/"
    "flatnonzero/pad/repeat/triu, diff on bool, argwhere of 0-d, timedelta sum(keepdims) — all belong to C20-C27.",
    "vs-numpy differences with self-consistent dask metadata were moved out of the generator (they are value defects of C20/C24): "
    "int next to a fancy index (NumPy advanced-index axis order), reflect/symmetric/wrap pad wider than the axis, stat_length "
    "longer than the axis, integer 'mean'/'linear_ramp' pads, pads of non-finite data, datetime/timedelta inputs.",
    "block_info-free: the 0-d block view finding is reported once per case and does not stop the remaining checks of the case.",
    "programs are cut before a stage with more than MAX_BLOCKS blocks (run time bound of the generator).",
    "second thorough run (patched tree): harness artefacts corrected - (a) rounding differences of a float32 stage survive a cast to "
    "float64, the tolerance keeps single precision from then on; (b) unique/comparisons/casts after an inexact float step amplify "
    "rounding differences into different results: not generated after such a step (c25_ops.discontinuous); (c) x.blocks[()] that "
    "is a bare Python scalar is judged by NumPy's dtype for it; (d) the cum.sequential / negative-step / coarsen / var-std "
    "mechanisms take precedence over the aligned-op label when the input has a short split axis.",
    "thorough run: float32 * 0-d float64 dask operand (computed in float32: C19), unique with NaN in several chunks (C27), setitem "
    "through negative-step slices (C21 #2) moved out of the generator; a 0-d block that is a bare Python scalar (1j / x) is judged "
    "by the dtype NumPy gives it.",
]

FIXED = [
    {"op": "unary", "fn": "neg"},
    {"op": "getitem", "index": [["s", 1, None, None]]},
    {"op": "getitem", "index": [["s", None, None, -1]]},
    {"op": "reduce", "fn": "sum", "axis": 0, "keepdims": True, "split_every": None},
    {"op": "cum", "fn": "cumsum", "axis": -1, "method": "sequential"},
    {"op": "rechunk", "how": "int", "spec": 1},
    {"op": "ravel"},
    {"op": "transpose", "how": "T"},
    {"op": "concatenate", "axis": 0, "order": "xx", "aux": {"shape": [0], "dtype": "int64", "seed": 0, "kind": "numpy", "chunks": [[0]]}},
    {"op": "pad", "mode": "edge", "pad_width": 1},
    {"op": "diff", "n": 1, "axis": -1},
    {"op": "roll", "shift": 1, "axis": 0},
    {"op": "repeat", "repeats": 2, "axis": -1},
    {"op": "map_overlap", "depth": {"0": 1}, "shift": {"0": 1}, "boundary": "nearest", "form": "dict"},
]


def cases(tier, seed):
    rng = random.Random(seed * 6151 + 25)
    for ch in A.all_chunkings((2, 3)):
        for s1 in FIXED:
            for s2 in FIXED:
                yield {"space": "exhaustive", "shape": [2, 3], "dtype": "int64", "seed": 3, "chunks": [list(c) for c in ch],
                       "steps": [s1, s2], "threads": False}
    n = 2200 if tier == "quick" else 40000
    for _ in range(n):
        c = _gen_pipeline(rng)
        if c is not None:
            yield c


def _gen_pipeline(rng):
    shape = A.rand_shape(rng, maxnd=3, maxlen=6, allow_zero=rng.random() < 0.3)
    if not shape and rng.random() < 0.8:
        shape = A.rand_shape(rng, maxnd=3, maxlen=6, minnd=1, allow_zero=False)
    dtype = rng.choice(A.NUMERIC + ["int64", "float64", "float64", "int32"])
    dseed = rng.randrange(2 ** 31)
    chunks = A.rand_chunks(rng, shape)
    if not A.has_split(chunks) and rng.random() < 0.7 and shape:
        chunks = A.rand_chunks(rng, shape)
    while int(np.prod([len(c) for c in chunks])) > 30:
        chunks = A.rand_chunks(rng, shape)
    if shape and rng.random() < 0.12:
        # an empty chunk between/next to the others (x[mask].compute_chunk_sizes(), pad(.., 0) ... produce such chunkings)
        ax = rng.randrange(len(shape))
        if shape[ax] >= 2:
            c = list(chunks[ax])
            c.insert(rng.randint(0, len(c)), 0)
            chunks = tuple(tuple(c) if a == ax else cs for a, cs in enumerate(chunks))
    v = A.rand_data(dseed, shape, dtype, special=(dseed % 3 == 0))
    nsteps = rng.randint(2, 6)
    steps, unknown, tries, rounded = [], False, 0, False
    with warnings.catch_warnings():
        warnings.simplefilter("ignore")
        with np.errstate(all="ignore"):
            while len(steps) < nsteps and tries < 40:
                tries += 1
                st = O.gen_step(rng, v, unknown)
                if st is None:
                    continue
                if rounded and v.dtype.kind in "fc" and O.discontinuous(st):
                    # after a step that reassociates floating point arithmetic the two sides differ by rounding; steps that
                    # turn a rounding difference into a different result (unique, comparisons, casts to int ...) are not generated
                    continue
                try:
                    nv = np.asarray(O.apply_step(st, v, "np"))
                except Exception:  # noqa: BLE001  (NumPy refuses: draw another step)
                    continue
                if nv.size > 240 or nv.ndim > 4 or nv.dtype.kind not in "biufcMm":
                    continue
                steps.append(st)
                rounded = rounded or (v.dtype.kind in "fc" or nv.dtype.kind in "fc") and O.inexact(st, nv.dtype.kind)
                v = nv
                if st["op"] in ("maskdask", "unique", "argwhere", "flatnonzero") or (st["op"] == "bincount" and st["minlength"] == 0):
                    unknown = True
                elif st["op"] == "compute_chunk_sizes" or (st["op"] == "reduce" and st["axis"] is None):
                    unknown = False
    if len(steps) < 2:
        return None
    return {"shape": list(shape), "dtype": dtype, "seed": dseed, "chunks": [list(c) for c in chunks], "steps": steps,
            "threads": rng.random() < 0.1}


# ----------------------------------------------------------------------------------------- monitor
def _isnan(c):
    return isinstance(c, float) and np.isnan(c)


def _nested(flat, numblocks):
    """Nested list (depth = ndim) of blocks from a C-ordered flat list."""
    if not numblocks:
        return flat[0]
    arr = np.empty(len(flat), dtype=object)
    for i, b in enumerate(flat):
        arr[i] = b
    return arr.reshape(numblocks).tolist()


def stage_mismatch(d, whole, ctx):
    """All C25 facets of one stage.  Returns (facet, message) or None."""
    import dask

    if whole is not None:
        m = lazy_meta_mismatch(d, whole)
        ctx.count("lazy_meta_checked")
        if m:
            return m
        whole = np.asarray(whole)
    numblocks = tuple(len(c) for c in d.chunks)
    idxs = list(itertools.product(*[range(n) for n in numblocks]))
    # every block is requested as an output of its own, through both access paths (one scheduler call: the shared
    # upstream part of the graph is evaluated once)
    both = dask.compute(*([d.blocks[idx] for idx in idxs] + list(d.to_delayed().ravel())), scheduler="sync")
    via_blocks, via_delayed = both[:len(idxs)], both[len(idxs):]
    if d.ndim == 0:
        # one mechanism, one label: the block view of ANY 0-d array (whatever produced it)
        b = via_blocks[0]
        bdt0 = b.dtype if hasattr(b, "dtype") else (np.asarray(b).dtype if isinstance(b, (bool, int, float, complex)) else None)
        if np.shape(b) != () or bdt0 != d.dtype or (whole is not None and not _same(b, whole)):
            # reported once per case and NOT treated as "first failing stage": the other facets of this stage and the later
            # stages are still checked (a known finding must not mask anything else)
            if not any(v["label"] == BLOCKVIEW_0D for v in ctx.violations):
                ctx.violation(BLOCKVIEW_0D, "x.blocks[()] of a 0-d array computes to %r, the array's value is %r" % (b, whole),
                              lazy_dtype=str(d.dtype))
    for how, blks in (("blocks", via_blocks), ("delayed", via_delayed)):
        if d.ndim == 0 and how == "blocks":
            continue
        if len(blks) != len(idxs):
            return ("block-count", "%d blocks via %s, numblocks %s" % (len(blks), how, numblocks))
        for idx, blk in zip(idxs, blks):
            ctx.count("blocks_checked")
            bshape = np.shape(blk)
            decl = tuple(d.chunks[a][i] for a, i in enumerate(idx))
            if len(bshape) != len(decl) or any((not _isnan(c)) and c != b for c, b in zip(decl, bshape)):
                return ("block-shape", "block %s (via %s) has shape %s, chunks declare %s" % (idx, how, bshape, decl))
            # (a block may be a bare Python scalar for 0-d arrays: judged by the dtype NumPy gives it)
            bdt = getattr(blk, "dtype", None) if hasattr(blk, "dtype") else np.asarray(blk).dtype
            if bdt != d.dtype:
                return ("block-dtype", "block %s (via %s) has dtype %s, lazy dtype %s" % (idx, how, bdt, d.dtype))
        if whole is None:
            continue
        if d.ndim == 0:
            re = np.asarray(blks[0])
        else:
            try:
                re = np.block(_nested([np.asarray(b) for b in blks], numblocks))
            except Exception as ex:  # noqa: BLE001
                return ("block-placement", "blocks (via %s) cannot be assembled by block index: %s" % (how, ex))
        ctx.count("reassembled")
        if re.shape != whole.shape:
            return ("block-placement", "blocks (via %s) assemble to shape %s, whole result %s" % (how, re.shape, whole.shape))
        try:
            np.testing.assert_array_equal(re, whole)
        except AssertionError as ex:
            return ("block-placement", "blocks (via %s) placed by index differ from the whole result: %s" % (how, " ".join(str(ex).split())[:200]))
    return None


def _same(a, b):
    try:
        np.testing.assert_array_equal(np.asarray(a), np.asarray(b))
        return True
    except Exception:  # noqa: BLE001
        return False


def _features(step, d_prev, value_prev):
    """Value-free input features of the step that produced a stage (label predicate)."""
    f = []
    if 0 in np.shape(value_prev):
        f.append("zero-length")
    if np.ndim(value_prev) == 0:
        f.append("0-d")
    elif not any(np.shape(value_prev)):
        f.append("all-axes-empty")
    if d_prev is not None:
        if any(_isnan(c) for cs in d_prev.chunks for c in cs):
            f.append("unknown-chunks")
        elif any(len(cs) > 1 and sum(cs) <= 1 for cs in d_prev.chunks):
            f.append(SHORT_AXIS)
        elif any(len(cs) > 1 and 0 in cs for cs in d_prev.chunks):
            f.append("zero-size-chunk")
    if step.get("op") == "bincount" and step.get("minlength") and np.size(value_prev) \
            and int(np.abs(value_prev).max()) >= step["minlength"]:
        f = ["max>=minlength"]    # the op-specific predicate decides alone
    return "&".join(f) or "-"


SHAPE_FACETS = ("lazy-shape", "lazy-chunks", "block-shape", "block-count", "block-placement", "block-compute")


def _negative_step(st):
    if st["op"] in ("flip", "rot90"):
        return True
    return st["op"] == "getitem" and any(it[0] == "s" and it[3] is not None and it[3] < 0 for it in st["index"])


def classify(st, name, feat, facet):
    """Mechanism label.  Default ``<step variant>:<input features>:<facet>``; the mechanisms that were triaged on the
    unchanged tree get ONE label each, whatever operation/symptom variant reaches them."""
    f = set(feat.split("&"))
    shapeish = facet.startswith(SHAPE_FACETS)
    op = st.get("op")
    empty = bool(f & {"zero-length", "zero-size-chunk", SHORT_AXIS})
    if empty and shapeish and op == "reduce" and st["fn"] in ("min", "max", "nanmax", "nanmin"):
        return "reduce.minmax:empty-blocks:result-shape"                          # chunk_min/chunk_max placeholder
    if empty and shapeish and op == "searchsorted":
        return "searchsorted:empty-blocks:result-shape"                           # same, through out.max(axis=0)
    if "zero-size-chunk" in f or SHORT_AXIS in f:   # (a short split axis has zero-size chunks too)
        if _negative_step(st) and facet.startswith("vs-numpy"):
            return "negative-step-slice:zero-size-chunk:" + facet
        if op == "cum" and st.get("method") == "sequential" and shapeish:
            return "cum.sequential:zero-size-chunk:result-shape"
        if op == "reduce" and st["fn"] in ("var", "std") and facet == "vs-numpy-values":
            return "reduce.var-std:zero-size-chunk:vs-numpy-values"
        if op == "coarsen" and shapeish:
            return "coarsen:zero-size-chunk:result-shape"
    if SHORT_AXIS in f and "all-axes-empty" in f:
        # x.rechunk(...) is a no-op for an array whose axes are ALL empty, so unify_chunks cannot bring it to one chunk
        return "aligned-op:all-axes-empty-array-in-several-zero-size-chunks:blocks-do-not-match-chunks"
    if SHORT_AXIS in f:
        return "aligned-op:%s:blocks-do-not-match-chunks" % SHORT_AXIS          # unify_chunks
    return "%s:%s:%s" % (name, feat, facet)


def run_case(case, ctx):
    import dask
    import dask.array as da

    x = A.rand_data(case["seed"], case["shape"], case["dtype"], special=(case["seed"] % 3 == 0))
    chunks = A.chunks_of_desc(case["chunks"])
    steps = case["steps"]
    for st in steps:
        ctx.op(O.variant(st))
    ctx.count("pipelines_len_%d" % len(steps))
    sched = "threads" if case.get("threads") else "sync"

    with warnings.catch_warnings():
        warnings.simplefilter("ignore")
        with np.errstate(all="ignore"):
            # ---- NumPy side ----------------------------------------------------------------
            exp = [x]
            try:
                for st in steps:
                    exp.append(np.asarray(O.apply_step(st, exp[-1], "np")))
            except Exception as ex:  # noqa: BLE001
                ctx.reject("numpy: %s: %s" % (type(ex).__name__, ex))
                return
            # ---- dask side: build every program-visible stage ----------------------------------
            stages = [da.from_array(x, chunks=chunks)]
            build_failure = None
            for k, st in enumerate(steps):
                try:
                    r = O.apply_step(st, stages[-1], "da")
                except Exception as ex:  # noqa: BLE001
                    build_failure = (k + 1, st, ex)
                    break
                if not isinstance(r, da.Array):
                    ctx.violation("%s:%s:result-not-a-dask-array" % (O.variant(st), _features(st, stages[-1], exp[k])), "got %r" % (type(r),))
                    return
                if int(np.prod(r.numblocks)) > MAX_BLOCKS:
                    # generator-domain bound decided at run time: the program ends before a stage with a huge block grid
                    ctx.count("truncated_at_large_block_grid")
                    break
                stages.append(r)
            ctx.nontrivial = len(stages) >= 3 and A.has_split(chunks)
            # ---- one joint compute of all stages -----------------------------------------------
            values, joint_ex = None, None
            try:
                values = dask.compute(*stages, scheduler=sched)
                ctx.count("joint_computes")
            except Exception as ex:  # noqa: BLE001
                joint_ex = ex
            # ---- per stage facets, in program order ------------------------------------------------
            inexact, scale, nmax, lowprec = False, 1.0, 1, False
            for k in range(len(stages)):
                d, e = stages[k], exp[k]
                st = steps[k - 1] if k else {"op": "from_array"}
                feat = _features(st, stages[k - 1] if k else None, exp[k - 1] if k else x)
                name = O.variant(st)

                def lab(facet, st=st, name=name, feat=feat):
                    return classify(st, name, feat, facet)
                if values is not None:
                    whole = values[k]
                else:
                    try:
                        whole = d.compute(scheduler="sync")
                    except NotImplementedError as ex:
                        ctx.unsupported("%s: %s" % (name, ex))
                        return
                    except Exception as ex:  # noqa: BLE001
                        # No computed result for this stage.  The blocks may still be computable one by one: if they
                        # contradict .chunks/.dtype that is a C25 witness; otherwise the failure is the operation's own
                        # (C19-C27) and C25 does not speak (recorded, skipped).
                        try:
                            m = stage_mismatch(d, None, ctx)
                        except Exception:  # noqa: BLE001
                            m = None
                        if m:
                            ctx.violation(lab(m[0]),
                                          m[1] + " (and the whole stage raises %s)" % exc_label(ex),
                                          step=st, stage=k, lazy_chunks=str(d.chunks))
                            return
                        ctx.count("compute-refused:%s:%s" % (O.variant(st), exc_label(ex)))
                        ctx.count("compute_refused")
                        ctx.nontrivial = ctx.nontrivial and k >= 3
                        if k < 2:
                            ctx.unsupported("no computed result: %s (%s): %s" % (name, feat, exc_label(ex)))
                        return
                ctx.count("stages_checked")
                if any(_isnan(c) for cs in d.chunks for c in cs):
                    ctx.count("stages_unknown_chunks")
                try:
                    m = stage_mismatch(d, whole, ctx)
                except Exception as ex:  # noqa: BLE001
                    from ..core.ctx import CaseTimeout

                    if isinstance(ex, CaseTimeout):
                        raise
                    m = ("block-compute:" + exc_label(ex), "computing the blocks one by one raises %s: %s" % (type(ex).__name__, ex))
                if m:
                    ctx.violation(lab(m[0]), m[1], step=st, stage=k, lazy_chunks=str(d.chunks), lazy_dtype=str(d.dtype))
                    return
                # NumPy differential (catches metadata that is wrong together with the computation)
                if k and O.inexact(st, e.dtype.kind):
                    inexact = True
                if e.dtype.kind in "fc" and e.size:
                    fin = np.abs(e[np.isfinite(e)])
                    if fin.size:
                        scale = max(scale, float(fin.max()))
                nmax = max(nmax, int(e.size), int(x.size))
                ctx.count("compared_with_numpy")
                if e.dtype in (np.dtype("float32"), np.dtype("complex64")):
                    lowprec = True   # single precision rounding of an earlier stage survives a later cast to double
                factor = 8.0 * (float(np.finfo(np.float32).eps) / float(np.finfo(np.float64).eps)) \
                    if (lowprec and e.dtype in (np.dtype("float64"), np.dtype("complex128"))) else 8.0
                m = compare_arrays(whole, e, exact=not inexact, n=nmax, scale=scale * scale, factor=factor)
                if m:
                    ctx.violation(lab("vs-numpy-" + m[0]), m[1], step=st, stage=k, lazy_chunks=str(d.chunks))
                    return
            if joint_ex is not None:
                ctx.exception(joint_ex, prefix="joint-compute-only")
                return
            ctx.sample = {"steps": [O.variant(s) for s in steps], "chunks": case["chunks"],
                          "stage_chunks": [str(s.chunks) for s in stages[1:]][:6], "final_dtype": str(stages[-1].dtype)}
            if build_failure is not None:
                # Every stage that exists was checked and is consistent; the next step could not even be built.  C25 speaks
                # about expressions that have a computed result, so this is recorded as a skipped case (see skip_reasons),
                # never as "held": the skipped fraction is bounded by FLOORS.
                k, st, ex = build_failure
                ctx.count("build_refused")
                why = "dask could not build %s (%s): %s" % (O.variant(st), _features(st, stages[-1], exp[k - 1]), exc_label(ex))
                ctx.count("build-refused:%s:%s" % (st["op"], exc_label(ex)))
                if len(stages) < 2 or isinstance(ex, NotImplementedError):
                    ctx.unsupported(why)
