"""C24 — structural array operations equal NumPy.

Monitor: NumPy differential.  Every case rebuilds small arrays from a JSON description, applies the
same structural operation through dask.array (real code; sync scheduler, a seeded tenth on threads) and
through NumPy, and compares shape, dtype and values exactly (NaN == NaN); the lazy .shape/.dtype/.chunks
are compared with the computed value.  Operations: reshape (merge_chunks True/False, -1, size-1 axes,
0-d and zero-length), transpose / .T / moveaxis / swapaxes, squeeze / expand_dims, concatenate / stack /
block (nestings, NumPy and dask inputs mixed, own chunking per input), broadcast_to, flip / rot90,
take (sorted / unsorted / duplicate / negative indices), da.shuffle (vs np.take with the flattened
indexer), repeat / tile, pad (constant, edge, linear_ramp, maximum / mean / median / minimum with
stat_length, reflect / symmetric with reflect_type, wrap; 'empty' excluded), tril / triu, diff (n, axis,
prepend / append), roll (shift / axis tuples).

Calibration
* NumPy raising (pad of an empty axis, diff of bool, -1 with an ambiguous size, ...) -> rejected case.
* dask NotImplementedError (pad mode 'median', array-valued repeats, repeat with axis=None) -> unsupported.
* da.shuffle is documented as *reordering* an axis: the indexer is a partition of a permutation of the axis
  (every position exactly once, no empty group).
* mean / linear_ramp padding of floating data is compared with the reassociation tolerance (the statistic is
  a reduction over chunks) and uses finite data (a ramp from a NaN/inf edge value depends on the interpolation
  formula, `ACTUAL [-4, nan, inf]` vs `[nan, inf, inf]`); everything else exactly.
* pad with value keywords (constant_values / end_values / stat_length) and the statistic modes use numeric
  dtypes only (NumPy itself converts 2.5 to a datetime there).
* take with a 2-d index array is array indexing (C20), not in this statement's list -> not generated.

Parameter audit (operation x parameter x value class; each family has a counter and a floor):
* every operation also on 3-d / 4-d arrays with pairwise different lengths (not only the axis permutations);
* reshape ``limit=`` (8, 64, "1KiB"; the parameter is documented but not read by reshape in this version - values must not change);
* expand_dims with negative entries in an axis tuple; concatenate ``axis=None`` (members flattened, any shapes);
* ``allow_unknown_chunksizes=True`` for concatenate / stack / block on members whose chunk sizes are unknown (filtered with a lazy
  boolean mask) along an axis other than the concatenated one - the members share the mask and the chunks along that axis, dask
  documents that it cannot align unknown chunks - and, without the flag, unknown sizes along the concatenated axis itself;
  counters members_of_mixed_dtypes / concatenate_zero_length_member measure the classes the base generator already had;
* pad with a callable mode: four user functions (constant per side and axis, or depending on the whole line; each once in NumPy's
  documented in-place form returning None and once returning the vector), with and without a keyword forwarded to the function;
  the sibling facet changes the function or its keyword;
* take without ``axis=`` (NumPy: the flattened array);
* layout class for take / shuffle: an indexer whose groups line up one-to-one with the input chunks along the axis and permute
  only INSIDE each chunk (half of them keep every chunk's first and last position), also on the long-axis family.
GENUINE (fixes_ready/C24_01): the in-place form (the example of the NumPy documentation) makes da.pad raise TypeError / pad with NaN,
and the function is handed a possibly read-only view of the task's input: label
``pad:mode=callable&function-returns-None:differs-from-numpy`` (one label for all symptoms).
KNOWN (known_findings.d/C24.json): ``take:axis-omitted&ndim>=2:differs-from-numpy`` - da.take's axis defaults to 0, NumPy's to None.

Sibling facet (vf/mon/siblings.py): every case is also built a second time with ONE result-relevant parameter changed
(another indexer / axes / target shape / merge_chunks / pad width, mode or constant / k / n / shift / repeats / reps).
The two lazily built collections must not share output keys unless their stand-alone values are equal (label
``<op>:<param>-not-in-name:siblings-share-keys``); for a seeded ~15 % of the cases both are also computed in one graph and
compared with their stand-alone values (``<op>:<param>:differs-when-computed-with-sibling``).  Counters siblings_built /
siblings_computed_together / siblings_with_different_values have floors.
GENUINE (fixes_ready/SIB_01): ``x.reshape(s, merge_chunks=False)`` and ``x.reshape(s, merge_chunks=True)`` are both named
``"reshape-" + tokenize(x, s)`` although their blocks differ (chunks (1,)*6 vs (1, 2, 1, 2)); equal assembled values,
different values under the shared keys: ``da.concatenate([a, b]).compute()`` raises 'Missing dependency'.  Label
``reshape:merge_chunks-not-in-name:siblings-share-keys`` fires on the tree without that fix.
"""
from __future__ import annotations

import random
import warnings

import numpy as np

from ..gen import arrays as A
from ..mon import siblings as S
from ..mon.compare import compare_arrays, lazy_meta_mismatch

PROP = "C24"
RULE = ("cases = (operation, parameters, input shape 0-3 d with lengths 0-7, dtype, chunking, secondary inputs each with "
        "their own chunking and a dask|numpy flag). Complete part: all 8 chunkings of shape (2,3) x 27 fixed operations. "
        "non-trivial = some dask input axis split into >= 2 chunks; distinct = distinct case description without data seed.")
ASSUMPTIONS = ["NumPy 2.x defines the expected values, shape and dtype", "sync scheduler (threads for a tenth)"]
BUDGET = {"quick": 60, "thorough": 480}
FLOORS = {"quick": {"evaluations": 2200, "distinct_nontrivial": 1400, "counters": {"compared": 2000, "lazy_meta_checked": 2000},
                    "max_skipped_fraction": 0.3},
          "thorough": {"evaluations": 45000, "distinct_nontrivial": 24000, "counters": {"compared": 40000, "lazy_meta_checked": 40000},
                       "max_skipped_fraction": 0.3}}
# sibling facet (vf/mon/siblings.py): ~45 % of the smallest count of the five quick seeds on the unchanged tree; thorough =
# quick floor x (thorough / quick stream size) x 0.6.  A run in which the facet never executed is INCONCLUSIVE.
FLOORS["quick"]["counters"].update({"siblings_built": 1600, "siblings_computed_together": 230, "siblings_with_different_values": 190})
FLOORS["thorough"]["counters"].update({"siblings_built": 19000, "siblings_computed_together": 2800, "siblings_with_different_values": 2300})
# parameter audit families: ~45 % of the smallest count of the five quick seeds; thorough = quick floor x 12 (stream ratio ~20)
_AUDIT = {"nd>=3_pairwise_different_lengths": 670, "reshape_limit_given": 53, "expand_dims_negative_in_tuple": 13,
          "concatenate_axis_none": 11, "concatenate_zero_length_member": 26, "members_of_mixed_dtypes": 190, "take_axis_omitted": 6,
          "pad_callable": 21, "unknown_chunks_allow_flag": 36, "unknown_chunks_without_flag": 7,
          "indexer_permutes_inside_chunks_only": 35, "indexer_permutes_inside_chunks_only&chunk>=4": 6}
FLOORS["quick"]["counters"].update(_AUDIT)
FLOORS["thorough"]["counters"].update({k: 12 * v for k, v in _AUDIT.items()})
FLOORS["quick"]["sets"] = {"ops_on_nd>=3_pairwise_different": 17}
FLOORS["thorough"]["sets"] = {"ops_on_nd>=3_pairwise_different": 19}
EXHAUSTIVE_SPACE = "all 8 chunkings of shape (2,3) x 27 fixed structural operations"
CLAIM = ("Every generated structural operation was computed by the real dask.array and compared with NumPy on the same data "
         "(shape, dtype, exact values) and with its own lazy metadata; held = no mismatch and no dask exception inside the "
         "domain on the executions observed.")
LEVEL_NOTE = "NumPy is the reference; domain limited to the operations the statement names (see module docstring)"
TECHNIQUE = "runtime monitoring: NumPy differential oracle over generated inputs and a complete small chunking space"

PENDING = {
    "pad:mode=callable&function-returns-None:differs-from-numpy": "pad with a NumPy-style in-place user function (returns None): TypeError / NaN padding (fixes_ready/C24_01)",
    "pad:mode=callable&padded-axis-empty:ValueError@array/creation.py:wrapped_pad_func": "pad with a user function: the function is handed a view of the task's read-only input block ('assignment destination is read-only'); same repair (fixes_ready/C24_01)",
    "pad:stat-mode&zero-length:raises": "pad maximum/mean/minimum of an array with a zero-length axis (that axis not padded, NumPy accepts) raises (known_findings.d/C24.json)",
    "take:axis-omitted&ndim>=2:differs-from-numpy": "da.take's axis defaults to 0, np.take's to None (known_findings.d/C24.json)",
    "diff:bool:TypeError@array/routines.py:diff": "da.diff of a boolean array raises (NumPy differences booleans with not_equal)",
    "pad:reflect_type=odd:values": "pad(mode=reflect|symmetric, reflect_type='odd') silently returns the even reflection (kwarg read as 'reflect')",
    "pad:reuse-mode&width>reusable-extent:shape": "pad reflect/symmetric/wrap with a width larger than the axis (reflect: axis-1) returns a too short result",
    "pad:stat-mode&stat_length=None:TypeError@array/creation.py:expand_pad_value": "explicit stat_length=None (NumPy's default value) raises TypeError",
    "pad:stat-mode&stat_length>axis:values": "stat_length larger than the axis: the trailing window start goes negative and wraps (NumPy clips)",
    "pad:mode=constant&padded-axis-empty:ZeroDivisionError@array/core.py:<genexpr>": "constant pad of a zero-length axis divides by zero (chunk size 0 handed to normalize_chunks) -- no longer fires on the tree at cb807a3",
    "pad:mode=mean&integer-dtype&corners:values": "integer mean padding on >= 2 axes: corners are the rounded block mean, NumPy rounds axis by axis (off by one)",
    "pad:zero-length:ValueError@array/core.py:concatenate3": "pad (even with width 0, any mode) of a >= 2-d array with a zero-length axis: a key name reaches concatenate3 as data",
    "repeat:repeated-axis-empty:ValueError@array/core.py:concatenate": "repeat along a zero-length axis raises 'Need array(s) to concatenate'",
    "reshape:zero-length:TypeError@array/reshape.py:reshape_rechunk": "reshape (also roll/ravel through it) of an array with a zero-length dimension: reduce() of empty iterable",
    "reshape:zero-length:IndexError@array/reshape.py:reshape_rechunk": "reshape of an array with two zero-length dimensions: tuple index out of range",
    "reshape:zero-length:ValueError@local.py:start_state_from_dask": "reshape of a zero-length array, e.g. (0,3)->(3,0,3): graph misses blocks ('Missing dependency') at compute",
    "roll:scalar-shift&axis-tuple:ValueError@array/routines.py:roll": "roll(x, int, (a0, a1)) raises; NumPy uses the scalar shift for every axis (dask's own test_roll expects the error)",
}

OPS = ["reshape", "reshape", "reshape", "transpose", "moveaxis", "moveaxis", "swapaxes", "squeeze", "expand_dims", "concatenate", "concatenate",
       "stack", "block", "block", "broadcast_to", "flip", "rot90", "take", "take", "shuffle", "repeat", "tile", "pad", "pad", "pad",
       "tril", "triu", "diff", "diff", "roll", "roll"]
PAD_MODES = ["constant", "constant", "edge", "linear_ramp", "maximum", "mean", "median", "minimum", "reflect", "reflect",
             "symmetric", "symmetric", "wrap"]
DT = ["int64", "float64", "int8", "float32", "bool", "complex128", "uint8", "datetime64[ns]", "int32"]

FIXED = [
    {"op": "reshape", "tgt": [3, 2], "mc": True}, {"op": "reshape", "tgt": [3, 2], "mc": False},
    {"op": "reshape", "tgt": [6], "mc": True}, {"op": "reshape", "tgt": [6], "mc": False},
    {"op": "reshape", "tgt": [1, 6, 1], "mc": True}, {"op": "reshape", "tgt": [-1, 2], "mc": True},
    {"op": "transpose", "axes": None, "form": "T"},
    {"op": "flip", "axis": None}, {"op": "flip", "axis": 1},
    {"op": "roll", "shift": 1, "axis": None}, {"op": "roll", "shift": [1, -2], "axis": [0, 1]},
    {"op": "pad", "mode": "reflect", "pw": 2, "kw": {}}, {"op": "pad", "mode": "symmetric", "pw": [[1, 2], [3, 0]], "kw": {}},
    {"op": "pad", "mode": "wrap", "pw": 2, "kw": {}}, {"op": "pad", "mode": "constant", "pw": 1, "kw": {"constant_values": 7}},
    {"op": "concatenate", "axis": 0, "self": 1}, {"op": "concatenate", "axis": 1, "self": 1},
    {"op": "stack", "axis": 0, "self": 1}, {"op": "stack", "axis": -1, "self": 1},
    {"op": "tril", "k": 0}, {"op": "triu", "k": 1},
    {"op": "diff", "n": 1, "axis": 1, "pre": None, "app": None}, {"op": "diff", "n": 2, "axis": -1, "pre": 0, "app": None},
    {"op": "repeat", "repeats": 2, "axis": 1}, {"op": "tile", "reps": [2, 2]},
    {"op": "take", "idx": [2, 0, 0, -1], "axis": 1}, {"op": "rot90", "k": 1, "axes": [0, 1]},
]


# ------------------------------------------------------------------------------------------------ generation

def _sec(rng, shape, np_prob=0.3, dtype=None):
    return {"shape": list(shape), "chunks": [list(c) for c in A.rand_chunks(rng, shape)], "dtype": dtype or rng.choice(("int64", "float64", "int8")),
            "seed": rng.randrange(2 ** 31), "np": rng.random() < np_prob}


def _factor(rng, n):
    dims, m = [], n
    while m > 1 and len(dims) < 3:
        ds = [d for d in range(2, m + 1) if m % d == 0]
        d = rng.choice(ds)
        dims.append(d)
        m //= d
    if m > 1:
        dims.append(m)
    rng.shuffle(dims)
    return dims


def _reshape_target(rng, shape):
    n = int(np.prod(shape)) if shape else 1
    if n == 0:
        k = rng.randint(1, 3)
        tgt = [rng.choice((0, 1, 2, 3)) for _ in range(k)]
        if 0 not in tgt:
            tgt[rng.randrange(k)] = 0
        if rng.random() < 0.2:
            i = rng.randrange(k)
            tgt[i] = -1
        return tgt
    if rng.random() < 0.7 and shape:
        # merges of adjacent axes / splits of one axis: the reshapes dask implements
        tgt, i = [], 0
        while i < len(shape):
            u = rng.random()
            if u < 0.35 and i + 1 < len(shape):
                k = 3 if i + 2 < len(shape) and rng.random() < 0.3 else 2
                tgt.append(int(np.prod(shape[i:i + k])))
                i += k
                continue
            if u < 0.6 and shape[i] > 1:
                tgt.extend(_factor(rng, shape[i]))
            else:
                tgt.append(shape[i])
            i += 1
    else:
        tgt = _factor(rng, n)
    if n == 1 and rng.random() < 0.5:
        tgt = []
    for _ in range(rng.choice((0, 0, 1, 2))):
        tgt.insert(rng.randint(0, len(tgt)), 1)
    if tgt and rng.random() < 0.3:
        tgt[rng.randrange(len(tgt))] = -1
    if rng.random() < 0.1:
        tgt = [n]
    return tgt


def _unknown(rng, c, shape, cat_axis):
    """Unknown chunk sizes (the members are filtered with a lazy boolean mask along axis b) for concatenate / stack / block.
    b == the concatenation axis: every member has a mask of its own and the flag is not needed; b != it (always for
    stack): the members share the mask AND the chunks along b (dask cannot align unknown chunks, documented) and
    allow_unknown_chunksizes=True is required."""
    nd = len(shape)
    b = rng.randrange(nd)
    same = b != cat_axis
    c["unk"] = {"b": b, "flag": True if same else rng.random() < 0.5, "same": same, "mseed": rng.randrange(2 ** 31)}
    bch = [list(x) for x in A.rand_chunks(rng, shape)][b]
    c["unk"]["bchunks"] = bch
    for s2 in c["secs"]:
        s2["np"] = False
        if same:
            s2["chunks"][b] = list(bch)


def _gen(rng, op, long=False, audit=True):
    minnd = {"tril": 2, "triu": 2, "rot90": 2, "take": 1, "shuffle": 1, "diff": 1, "block": 1, "pad": 1}.get(op, 0)
    maxlen = 7
    shape = A.rand_shape(rng, maxnd=3, maxlen=maxlen, minnd=minnd)
    if op in ("moveaxis", "transpose", "swapaxes", "rot90") and rng.random() < 0.5:
        # axis permutations only differ from each other with >= 3 axes: half of these cases are 3-d / 4-d with
        # pairwise different lengths
        shape = tuple(rng.sample((1, 2, 3, 4, 5), rng.choice((3, 3, 4))))
    elif audit and not long and rng.random() < 0.16:
        # parameter audit: every operation also on 3-d / 4-d arrays with pairwise different lengths (an axis mix-up is
        # invisible when two lengths agree); pad / tile / block / tril / triu stay 3-d (task count)
        k = 3 if op in ("pad", "tile", "block", "tril", "triu", "broadcast_to") else rng.choice((3, 3, 4))
        shape = tuple(rng.sample((2, 3, 4, 5, 6), k))
    if op in ("pad", "shuffle") and rng.random() < 0.9:
        shape = tuple(max(1, s) for s in shape)
    longchunks = None
    if long:
        # one long, unevenly chunked axis: a chunk of more than 255 elements next to small ones, so that in-chunk
        # positions leave the range of the compact integer dtypes take/shuffle use for them
        small = [rng.randint(1, 30) for _ in range(rng.randint(2, 5))]
        small.insert(rng.randrange(len(small) + 1), rng.randint(257, 600))
        longchunks = small
        shape = (sum(small),) if rng.random() < 0.6 else rng.choice(((2, sum(small)), (sum(small), 2)))
    nd = len(shape)
    c = {"op": op}
    if op == "reshape":
        c.update(tgt=_reshape_target(rng, shape), mc=rng.random() < 0.5, form=rng.choice(("method", "function", "star")))
        if rng.random() < 0.3:
            c["limit"] = rng.choice((8, 64, "1KiB"))      # block size target in bytes: never changes the values
    elif op == "transpose":
        form = rng.choice(("axes", "axes", "T", "none", "method"))
        axes = rng.sample(range(nd), nd)
        if rng.random() < 0.3:
            axes = [a - nd for a in axes]
        c.update(axes=axes if form in ("axes", "method") else None, form=form)
    elif op == "moveaxis":
        if nd == 0:
            shape, nd = (2,), 1
        if rng.random() < 0.6:
            c.update(src=rng.randrange(-nd, nd), dst=rng.randrange(-nd, nd))
        else:
            k = rng.randint(1, nd) if rng.random() < 0.4 else max(1, rng.randint(nd - 1, nd))
            src, dst = rng.sample(range(nd), k), rng.sample(range(nd), k)
            if rng.random() < 0.3:
                src = [a - nd if rng.random() < 0.5 else a for a in src]
                dst = [a - nd if rng.random() < 0.5 else a for a in dst]
            c.update(src=src, dst=dst)
    elif op == "swapaxes":
        if nd == 0:
            shape, nd = (3,), 1
        c.update(a1=rng.randrange(-nd, nd), a2=rng.randrange(-nd, nd))
    elif op == "squeeze":
        shape = tuple(1 if rng.random() < 0.5 else s for s in shape)
        ones = [i for i, s in enumerate(shape) if s == 1]
        ax = None
        if ones and rng.random() < 0.6:
            k = rng.randint(1, len(ones))
            ax = rng.sample(ones, k)
            ax = [a - nd if rng.random() < 0.3 else a for a in ax]
            if len(ax) == 1 and rng.random() < 0.6:
                ax = ax[0]
        c.update(axis=ax)
    elif op == "expand_dims":
        if rng.random() < 0.5:
            ax = rng.randrange(-nd - 1, nd + 1)
        else:
            k = rng.randint(1, 2)
            ax = rng.sample(range(nd + k), k)
            if rng.random() < 0.6:
                ax = [a - (nd + k) if rng.random() < 0.7 else a for a in ax]
        c.update(axis=ax)
    elif op in ("concatenate", "stack"):
        if op == "concatenate" and nd == 0:
            shape, nd = (rng.randint(0, 4),), 1
        k = rng.randint(0, 3)
        ax = rng.randrange(-nd, nd) if op == "concatenate" else rng.randrange(-nd - 1, nd + 1)
        secs = []
        for _ in range(k):
            s2 = list(shape)
            if op == "concatenate":
                s2[ax] = rng.choice((0, 1, 2, 3, shape[ax]))
            secs.append(_sec(rng, s2))
        c.update(axis=ax, secs=secs, pos=rng.randint(0, k))
        u = rng.random()
        if op == "concatenate" and u < 0.12:
            c["axis"] = None                               # NumPy: every member is flattened first
        elif u < 0.4 and nd >= 1 and k >= 1:
            _unknown(rng, c, shape, ax % nd if op == "concatenate" else None)
    elif op == "block":
        form = rng.choice(("row", "row", "grid", "grid", "deep", "single", "col"))
        if form in ("grid", "deep") and nd < 2:
            shape = (rng.randint(1, 4), rng.randint(1, 4))
            nd = 2
        secs = []
        if form == "row":
            for _ in range(rng.randint(1, 2)):
                s2 = list(shape)
                s2[-1] = rng.randint(0, 4)
                secs.append(_sec(rng, s2))
        elif form == "col":
            if nd < 2:
                shape, nd = (rng.randint(1, 4), rng.randint(1, 4)), 2
            s2 = list(shape)
            s2[-2] = rng.randint(1, 3)
            secs.append(_sec(rng, s2))
        elif form in ("grid", "deep"):
            r2, c2 = rng.randint(1, 3), rng.randint(1, 3)
            lead = list(shape[:-2])
            secs = [_sec(rng, lead + [shape[-2], c2]), _sec(rng, lead + [r2, shape[-1]]), _sec(rng, lead + [r2, c2])]
        c.update(form=form, secs=secs)
        if form == "row" and nd >= 1 and rng.random() < 0.3:
            _unknown(rng, c, shape, nd - 1)
    elif op == "broadcast_to":
        src = tuple(1 if rng.random() < 0.4 else s for s in shape)
        lead = [rng.randint(0, 3) for _ in range(rng.choice((0, 0, 1, 2)))]
        tgt = lead + [rng.randint(0, 4) if s == 1 and rng.random() < 0.8 else t for s, t in zip(src, shape)]
        tgt = [t if s != 1 or True else t for s, t in zip([1] * len(lead) + list(src), tgt)]
        shape, nd = src, len(src)
        c.update(tgt=tgt, tchunks=rng.random() < 0.25, cseed=rng.randrange(10 ** 6))
    elif op == "flip":
        u = rng.random()
        ax = None if u < 0.25 or nd == 0 else (rng.randrange(-nd, nd) if u < 0.75 else rng.sample(range(nd), rng.randint(1, nd)))
        c.update(axis=ax, form=rng.choice(("flip", "flip", "flipud", "fliplr")) if nd >= 2 else "flip")
    elif op == "rot90":
        c.update(k=rng.randint(-3, 5), axes=rng.sample(range(nd), 2) if rng.random() < 0.7 else [rng.randrange(-nd, 0), 0])
    elif op == "take":
        ax = rng.randrange(-nd, nd)
        n = shape[ax]
        if n == 0:
            idx = []
        else:
            kind = rng.choice(("sorted", "unsorted", "dups", "negative", "scalar", "perm"))
            m = rng.randint(0, n + 3)
            if kind == "sorted":
                idx = sorted(rng.randrange(n) for _ in range(m))
            elif kind == "unsorted":
                idx = [rng.randrange(n) for _ in range(m)]
            elif kind == "dups":
                idx = [rng.choice((0, n - 1, rng.randrange(n))) for _ in range(m + 2)]
            elif kind == "negative":
                idx = [rng.randrange(-n, n) for _ in range(m)]
            elif kind == "scalar":
                idx = rng.randrange(-n, n)
            else:
                idx = rng.sample(range(n), n)
            if audit and kind == "perm" and rng.random() < 0.5:
                # the same layout class for take: a full-length index that permutes inside each input chunk only
                pre = [list(q) for q in A.rand_chunks(rng, shape)]
                if longchunks:
                    pre = [list(longchunks) if m == sum(longchunks) else [m] for m in shape]
                idx, start, keep = [], 0, rng.random() < 0.5
                if keep and n >= 4 and max(pre[ax]) < 4:
                    pre[ax] = [n]
                for ln in pre[ax]:
                    g = list(range(start, start + ln))
                    if keep and ln >= 4:
                        mid = g[1:-1]
                        rng.shuffle(mid)
                        g = [g[0]] + mid + [g[-1]]
                    else:
                        rng.shuffle(g)
                    idx += g
                    start += ln
                c["_chunks"], c["aligned"] = pre, True
            c["ikind"] = kind
        c.update(idx=idx, axis=ax, asarray=rng.random() < 0.5)
        if audit and not long and rng.random() < 0.14:
            c["axis"] = "omitted"                          # np.take(a, idx): the flattened array
            n = int(np.prod(shape))
            c["idx"] = [rng.randrange(n) for _ in range(rng.randint(0, 4))] if n else []
            c["ikind"] = "flat"
            c.pop("aligned", None)
    elif op == "shuffle":
        ax = rng.randrange(nd)
        n = shape[ax]
        perm = rng.sample(range(n), n)
        groups, i = [], 0
        while i < n:
            k = rng.randint(1, max(1, n - i))
            groups.append(perm[i:i + k])
            i += k
        if rng.random() < 0.15:
            groups = [sorted(g) for g in groups]
        if audit and rng.random() < 0.3:
            # parameter audit (layout class): the groups line up one-to-one with the input chunks along the axis (same count,
            # same lengths, same positions) and only the order INSIDE a chunk changes, half of the time with the first and
            # last position of every chunk left in place
            pre = [list(q) for q in A.rand_chunks(rng, shape)]
            if longchunks:
                pre = [list(longchunks) if m == sum(longchunks) else [m] for m in shape]
            groups, start, keep = [], 0, rng.random() < 0.5
            if keep and shape[ax] >= 4 and max(pre[ax]) < 4:
                pre[ax] = [shape[ax]]
            for ln in pre[ax]:
                g = list(range(start, start + ln))
                if keep and ln >= 4:
                    mid = g[1:-1]
                    rng.shuffle(mid)
                    g = [g[0]] + mid + [g[-1]]
                else:
                    rng.shuffle(g)
                if ln:
                    groups.append(g)
                start += ln
            if all(ln > 0 for ln in pre[ax]):
                c["_chunks"], c["aligned"] = pre, True
            else:
                groups = [perm] if perm else []
        c.update(indexer=groups, axis=ax, form=rng.choice(("function", "method")))
    elif op == "repeat":
        u = rng.random()
        ax = None if u < 0.15 else (rng.randrange(-nd, nd) if nd else None)
        c.update(repeats=rng.randint(0, 3) if rng.random() < 0.9 else [rng.randint(0, 2) for _ in range(shape[ax] if ax is not None else 1)], axis=ax)
    elif op == "tile":
        c.update(reps=rng.randint(0, 3) if rng.random() < 0.4 else [rng.randint(0, 3) for _ in range(rng.randint(0, nd + 1))])
    elif op == "pad":
        mode = rng.choice(PAD_MODES)
        big = rng.random() < 0.2
        hi = 3 if not big else 9
        u = rng.random()
        if u < 0.3:
            pw = rng.randint(0, hi)
        elif u < 0.45:
            pw = [rng.randint(0, hi), rng.randint(0, hi)]
        else:
            pw = [[rng.randint(0, hi), rng.randint(0, hi)] for _ in range(nd)]
        kw = {}

        def per_axis(f):
            u = rng.random()
            if u < 0.4:
                return f()
            if u < 0.6:
                return [f(), f()]
            return [[f(), f()] for _ in range(nd)]
        if mode == "constant" and rng.random() < 0.8:
            # values every generated dtype can hold (NumPy 2 refuses -2 for uint8 only when it actually has to store it)
            kw["constant_values"] = per_axis(lambda: rng.choice((0, 1, 3, 7)))
        elif mode == "linear_ramp" and rng.random() < 0.8:
            kw["end_values"] = per_axis(lambda: rng.choice((0, 1, -4, 6)))
        elif mode in ("maximum", "mean", "median", "minimum") and rng.random() < 0.7:
            kw["stat_length"] = per_axis(lambda: rng.randint(1, 4)) if rng.random() < 0.85 else None
        elif mode in ("reflect", "symmetric") and rng.random() < 0.5:
            kw["reflect_type"] = rng.choice(("even", "even", "odd"))
        if rng.random() < 0.12:
            # a user function in the mode argument; NumPy's contract: modify `vector` in place, the return value is ignored
            mode, kw = "callable", {}
            c["udf"] = rng.choice(("const-inplace", "const-return", "line-inplace", "line-return"))
            if rng.random() < 0.6:
                kw["padder"] = rng.choice((1, 3, 7))
        c.update(mode=mode, pw=pw, kw=kw)
    elif op in ("tril", "triu"):
        c.update(k=rng.randint(-4, 4))
    elif op == "diff":
        ax = rng.randrange(-nd, nd)

        def ext():
            u = rng.random()
            if u < 0.55:
                return None
            if u < 0.7:
                return rng.choice((0, 1, -3))
            s2 = list(shape)
            s2[ax] = rng.randint(0, 3)
            return _sec(rng, s2, np_prob=0.4)
        c.update(n=rng.choice((0, 1, 1, 1, 2, 2, 3)), axis=ax, pre=ext(), app=ext())
    elif op == "roll":
        u = rng.random()
        if u < 0.3 or nd == 0:
            c.update(shift=rng.randint(-9, 9), axis=None)
        elif u < 0.65:
            c.update(shift=rng.randint(-9, 9), axis=rng.randrange(-nd, nd))
        elif u < 0.8:
            k = rng.randint(1, 3)
            c.update(shift=rng.randint(-9, 9), axis=[rng.randrange(nd) for _ in range(k)])
        else:
            k = rng.randint(1, 3)
            c.update(shift=[rng.randint(-9, 9) for _ in range(k)], axis=[rng.randrange(-nd, nd) for _ in range(k)])
    c.update(shape=list(shape), chunks=[list(x) for x in A.rand_chunks(rng, shape)], dtype=rng.choice(DT), seed=rng.randrange(2 ** 31),
             threads=rng.random() < 0.1)
    if "_chunks" in c:
        c["chunks"] = c.pop("_chunks")
    if c.get("unk") and c["unk"]["same"]:
        c["chunks"][c["unk"]["b"]] = list(c["unk"]["bchunks"])
    if longchunks:
        c["chunks"] = [list(longchunks) if n == sum(longchunks) else [n] for n in shape]
        c["dtype"] = rng.choice(("int64", "float64"))
        c["family"] = "long-axis"
    if c["dtype"] == "datetime64[ns]":
        for s2 in c.get("secs", []) + [c[k] for k in ("pre", "app") if isinstance(c.get(k), dict)]:
            s2["dtype"] = "datetime64[ns]"
    if op == "pad" and (c["mode"] in ("mean", "linear_ramp", "maximum", "minimum", "median", "callable") or c["kw"]) \
            and c["dtype"] in ("bool", "datetime64[ns]", "complex128"):
        c["dtype"] = rng.choice(("int64", "float64", "int8", "float32"))
    return c


def cases(tier, seed):
    rng = random.Random(seed * 6689 + 11)
    for ch in A.all_chunkings((2, 3)):
        for f in FIXED:
            c = dict(f)
            c.update(space="exhaustive", shape=[2, 3], chunks=[list(x) for x in ch], dtype="int64", seed=5, threads=False)
            if c.get("self"):
                c["secs"] = [{"shape": [2, 3], "chunks": [list(x) for x in ch], "dtype": "int64", "seed": 5, "np": False}]
                c["pos"] = 0
            yield c
    n = 4600 if tier == "quick" else 100000
    for _ in range(n):
        yield _gen(rng, rng.choice(OPS))
    for _ in range(120 if tier == "quick" else 1500):
        yield _gen(rng, rng.choice(("take", "take", "shuffle")), long=True)


# ------------------------------------------------------------------------------------------------ execution

def _udf_const_inplace(vector, pad_width, iaxis, kwargs):
    """The example of the NumPy documentation: in place, returns nothing."""
    p = kwargs.get("padder", 10)
    if pad_width[0]:
        vector[:pad_width[0]] = p + iaxis
    if pad_width[1]:
        vector[-pad_width[1]:] = 2 * p + iaxis


def _udf_const_return(vector, pad_width, iaxis, kwargs):
    _udf_const_inplace(vector, pad_width, iaxis, kwargs)
    return vector


def _udf_line_inplace(vector, pad_width, iaxis, kwargs):
    """Depends on the whole line (its interior, which on later axes contains the padding of the earlier ones)."""
    inner = vector[pad_width[0]:len(vector) - pad_width[1]]
    p = kwargs.get("padder", 0)
    if pad_width[0]:
        vector[:pad_width[0]] = max(inner.max(), p) if inner.size else p
    if pad_width[1]:
        vector[-pad_width[1]:] = inner[0] if inner.size else p


def _udf_line_return(vector, pad_width, iaxis, kwargs):
    _udf_line_inplace(vector, pad_width, iaxis, kwargs)
    return vector


# input predicates that are ONE mechanism whatever the symptom (exception / shape / values): one label each
ONE_LABEL = {"mode=callable&function-returns-None", "axis-omitted&ndim>=2"}
UDF = {"const-inplace": _udf_const_inplace, "const-return": _udf_const_return, "line-inplace": _udf_line_inplace,
       "line-return": _udf_line_return}


def _tup(v):
    """JSON lists -> tuples where NumPy wants tuples (axes, shapes); leaves ints/None alone."""
    if isinstance(v, list):
        return tuple(_tup(x) for x in v)
    return v


def _features(case, x):
    """Mechanism features for labels: at most the zero-length/0-d flags plus ONE operation-specific predicate."""
    f = []
    shape = tuple(case["shape"])
    if 0 in shape:
        f.append("zero-length")
    if not shape:
        f.append("0-d")
    op = case["op"]
    if op == "reshape":
        if not case["mc"]:
            f.append("merge_chunks=False")
    elif op == "pad":
        mode = case["mode"]
        nd = len(shape)
        pw = np.broadcast_to(np.asarray(case["pw"]), (nd, 2)).tolist() if nd else []
        kw = case["kw"]
        reuse = mode in ("reflect", "symmetric", "wrap")
        stat = mode in ("maximum", "mean", "median", "minimum")
        sl = kw.get("stat_length")
        # input predicates that are mechanisms of their own: the label is the predicate alone
        if reuse and any(max(p) > (s - 1 if mode == "reflect" else s) for p, s in zip(pw, shape)):
            return "reuse-mode&width>reusable-extent"
        if reuse and kw.get("reflect_type") == "odd":
            return "reflect_type=odd"
        if stat and sl is not None and any(max(q) > s for q, s in zip(np.broadcast_to(np.asarray(sl), (nd, 2)).tolist(), shape)):
            return "stat-mode&stat_length>axis"
        if mode == "callable" and case["udf"].endswith("-inplace"):
            return "mode=callable&function-returns-None"
        if any(s == 0 and max(p) > 0 for p, s in zip(pw, shape)):
            return "mode=%s&padded-axis-empty" % mode
        if mode == "mean" and x.dtype.kind in "iu" and sum(1 for p in pw if max(p) > 0) >= 2:
            return "mode=mean&integer-dtype&corners"
        if stat and "stat_length" in kw and sl is None:      # after the corner mechanism: None now means "the whole axis"
            return "stat-mode&stat_length=None"
        f.append("mode=" + mode)
    elif op == "take":
        if case["axis"] == "omitted":
            return "axis-omitted&ndim>=2" if len(shape) >= 2 else "axis-omitted"
        f.append("indices=" + case.get("ikind", "empty"))
    elif op == "roll":
        if isinstance(case["axis"], list) and not isinstance(case["shift"], list):
            return "scalar-shift&axis-tuple"
        if False:
            pass
        else:
            f.append("axis=None" if case["axis"] is None else ("axis-tuple" if isinstance(case["axis"], list) else "axis-int"))
    elif op == "diff":
        if x.dtype.kind == "b":
            return "bool"
        if case["pre"] is not None or case["app"] is not None:
            f.append("prepend/append")
    elif op == "repeat":
        ax = case["axis"]
        if (ax is not None and shape and shape[ax] == 0) or (ax is None and shape == (0,)):
            return "repeated-axis-empty"
    elif op in ("concatenate", "stack", "block"):
        if case.get("unk"):
            f.append("unknown-chunks-on-%s-axis" % ("another" if case["unk"]["same"] else "the-concatenated"))
        if op == "concatenate" and case["axis"] is None:
            f.append("axis=None")
        if any(s["np"] for s in case.get("secs", [])):
            f.append("numpy-input")
        if op == "block":
            f.append("form=" + case["form"])
    elif op == "broadcast_to":
        if case["tchunks"]:
            f.append("chunks=")
    elif op == "transpose":
        f.append("form=" + case["form"])
    return "&".join(f) or "plain"


def run_case(case, ctx):
    import dask.array as da

    op = case["op"]
    shape = tuple(case["shape"])
    chunks = A.chunks_of_desc(case["chunks"])
    # Calibration: ramps/means that start from NaN/inf edge values are formula dependent -> finite data there
    x = A.rand_data(case["seed"], shape, case["dtype"], special=not (op == "pad" and case["mode"] in ("linear_ramp", "mean")))
    secs = case.get("secs", [])
    for k in ("pre", "app"):
        if isinstance(case.get(k), dict):
            secs = secs + [case[k]]
    ctx.op(op if op != "pad" else "pad:" + case["mode"])
    ctx.sig = {k: v for k, v in case.items() if k != "seed"}
    ctx.nontrivial = A.has_split(chunks) or any((not s["np"]) and A.has_split(s["chunks"]) for s in secs)
    feat = _features(case, x)

    def sec_np(s):
        return A.rand_data(s["seed"], s["shape"], s["dtype"], special=False)

    def sec_da(s):
        v = sec_np(s)
        return v if s["np"] else da.from_array(v, chunks=A.chunks_of_desc(s["chunks"]))

    def build(mod, X, sec, case=case):
        # `case` is the case itself or (sibling facet) the case with one parameter changed
        isda = mod is da
        if op == "reshape":
            tgt = _tup(case["tgt"])
            if not isda:
                return X.reshape(tgt)
            form = case.get("form", "method")
            lk = {"limit": case["limit"]} if case.get("limit") is not None else {}
            if form == "function":
                return da.reshape(X, tgt, merge_chunks=case["mc"], **lk)
            if form == "star" and len(tgt) > 0:
                return X.reshape(*tgt, merge_chunks=case["mc"], **lk)
            return X.reshape(tgt, merge_chunks=case["mc"], **lk)
        if op == "transpose":
            form = case["form"]
            if form == "T":
                return X.T
            if form == "none":
                return mod.transpose(X)
            if form == "method":
                return X.transpose(*case["axes"])
            return mod.transpose(X, _tup(case["axes"]))
        if op == "moveaxis":
            return mod.moveaxis(X, _tup(case["src"]), _tup(case["dst"]))
        if op == "swapaxes":
            return mod.swapaxes(X, case["a1"], case["a2"])
        if op == "squeeze":
            return mod.squeeze(X, axis=_tup(case["axis"]))
        if op == "expand_dims":
            return mod.expand_dims(X, _tup(case["axis"]))
        unk = case.get("unk")
        ukw = {}
        if unk and op in ("concatenate", "stack", "block"):
            b = unk["b"]
            sec0, members = sec, [0]

            def masked(V):
                j = members[0]
                members[0] += 1
                n = V.shape[b]
                m = np.random.default_rng(unk["mseed"] + (0 if unk["same"] else j)).random(n) < 0.6
                if isda and isinstance(V, da.Array):
                    m = da.from_array(m, chunks=(V.chunks[b],))
                return V[(slice(None),) * b + (m,)]

            def sec(s_):
                return masked(sec0(s_))
            X = masked(X)
            if isda and unk["flag"]:
                ukw["allow_unknown_chunksizes"] = True
        if op in ("concatenate", "stack"):
            seq = [sec(s) for s in case["secs"]]
            seq.insert(case["pos"], X)
            return getattr(mod, op)(seq, axis=case["axis"], **ukw)
        if op == "block" and unk:
            return mod.block([X] + [sec(s) for s in case["secs"]], **ukw)
        if op == "block":
            ss = [sec(s) for s in case["secs"]]
            form = case["form"]
            if form == "single":
                return mod.block(X)
            if form == "row":
                return mod.block([X] + ss)
            if form == "col":
                return mod.block([[X], [ss[0]]])
            if form == "grid":
                return mod.block([[X, ss[0]], [ss[1], ss[2]]])
            return mod.block([[[X, ss[0]]], [[ss[1], ss[2]]]])
        if op == "broadcast_to":
            tgt = tuple(case["tgt"])
            if isda and case["tchunks"]:
                r = random.Random(case["cseed"])
                nlead = len(tgt) - X.ndim
                tch = tuple(A.rand_comp(r, t) for t in tgt[:nlead]) + tuple(
                    c if s != 1 else A.rand_comp(r, t) for c, s, t in zip(X.chunks, X.shape, tgt[nlead:]))
                return da.broadcast_to(X, tgt, chunks=tch)
            return mod.broadcast_to(X, tgt)
        if op == "flip":
            form = case.get("form", "flip")
            if form != "flip":
                return getattr(mod, form)(X)
            return mod.flip(X, _tup(case["axis"]))
        if op == "rot90":
            return mod.rot90(X, case["k"], _tup(case["axes"]))
        if op == "take":
            idx = case["idx"]
            if case.get("asarray") and not isinstance(idx, int):
                idx = np.asarray(idx, dtype=np.intp)
            if case["axis"] == "omitted":
                return mod.take(X, idx)
            return mod.take(X, idx, axis=case["axis"])
        if op == "shuffle":
            if not isda:
                flat = [i for g in case["indexer"] for i in g]
                return np.take(X, np.asarray(flat, dtype=np.intp), axis=case["axis"])
            if case["form"] == "method":
                return X.shuffle(case["indexer"], axis=case["axis"])
            return da.shuffle(X, case["indexer"], case["axis"])
        if op == "repeat":
            return mod.repeat(X, case["repeats"], axis=case["axis"])
        if op == "tile":
            return mod.tile(X, _tup(case["reps"]))
        if op == "pad":
            kw = {k: _tup(v) for k, v in case["kw"].items()}
            if case["mode"] == "callable":
                return mod.pad(X, _tup(case["pw"]), UDF[case["udf"]], **kw)
            return mod.pad(X, _tup(case["pw"]), mode=case["mode"], **kw)
        if op in ("tril", "triu"):
            return getattr(mod, op)(X, case["k"])
        if op == "diff":
            kw = {}
            for k, name in (("pre", "prepend"), ("app", "append")):
                v = case[k]
                if v is not None:
                    kw[name] = sec(v) if isinstance(v, dict) else v
            return mod.diff(X, n=case["n"], axis=case["axis"], **kw)
        if op == "roll":
            return mod.roll(X, _tup(case["shift"]), _tup(case["axis"]))
        raise AssertionError(op)

    with warnings.catch_warnings():
        warnings.simplefilter("ignore")
        with np.errstate(all="ignore"):
            try:
                e = build(np, x, sec_np)
            except Exception as ex:  # noqa: BLE001
                ctx.reject("numpy: %s: %s" % (type(ex).__name__, ex))
                return
            if op == "shuffle" and not case["indexer"]:
                ctx.reject("empty indexer")
                return
            try:
                dx = da.from_array(x, chunks=chunks)
                r = build(da, dx, sec_da)
                if not isinstance(r, da.Array):
                    ctx.violation("%s:%s:result-not-a-dask-array" % (op, feat), "got %r" % (type(r),))
                    return
                rv = r.compute(scheduler="threads" if case.get("threads") else "sync")
            except NotImplementedError as ex:
                ctx.unsupported(str(ex))
                return
            except Exception as ex:  # noqa: BLE001
                from ..core.ctx import dask_frame

                fr = dask_frame(ex)
                if feat in ONE_LABEL:
                    ctx.violation("%s:%s:differs-from-numpy" % (op, feat), "raised %s: %s" % (type(ex).__name__, str(ex)[:300]))
                elif 0 in shape and ((fr and fr[1] == "reshape_rechunk") or op == "reshape" or (op == "roll" and case["axis"] is None)):
                    # reshape, and roll(axis=None) which ravels through it, reach the same code: one mechanism, one label prefix
                    ctx.exception(ex, prefix="reshape:zero-length", via=op)
                elif op == "pad" and 0 in shape and case["mode"] in ("maximum", "mean", "minimum"):
                    # NumPy accepts a statistic mode on an array with a zero-length axis as long as that axis is not padded;
                    # pad_stats computes the statistic of every side block, also of empty ones: one mechanism, whatever raises
                    ctx.violation("pad:stat-mode&zero-length:raises", "%s: %s" % (type(ex).__name__, str(ex)[:300]), mode=case["mode"])
                elif op == "pad" and 0 in shape and fr and fr[1] == "concatenate3":
                    # whatever the mode: a key name of an empty pad block reaches concatenate3 as data
                    ctx.exception(ex, prefix="pad:zero-length", mode=case["mode"])
                else:
                    ctx.exception(ex, prefix="%s:%s" % (op, feat))
                return
    ctx.count("compared")
    _audit_counters(case, ctx, x, secs)
    approx = op == "pad" and case["mode"] in ("mean", "linear_ramp") and np.asarray(e).dtype.kind in "fc"
    m = compare_arrays(rv, e, exact=not approx, n=max(shape) if shape else 1, scale=8.0)
    if m:
        ctx.violation("%s:%s:%s" % (op, feat, "differs-from-numpy" if feat in ONE_LABEL else m[0]), m[1],
                      lazy=(str(r.shape), str(r.dtype), str(r.chunks)))
    ctx.count("lazy_meta_checked")
    m = lazy_meta_mismatch(r, rv)
    if m:
        ctx.violation("%s:%s:%s" % (op, feat, m[0]), m[1])
    ctx.sample = {"op": op, "chunks": case["chunks"], "result_shape": list(np.shape(rv)), "result_chunks": repr(r.chunks)[:100]}
    # ---- sibling facet: the same operation with ONE parameter changed must not share keys with this result ------
    sib = _sibling(case)
    if sib is not None:
        param, c2 = sib
        S.check(ctx, op, param, r, (lambda: build(da, dx, sec_da, case=c2)), va=rv,
                describe={k: v for k, v in c2.items() if case.get(k) != v})


def _audit_counters(case, ctx, x, secs):
    """Counters (with floors) of the parameter-audit families, counted on compared cases only."""
    op, shape = case["op"], case["shape"]
    if len(shape) >= 3 and len(set(shape)) == len(shape):
        ctx.count("nd>=3_pairwise_different_lengths")
        ctx.distinct("ops_on_nd>=3_pairwise_different", op)
    if op == "reshape" and case.get("limit") is not None:
        ctx.count("reshape_limit_given")
    if op == "expand_dims" and isinstance(case["axis"], list) and any(a < 0 for a in case["axis"]):
        ctx.count("expand_dims_negative_in_tuple")
    if op in ("concatenate", "stack", "block"):
        if case.get("unk"):
            ctx.count("unknown_chunks_allow_flag" if case["unk"]["flag"] else "unknown_chunks_without_flag")
        if op == "concatenate" and case["axis"] is None:
            ctx.count("concatenate_axis_none")
        if len({x.dtype.str} | {np.dtype(s["dtype"]).str for s in case.get("secs", [])}) >= 2:
            ctx.count("members_of_mixed_dtypes")
        if op == "concatenate" and case["axis"] is not None and case.get("secs") and \
                any(s["shape"][case["axis"]] == 0 for s in case["secs"]) and len(shape) and shape[case["axis"]] != 0:
            ctx.count("concatenate_zero_length_member")
    if op == "take" and case["axis"] == "omitted":
        ctx.count("take_axis_omitted")
    if op in ("take", "shuffle") and case.get("aligned"):
        ctx.count("indexer_permutes_inside_chunks_only")
        ax = case["axis"]
        if max(case["chunks"][ax]) >= 4:
            ctx.count("indexer_permutes_inside_chunks_only&chunk>=4")
    if op == "pad" and case["mode"] == "callable":
        ctx.count("pad_callable")


def _other_int(srng, v, lo, hi):
    cand = [i for i in range(lo, hi + 1) if i != v]
    return srng.choice(cand) if cand else None


def _sibling(case):
    """(parameter name, case with that ONE parameter changed) or None: another indexer / axis / target / width / k ..."""
    op = case["op"]
    shape = case["shape"]
    nd = len(shape)
    srng = S.rng_for(case)
    c2 = dict(case)

    def other_axis(key, lo, hi):
        v = case[key]
        if not isinstance(v, int):
            return None
        cand = [a for a in range(lo, hi + 1) if a != v and (a - v) % max(hi + 1, 1) != 0]
        if not cand:
            return None
        c2[key] = srng.choice(cand)
        return key, c2

    if op == "reshape":
        if srng.random() < 0.3:
            c2["mc"] = not case["mc"]
            return "merge_chunks", c2
        for _ in range(5):
            t = _reshape_target(srng, tuple(shape))
            if list(t) != list(case["tgt"]):
                c2["tgt"] = t
                return "shape", c2
        return None
    if op == "transpose":
        if nd < 2:
            return None
        axes = list(range(nd))
        srng.shuffle(axes)
        c2.update(axes=axes, form="axes")
        return "axes", c2
    if op == "moveaxis":
        if isinstance(case["dst"], int) and nd >= 2:
            return ("axes", c2) if other_axis("dst", 0, nd - 1) else None
        return None
    if op == "swapaxes":
        return ("axes", c2) if nd >= 2 and other_axis("a2", 0, nd - 1) else None
    if op == "squeeze":
        ones = [i for i, n in enumerate(shape) if n == 1]
        if len(ones) < 2:
            return None
        cur = case["axis"]
        c2["axis"] = srng.choice(ones) if cur is None or isinstance(cur, list) else None
        return "axis", c2
    if op == "expand_dims":
        if isinstance(case["axis"], int):
            return ("axis", c2) if other_axis("axis", 0, nd) else None
        return None
    if op == "stack":
        return ("axis", c2) if other_axis("axis", 0, nd) else None
    if op == "concatenate":
        k = len(case["secs"])
        if k >= 1:
            c2["pos"] = srng.choice([p for p in range(k + 1) if p != case["pos"]])
            return "order", c2
        return None
    if op == "broadcast_to":
        c2["tgt"] = [srng.randint(1, 3)] + list(case["tgt"])
        if case["tchunks"]:
            c2["tchunks"] = False
        return "shape", c2
    if op == "flip":
        if case.get("form", "flip") != "flip" or nd == 0:
            return None
        cur = case["axis"]
        cand = [a for a in [None] + list(range(nd)) if a != cur and not (isinstance(cur, int) and a is not None and (a - cur) % nd == 0)]
        if nd == 1:
            return None
        c2["axis"] = srng.choice(cand)
        return "axis", c2
    if op == "rot90":
        v = _other_int(srng, case["k"] % 4, 0, 3)
        c2["k"] = v
        return "k", c2
    if op == "take":
        idx = case["idx"]
        if case["axis"] == "omitted":
            return None
        n = shape[case["axis"]]
        if n == 0:
            return None
        if isinstance(idx, int):
            v = _other_int(srng, idx % n, 0, n - 1)
            if v is None:
                return None
            c2["idx"] = v
        else:
            idx = list(idx)
            u = srng.random()
            if idx and u < 0.6:
                i = srng.randrange(len(idx))
                v = _other_int(srng, idx[i] % n, 0, n - 1)
                if v is None:
                    idx.append(0)
                else:
                    idx[i] = v
            elif idx and u < 0.8:
                idx = idx[::-1] if idx != idx[::-1] else idx + [idx[0]]
            else:
                idx.append(srng.randrange(n))
            c2["idx"] = idx
        return "indices", c2
    if op == "shuffle":
        groups = [list(g) for g in case["indexer"]]
        flat = [i for g in groups for i in g]
        if len(flat) < 2:
            return None
        if len(groups) >= 2 and srng.random() < 0.5:
            i = srng.randrange(len(groups) - 1)
            groups[i], groups[i + 1] = groups[i + 1], groups[i]       # same groups, other order
        else:
            i, j = srng.sample(range(len(flat)), 2)
            flat[i], flat[j] = flat[j], flat[i]                       # same group sizes, two positions exchanged
            out, k = [], 0
            for g in groups:
                out.append(flat[k:k + len(g)])
                k += len(g)
            groups = out
        c2["indexer"] = groups
        return "indexer", c2
    if op == "repeat":
        if isinstance(case["repeats"], int):
            c2["repeats"] = _other_int(srng, case["repeats"], 0, 3)
            return "repeats", c2
        return None
    if op == "tile":
        reps = case["reps"]
        if isinstance(reps, int):
            c2["reps"] = _other_int(srng, reps, 0, 3)
        elif reps:
            reps = list(reps)
            i = srng.randrange(len(reps))
            reps[i] = _other_int(srng, reps[i], 0, 3)
            c2["reps"] = reps
        else:
            c2["reps"] = [2]
        return "reps", c2
    if op == "pad":
        kw = case["kw"]
        if case["mode"] == "callable" and srng.random() < 0.6:
            if "padder" in kw and srng.random() < 0.6:
                c2["kw"] = dict(kw, padder=srng.choice([v for v in (1, 3, 7) if v != kw["padder"]]))
                return "pad_func_kwargs", c2
            c2["udf"] = {"const": "line", "line": "const"}[case["udf"].split("-")[0]] + "-" + case["udf"].split("-")[1]
            return "pad_func", c2
        if "constant_values" in kw and isinstance(kw["constant_values"], int) and srng.random() < 0.5:
            c2["kw"] = dict(kw, constant_values=srng.choice([v for v in (0, 1, 3, 7) if v != kw["constant_values"]]))
            return "constant_values", c2
        if srng.random() < 0.35:
            same_kw = {"reflect": "symmetric", "symmetric": "reflect", "maximum": "minimum", "minimum": "maximum",
                       "mean": "maximum", "median": "minimum", "edge": "wrap", "wrap": "edge"}.get(case["mode"])
            if same_kw:
                c2["mode"] = same_kw
                return "mode", c2
        pw = case["pw"]
        if isinstance(pw, int):
            c2["pw"] = pw + 1
        elif pw and isinstance(pw[0], int):
            c2["pw"] = [pw[0] + 1, pw[1]]
        elif pw:
            pw = [list(q) for q in pw]
            i = srng.randrange(len(pw))
            pw[i][srng.randrange(2)] += 1
            c2["pw"] = pw
        else:
            return None
        return "pad_width", c2
    if op in ("tril", "triu"):
        c2["k"] = _other_int(srng, case["k"], -4, 4)
        return "k", c2
    if op == "diff":
        if srng.random() < 0.5 and nd >= 2:
            return ("axis", c2) if other_axis("axis", 0, nd - 1) else None
        c2["n"] = _other_int(srng, case["n"], 0, 3)
        return "n", c2
    if op == "roll":
        sh = case["shift"]
        if isinstance(sh, int):
            c2["shift"] = sh + srng.choice((1, 2, -1))
        else:
            sh = list(sh)
            i = srng.randrange(len(sh))
            sh[i] += srng.choice((1, 2, -1))
            c2["shift"] = sh
        return "shift", c2
    return None
