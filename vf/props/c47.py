"""C47 — DataFrame file round trips preserve data (CSV half; see LEVEL_NOTE for parquet).

Two facets, both observed on the REAL ``dask.dataframe.to_csv`` / ``dd.read_csv`` with files in a
run-private temporary directory (removed after every case).

facet ``rt`` (round trip): a generated frame (int64, float64 with NaN, str with commas / quotes /
  spaces / non-ASCII / empty / "NA" and — only when read back with ``blocksize=None`` — embedded
  newlines, datetimes, nullable Int64 with NA, bool; a share with data rows EQUAL to the header text) is
  partitioned (from_pandas npartitions / chunksize, from_map / from_delayed row slices INCLUDING EMPTY
  partitions, up to 13 partitions, a forced share with 3..8 partitions for every layout),
  written with ``ddf.to_csv`` (glob pattern, directory, explicit path list or ``single_file=True``;
  ``name_function`` for glob and directory; ``index=True/False`` over range / named int / string / datetime
  indexes; ``header=True/False``; ``mode`` wt / w / a; and — parameter audit — ``sep`` (+ ``decimal``),
  ``quoting``, ``na_rep``, ``lineterminator``, ``encoding`` (latin-1, utf-16, utf-16-le), ``compression``
  (gzip / bz2 / xz, by suffix or explicit), ``compute=False`` then ``dask.compute``, the deprecated
  ``scheduler=`` keyword, ``columns=``, ``index_label=``, ``header_first_partition_only=True`` (the files
  concatenated in partition order are then read as ONE file), STALE LONGER FILES at the target paths
  (mode w must truncate), and a SECOND write of the same collection with ``mode='a', header=False`` to the
  same single file / path list) and read back with ``dd.read_csv`` (same glob / list; ``blocksize`` None,
  default or a few bytes; the matching ``sep`` / ``decimal`` / ``na_values`` / ``lineterminator`` /
  ``encoding`` / ``compression``).  What CSV cannot carry is normalised on the EXPECTED
  side by doing the same trip in pandas: ``expected = pd.read_csv(StringIO(pdf.to_csv(**same keywords)),
  dtype=, parse_dates=, header=/names=, ...)`` (so '' and 'NA' strings become NaN on both sides, the index
  becomes an ordinary leading column named as pandas names it).  Both readers get the SAME explicit
  ``dtype=`` for every non-datetime column and ``parse_dates=`` for the datetime ones, so only
  partition/file layout, header handling, quoting and block splitting are compared.
  Demanded: same columns in the same order, same number of rows, same values IN THE SAME ORDER
  (partition order = file order), the explicitly requested dtypes.  Not demanded: the dtype of a
  ``parse_dates`` column (pandas itself yields ``object`` for a header-only file, so an empty first
  partition legitimately makes dask's meta ``object``; such a column is converted with
  ``pd.to_datetime`` on both sides before the value comparison) and the index (dask restarts a
  RangeIndex per partition; both sides are reset).

facet ``rd`` (read_csv == pandas.read_csv): the harness writes the bytes itself (csv module: minimal /
  all / non-numeric quoting, ``\\n`` / ``\\r\\n`` / a custom one-character line end, trailing newline present
  or absent, header names that need quoting, 1–4 files incl. header-only files, rows equal to the header text,
  multi-byte UTF-8) and compares ``dd.read_csv(paths, blocksize=b, **kw)`` with ``pd.concat([pd.read_csv(p, **kw)
  for p in paths])`` for b from 1 byte up to beyond the file size, b == len(header) +-1, None, the default and
  the string form ("17B"); ``include_path_column`` (True or a name); explicit ``lineterminator``.
  Parameter audit: ``sep`` (+ ``decimal``), ``encoding`` (latin-1 / utf-16 with BOM / utf-16-le), ``compression``
  (gzip / bz2 / xz by suffix or explicit, WITH a blocksize: dask must fall back to one block per file),
  ``skiprows`` (int, list, a line after the header), ``comment`` (whole lines, runs of them, inline, in front of
  the header), blank lines (in the middle, in front of the header), ``na_values`` (list / dict / with
  ``keep_default_na=False``), ``usecols``, a column selection AFTER read_csv (projection pushed into the reader,
  with and without the path column), ``names=`` with ``header=None`` or ``header=0``, ``assume_missing``,
  ``sample`` (False / just the first row), ``enforce``, ``dtype="str"`` (not a mapping).
  Quoted fields containing line terminators: with ``blocksize=None``, and with a blocksize for which NO block
  boundary falls inside a quoted field (the dask docstring documents a split inside a quoted field as
  unsupported; the boundary positions are computed from the blocksize arithmetic of read_bytes).
  Here dtypes ARE compared (the statement says "the same frame").
  A small, separately labelled share (``infer``) omits ``dtype=`` for files whose every block
  infers the same dtypes by construction (no NA, no integral floats, blocksize None/default only).

Not covered (documented limitation): to_parquet / read_parquet (no pyarrow, see LEVEL_NOTE); read_table / read_fwf /
to_json / read_json are not named by the statement; ``skipfooter`` (python engine only), categorical dtypes,
``converters``, ``thousands``; utf-16 / utf-32 with ``single_file=True`` (see Calibration).

Labels ``<facet>:<necessary features>:<symptom>``: after a disagreement every feature of the case
description that is switched on is switched off in turn and the case is re-run; the features that are
NECESSARY for the disagreement name the mechanism (no sizes, seeds or paths).  Features that only move bytes
around (quoting, tricky values, CRLF ...) are kept only when nothing else is necessary.  Mechanisms that were
triaged by hand are recognised by an input/symptom predicate and get one label each (see ``_label``).

Calibration
-----------
* parse_dates column dtype after an empty first partition / header-only first file: pandas yields
  ``object`` for an empty parse_dates column and so does dask's meta -> rt facet compares such
  columns after ``pd.to_datetime`` on both sides (counted as ``rt_datetime_dtype_object``); in the rd facet
  the pandas reference (concat of per-file frames) has the same dtype by itself.
* rd facet with several files: the reference ``pd.concat`` of per-file frames turns a parse_dates column into
  ``object`` when one file is header-only; that is an artefact of the reference, so with several files parse_dates
  columns are compared as datetimes (``pd.to_datetime`` on whichever side is object) — found by running the check
  against a scratch copy with the proposed coerce_dtypes fix (on the unchanged tree dask raises there, see PENDING).
* explicit ``dtype=`` must also cover the written index column, otherwise inference on a header-only
  first file gives ``object`` (design note in DESIGN §9: inference on samples legitimately differs).
* ``mode='a'`` is only used on fresh paths or for the deliberate second write with ``header=False`` (appending with a
  header writes a second header: pandas semantics of ``to_csv(mode='a')``, not a round trip) and only for
  ``single_file=True`` / explicit path lists: with a glob or a
  directory fsspec does not expand ``*`` for append mode and to_csv raises IndexError — ``mode`` is not in the
  statement's quantifier, reported as a side observation in findings_proposed/C47.md.
* datetimes are written with an explicit ``date_format`` on both sides: pandas 3 writes an all-midnight partition as
  dates only, the assembled file then has mixed formats and pandas' own parse_dates leaves strings (false alarm
  ``rt:index-written&layout-single&several-partitions`` corrected; witness: 13 rows / 13 partitions, datetime index).
* ``lineterminator='\n'`` is only passed for LF files (with CRLF pandas itself keeps the ``\r`` in the last column
  name, so the dtype map no longer applies: generator error, corrected).
* ``infer`` share: no header-only files, no tricky (numeric-looking) strings: per-file/per-block inference
  legitimately differs there (two false alarms corrected).
* zero-byte files: pandas raises EmptyDataError -> rejected by the reference, not generated except
  as a rare reject-path probe.
Parameter audit (round 3):
* ``skiprows`` only with a blocksize that holds the skipped lines, the header and one data row (+1 byte): read_csv warns
  that "unexpected behavior can result from passing skiprows when blocksize is smaller than sample size", samples one
  block only and raises the documented "Sample is not large enough" otherwise (two false alarms corrected, one of them a
  header-only file whose size equalled the sample).
* ``sample='tight'`` covers the first data row (a sample without a data row raises the same documented error);
  ``sample`` is not combined with ``skiprows`` / ``assume_missing`` / quoted newlines.  With ``sample=False`` or a
  tight sample the parse_dates column of a sample WITHOUT data rows is ``object`` in pandas and becomes the declared
  dtype -> such columns are compared as datetimes (false alarm ``rd:blocked&datetime-column&sample:dtype`` corrected).
* ``assume_missing`` needs a data row in the first file (dtype inference from the sample; a header-only sample has no
  integer column to widen).
* inline comments are only appended to rows that do not end with a quoted field (pandas keeps text after a closing quote as
  part of the field, a date column then stays a string in pandas as well: generator error, corrected); ``#c`` is not
  generated as a value next to ``comment='#'`` (an unquoted comment character truncates the row in pandas too).
* the default file names of to_csv are zero padded from 10 partitions on (``part-00.csv``): the stale files of the
  "existing files" family are put at those names (harness error ``rt:existing-files...`` corrected: stale files with
  unpadded names were never overwritten and were read back through the glob).
* utf-16 / utf-32 with ``single_file=True`` are NOT generated: every append re-opens the file through fsspec, whose local
  file opener seeks to 0 after opening in append mode, so TextIOWrapper believes the file is new and the codec writes a
  second byte order mark in the middle of the file (``b'\xff\xfea\x00..\n\x00\xff\xfec\x00'``).  The installed fsspec
  (2026.7.0) is outside /repo; side observation, not a verdict.
* utf-16 together with bz2 / xz is NOT generated on the writer side: ``io.TextIOWrapper`` writes no byte order mark on a stream
  that is not seekable (``lzma.open(p, "wt", encoding="utf-16")`` alone writes a file without it), so the files cannot be read
  back by pandas either; standard library behaviour (false alarm under the BOM label corrected, the label now also requires a
  blocksize to be necessary).
* ``compression=`` of to_csv is never inferred from the file name (documented: "only used when the first argument is a
  filename" + default None): the writer always gets it explicitly; zip is not generated (no append).
"""
from __future__ import annotations

import csv
import io
import os
import random
import shutil
import tempfile
import warnings

PROP = "C47"
RULE = ("facet rd: complete sub-space first (5 fixed small files x every blocksize 1..size+2, None, default), then "
        "random harness-written CSV files (schema of 1-5 columns from int/float+NaN/str tricky/datetime/Int64+NA/bool, "
        "0-25 rows, 1-4 files, quoting, line ends incl. a custom terminator, trailing newline, header-only files, header-equal rows, "
        "quoted newlines with blocksize=None or a blocksize whose boundaries miss the quoted fields) read with random blocksizes (1 byte .. > "
        "file size, around the header length, None, default, string form), include_path_column (True / name) and independent small shares of "
        "sep/decimal, encoding, compression, skiprows, comment, blank lines, na_values, usecols, column selection after the read, names=, "
        "assume_missing, sample, enforce, dtype='str'; facet rt: random frames x partitionings (incl. empty partitions, >= 3 partitions for "
        "every layout) x to_csv layout (glob/dir/list/single_file, name_function, index, header, mode) x independent shares of sep/decimal, "
        "quoting, na_rep, lineterminator, encoding, compression, compute=False, scheduler=, columns=, index_label=, "
        "header_first_partition_only, stale files at the target, a second appending write x read-back blocksize. non-trivial = at least one "
        "data row and (>= 2 blocks/partitions/files); distinct = distinct case description")
ASSUMPTIONS = [
    "pandas.read_csv / DataFrame.to_csv (pandas 3.0.5) define the expected frame; Python's csv module writes the rd files",
    "explicit dtype=/parse_dates= are passed to both readers (dtype inference from samples is documented to differ)",
    "dask.dataframe is imported through the pyarrow import stub; to_parquet/read_parquet need the real pyarrow and are NOT decided",
    "gzip / bz2 / lzma of the standard library write the compressed rd files; fsspec (installed, outside /repo) opens the files",
    "the block offsets of dask.bytes.read_bytes are re-computed by the harness only to CHOOSE blocksizes (no boundary inside a quoted "
    "field) and to evaluate input-feature predicates of labels, never to decide a case",
]
BUDGET = {"quick": 60, "thorough": 560}
CASE_TIMEOUT = 240
EXHAUSTIVE_SPACE = ("rd facet: 5 fixed files (LF with/without trailing newline, CRLF, quoted commas/quotes, header only) x "
                    "every blocksize from 1 to filesize+2 plus None and the default")
LEVEL_NOTE = ("CSV half only: to_parquet/read_parquet need the real pyarrow, which is not installed in this sandbox and cannot "
              "be fetched, so the parquet half of the statement (incl. partition_on) is not decided; trusts pandas' CSV reader/"
              "writer and the csv module as reference")
TECHNIQUE = ("runtime monitoring: differential oracle — real to_csv->read_csv vs the same trip in pandas, and real "
             "read_csv(blocksize=b) vs pandas.read_csv on harness-written bytes; complete blocksize sweep on fixed files + random; "
             "feature-necessity labels")
CLAIM = ("Every observed to_csv -> read_csv round trip reproduced the rows, their order and values of the pandas round trip of "
         "the same frame, and every observed read_csv(blocksize=b) equalled pandas.read_csv (all blocksizes 1..size+2 on five "
         "fixed files completely, otherwise sampled), for the writer / reader keywords listed in the module docstring, except for the "
         "labels listed as findings. Parquet, read_table/read_fwf and JSON are not covered.")

FLOORS = {
    # ~45 % of the counts measured on the unchanged tree (quick seed 0: 1674 evaluations, 1126 distinct non-trivial; the minimum over
    # seeds 0 1 2 7 12345 is above every floor); one counter per audited keyword / size class
    "quick": {"evaluations": 750, "distinct_nontrivial": 500,
              "counters": {"rd_reads": 489, "rd_multi_block_reads": 200, "rd_blocksize_le_header": 105, "rd_rows_compared": 10000,
                           "rd_header_only_files": 90, "rd_no_trailing_newline": 178, "rd_files_with_quotes": 309,
                           "rt_roundtrips": 247, "rt_files_written": 719, "rt_rows_compared": 2270, "rt_with_empty_partition": 45,
                           "rt_single_file": 89, "rt_index_written": 97, "exhaustive_sweep": 114,
                           # parameter audit: read_csv keywords / input classes
                           "rd_sep": 47, "rd_encoding": 35, "rd_compressed": 33, "rd_compressed_with_blocksize": 26, "rd_skiprows": 33,
                           "rd_skiprows_multi_block": 12, "rd_comment": 28, "rd_comment_before_header": 9, "rd_blank_lines": 31,
                           "rd_na_values": 40, "rd_usecols": 27, "rd_projected": 34, "rd_names": 28, "rd_assume_missing": 8,
                           "rd_sample": 19, "rd_enforce": 27, "rd_blocksize_str": 29, "rd_single_dtype": 17, "rd_path_column": 53,
                           "rd_path_named": 18, "rd_custom_eol": 23, "rd_header_like_rows": 25, "rd_quoted_newline_split_elsewhere": 8,
                           # parameter audit: to_csv keywords / layouts / state
                           "rt_sep": 29, "rt_quoting": 18, "rt_na_rep": 18, "rt_lineterminator": 21, "rt_encoding": 20, "rt_compressed": 22,
                           "rt_compressed_read_with_blocksize": 9, "rt_compute_false": 22, "rt_compute_false_parts_ge3": 17,
                           "rt_scheduler_kw": 12, "rt_columns": 15, "rt_index_label": 16, "rt_header_first_partition_only": 9,
                           "rt_overwrite_existing": 21, "rt_second_write_appends": 14, "rt_header_like_rows": 11, "rt_name_function": 62,
                           "rt_mode_a": 23, "rt_mode_w": 68, "rt_parts_ge3_glob": 45, "rt_parts_ge3_dir": 17, "rt_parts_ge3_list": 26,
                           "rt_parts_ge3_single": 54},
              "max_skipped_fraction": 0.15},
    "thorough": {"evaluations": 20300, "distinct_nontrivial": 13900,
                 # 45 % of the thorough run on the unchanged tree (45114 evaluations, 31046 distinct non-trivial)
                 "counters": {"rd_reads": 13250, "rd_multi_block_reads": 5450, "rd_blocksize_le_header": 2950,
                              "rd_rows_compared": 305040, "rd_header_only_files": 2550, "rd_no_trailing_newline": 5410,
                              "rd_files_with_quotes": 9250, "rt_roundtrips": 6660, "rt_files_written": 20520,
                              "rt_rows_compared": 65000, "rt_with_empty_partition": 1330, "rt_single_file": 2240,
                              "rt_index_written": 2620, "exhaustive_sweep": 114, "rd_sep": 1380, "rd_encoding": 1020,
                              "rd_compressed": 950, "rd_compressed_with_blocksize": 690, "rd_skiprows": 890,
                              "rd_skiprows_multi_block": 330, "rd_comment": 930, "rd_comment_before_header": 300,
                              "rd_blank_lines": 970, "rd_na_values": 1030, "rd_usecols": 830, "rd_projected": 1070,
                              "rd_names": 1090, "rd_assume_missing": 280, "rd_sample": 680, "rd_enforce": 690,
                              "rd_blocksize_str": 1040, "rd_single_dtype": 520, "rd_path_column": 1630, "rd_path_named": 500,
                              "rd_custom_eol": 640, "rd_header_like_rows": 970, "rd_quoted_newline_split_elsewhere": 240,
                              "rt_sep": 720, "rt_quoting": 540, "rt_na_rep": 530, "rt_lineterminator": 520, "rt_encoding": 720,
                              "rt_compressed": 700, "rt_compressed_read_with_blocksize": 220, "rt_compute_false": 710,
                              "rt_compute_false_parts_ge3": 460, "rt_scheduler_kw": 430, "rt_columns": 380, "rt_index_label": 460,
                              "rt_header_first_partition_only": 370, "rt_overwrite_existing": 490, "rt_second_write_appends": 330,
                              "rt_header_like_rows": 290, "rt_name_function": 1780, "rt_mode_a": 700, "rt_mode_w": 1820,
                              "rt_parts_ge3_glob": 1260, "rt_parts_ge3_dir": 660, "rt_parts_ge3_list": 600,
                              "rt_parts_ge3_single": 1290},
                 "max_skipped_fraction": 0.15},
}

# Labels of the first calibration round have repository fixes that are part of /repo by now (listed under "fixed" in
# known_findings.d/C47.json).  The parameter audit found the mechanisms below; each has an entry in known_findings.d/C47.json
# (five of the six have a fix offered under fixes_ready/C47_04..08).
PENDING = {
    "read_csv:header-line-beyond-first-block&blocked:raises": "comment/blank lines before the header fill the first block: raises",
    "read_csv:header-line-beyond-first-block&blocked:wrong-frame": "same mechanism, all-string columns: the header text comes back as a data row",
    "read_csv:comment&skiprows:raises": "comment= with skiprows= cannot locate the header (IndexError / sample too small)",
    "read_csv:bom-encoding&later-block-without-bom:UnicodeError": "utf-16: blocks after the first lack the BOM when no header line is prepended",
    "read_csv:include_path_column&projection-of-all-file-columns:columns": "selecting all file columns keeps the path column",
    "read_csv:blank-lines-before-header&blocked:raises": "blank lines before the header are taken for the header line",
    "read_csv:blank-lines-before-header&blocked:wrong-frame": "blank lines before the header are taken for the header line",
    "read_csv:comment&non-utf8-encoding:UnicodeDecodeError@dataframe/io/csv.py:read_pandas": "comment= decodes the sample as UTF-8",
}

_TMP = None


def shard_setup(tier, seed):
    from vf.gen import frames

    frames.setup()
    warnings.simplefilter("ignore")
    global _TMP
    _TMP = tempfile.mkdtemp(prefix="vf-c47-")


def shard_finish():
    global _TMP
    if _TMP and os.path.isdir(_TMP):
        shutil.rmtree(_TMP, ignore_errors=True)
    _TMP = None
    return {}


# ------------------------------------------------------------------------------------------------
# fixed files of the complete sub-space

FIXED = {
    "lf": b"i,s\n1,x\n22,yy\n-3,z\n",
    "lf-nonl": b"i,s\n1,x\n22,yy\n-3,z",
    "crlf": b"i,s\r\n1,x\r\n22,yy\r\n-3,z\r\n",
    "quoted": b'i,s\n1,"x,1"\n22,"y""q"\n-3,"z "\n',
    "header-only": b"i,s\n",
}
FIXED_KW = {"dtype": {"i": "int64", "s": "str"}}

STR_POOL = ("x", "yy", "a,b", 'q"x', "  f ", "", "NA", "x y", "naïve", "日本", "z", "w", "1", "1.5", "-", "'s'", "a;b", "#c")
NAME_POOL = ("i", "f", "s", "t", "n", "b", "col 1", "c,d", 'q"n', "é", "x.1", "A")
KINDS = ("i", "i", "f", "f", "s", "s", "s", "t", "n", "n", "b")
DATE_FORMAT = "%Y-%m-%d %H:%M:%S"
DTYPE = {"i": "int64", "f": "float64", "s": "str", "n": "Int64", "b": "bool"}


def cases(tier, seed):
    rng = random.Random(seed * 7793 + 47)
    # ---- complete sub-space ------------------------------------------------------------------
    for name, data in FIXED.items():
        for b in [None, "default"] + list(range(1, len(data) + 3)):
            yield {"space": "exhaustive", "facet": "fixed", "file": name, "blocksize": b}
    nrd = 1000 if tier == "quick" else 30000
    nrt = 560 if tier == "quick" else 15000
    # interleave the two facets so that a truncated run still sees both
    plan = ["rd"] * nrd + ["rt"] * nrt
    rng.shuffle(plan)
    for facet in plan:
        yield _rd_case(rng) if facet == "rd" else _rt_case(rng)


def _schema(rng, allstr=False):
    k = rng.randint(1, 5)
    kinds = ["s"] * k if allstr else [rng.choice(KINDS) for _ in range(k)]
    tricky = rng.random() < 0.2
    names = []
    pool = list(NAME_POOL if tricky else NAME_POOL[:6] + ("A", "x.1"))
    rng.shuffle(pool)
    for j in range(k):
        names.append(pool[j])
    return [[n, kd] for n, kd in zip(names, kinds)], tricky


# read_csv parameters added by the parameter audit; every one defaults to "off"
RD_EXTRA = {"sep": None, "decimal": False, "enc": None, "comp": None, "skip": None, "comment": False, "precomment": 0,
            "blank": None, "na": None, "usecols": None, "project": None, "project_path": False, "head": "header",
            "assume_missing": False, "sample": None, "enforce": False, "bs_str": False, "single_dtype": False,
            "nlq_blocked": False}


def _rd_case(rng):
    hdrlike = rng.random() < 0.08
    schema, tricky_hdr = _schema(rng, allstr=hdrlike)
    nfiles = rng.choice((1, 1, 1, 2, 3, 4))
    rows = []
    for _ in range(nfiles):
        u = rng.random()
        rows.append(0 if u < 0.12 else rng.randint(1, 25))
    nlq = rng.random() < 0.09 and any(k == "s" for _, k in schema)
    infer = (not nlq) and (not hdrlike) and rng.random() < 0.06
    u = rng.random()
    if nlq or (infer and u < 0.5) or u < 0.12:
        bs = None
    elif u < 0.2 or infer:
        bs = "default"
    elif u < 0.45:
        bs = {"abs": rng.randint(1, 12)}
    elif u < 0.6:
        bs = {"hdr": rng.choice((-2, -1, 0, 1, 2))}
    elif u < 0.7:
        bs = {"size": rng.choice((-1, 0, 1, 5))}
    else:
        bs = {"abs": rng.randint(13, 400)}
    if infer:
        rows = [r or rng.randint(1, 9) for r in rows]
    u = rng.random()
    eol = "~" if (u < 0.06 and not nlq and not infer) else rng.choice(("\n", "\n", "\r\n"))
    u = rng.random()
    case = {"facet": "rd", "tseed": rng.randrange(2 ** 31), "schema": schema, "rows": rows,
            "quoting": rng.choice(("minimal", "minimal", "all", "nonnumeric")),
            "eol": eol, "trailing": [rng.random() < 0.75 for _ in range(nfiles)],
            "blocksize": bs, "include_path": False if u >= 0.13 else (True if u < 0.09 else "fname"), "lt_kw": False,
            "hdrlike": hdrlike, "nlq": nlq, "infer": infer, "tricky": rng.random() < 0.6,
            "as_list": rng.random() < 0.3}
    case["lt_kw"] = eol == "~" or (eol == "\n" and rng.random() < 0.12)
    case.update(RD_EXTRA)
    if infer:
        case["tricky"] = False    # numeric-looking strings would legitimately be inferred per file / per block
    else:
        _rd_extras(rng, case)
    return case


def _rd_extras(rng, case):
    """Non-default read_csv parameters (parameter audit).  Each is an independent small share so that most cases carry
    zero to two of them and the feature-necessity labels stay short."""
    u = rng.random
    schema = case["schema"]
    k = len(schema)
    if u() < 0.12:
        case["sep"] = rng.choice((";", "\t", "|"))
        case["decimal"] = case["sep"] == ";" and u() < 0.5
    if not case["nlq"] and u() < 0.10:
        case["enc"] = rng.choice(("latin-1", "utf-16", "utf-16-le"))
    if u() < 0.08:
        case["comp"] = {"kind": rng.choice(("gzip", "gzip", "bz2", "xz")), "explicit": u() < 0.4}
    if u() < 0.09:
        case["comment"] = True
        case["precomment"] = rng.choice((0, 0, 0, 1, 2))
    if u() < 0.09:
        case["blank"] = "top" if u() < 0.25 else "mid"
    if u() < 0.09:
        case["head"] = rng.choice(("names", "replace"))
        if case["head"] == "names":
            case["rows"] = [r or rng.randint(1, 5) for r in case["rows"]]     # a zero-byte file is rejected by pandas
            case["precomment"] = 0
            if case["blank"] == "top":
                case["blank"] = "mid"
    if u() < 0.08:
        form = rng.choice(("int", "int", "list", "after"))
        if form == "after" and (case["precomment"] or case["blank"] == "top" or case["head"] == "names"):
            form = "int"
        case["skip"] = {"n": 1 if form == "after" else rng.randint(1, 3), "form": form}
    if u() < 0.09:
        case["na"] = rng.choice(("vals", "nodefault", "dict"))
        if case["na"] == "dict" and not any(kd == "s" for _, kd in schema):
            case["na"] = "vals"
    if k >= 2 and u() < 0.09:
        case["usecols"] = rng.sample(range(k), rng.randint(1, k - 1))
    if u() < 0.09:
        avail = case["usecols"] if case["usecols"] is not None else list(range(k))
        case["project"] = rng.sample(list(avail), rng.randint(1, len(avail)))
        case["project_path"] = bool(case["include_path"]) and u() < 0.5
    if u() < 0.06 and any(kd == "i" for _, kd in schema):
        case["assume_missing"] = True
        case["rows"][0] = case["rows"][0] or rng.randint(1, 9)    # dtype inference needs a data row in the sample
    if case["skip"] is None and not case["nlq"] and not case["assume_missing"] and u() < 0.07:
        case["sample"] = rng.choice((False, "tight"))
    if u() < 0.06:
        case["enforce"] = True
    if isinstance(case["blocksize"], dict) and u() < 0.12:
        case["bs_str"] = True
    if all(kd == "s" for _, kd in schema) and u() < 0.3:
        case["single_dtype"] = True
    if case["nlq"] and not case["comp"] and case["skip"] is None and u() < 0.55:
        case["nlq_blocked"] = True
        case["blocksize"] = {"nlq": rng.randrange(2 ** 31)}


RT_EXTRA = {"sep": None, "decimal": False, "wquoting": None, "na_rep": None, "wlt": None, "enc": None, "comp": None,
            "compute": True, "sched_kw": False, "columns": None, "index_label": False, "hfpo": False, "prewrite": None,
            "hdrlike": False}


def _rt_case(rng):
    hdrlike = rng.random() < 0.06
    schema, _ = _schema(rng, allstr=hdrlike)
    n = rng.choice((0, 1, 2, 3, 5, 8, 13, 21, 30))
    from vf.gen.frames import rand_partition_desc

    part = rand_partition_desc(rng, n)
    if n >= 13 and rng.random() < 0.3:
        part = {"how": "npartitions", "n": rng.choice((11, 12, 13))}
    elif n >= 3 and rng.random() < 0.3:
        part = {"how": "npartitions", "n": rng.randint(3, min(n, 8))}      # >= 3 partitions for every writer layout
    layout = rng.choice(("glob", "glob", "dir", "list", "single", "single"))
    nl = rng.random() < 0.08 and any(k == "s" for _, k in schema)
    u = rng.random()
    rbs = None if (nl or u < 0.35) else ("default" if u < 0.65 else {"abs": rng.choice((1, 3, 7, 16, 40, 100))})
    case = {"facet": "rt", "fseed": rng.randrange(2 ** 31), "schema": schema, "nrows": n, "part": part, "layout": layout,
            "index": rng.random() < 0.4, "index_kind": rng.choice(("range", "sorted", "strings", "datetime")),
            "header": rng.random() < 0.8,
            "namefn": rng.choice((None, None, "pad3", "alpha", "x10")) if layout in ("glob", "dir") else None,
            "wmode": rng.choice(("wt", "wt", "w", "a") if layout in ("single", "list") else ("wt", "wt", "w")),
            "read_blocksize": rbs, "nl": nl, "tricky": rng.random() < 0.7}
    case.update(RT_EXTRA)
    case["hdrlike"] = hdrlike
    _rt_extras(rng, case)
    return case


def _rt_extras(rng, case):
    u = rng.random
    k = len(case["schema"])
    layout = case["layout"]
    if u() < 0.12:
        case["sep"] = rng.choice((";", "\t", "|"))
        case["decimal"] = case["sep"] == ";" and u() < 0.5
    if u() < 0.09:
        case["wquoting"] = rng.choice(("all", "nonnumeric"))
    if u() < 0.09:
        case["na_rep"] = "missing"
    if not case["nl"] and u() < 0.09:
        case["wlt"] = rng.choice(("\r\n", "~"))
    if u() < 0.12:
        # utf-16 / utf-32 write a BOM; with single_file=True every append re-opens the file through fsspec, whose local
        # opener reports position 0 in append mode, so the codec writes a BOM in the middle of the file: third-party
        # behaviour outside /repo -> a BOM encoding is only generated for one-file-per-partition layouts
        case["enc"] = rng.choice(("latin-1", "utf-16-le") if layout == "single" else ("latin-1", "utf-16", "utf-16-le"))
    if u() < 0.12:
        case["comp"] = {"kind": rng.choice(("gzip", "gzip", "bz2", "xz")), "explicit": layout == "dir" or u() < 0.4}
        if case["enc"] == "utf-16" and case["comp"]["kind"] != "gzip":
            # io.TextIOWrapper writes no byte order mark on a stream that is not seekable (BZ2File / LZMAFile in write mode):
            # lzma.open(p, "wt", encoding="utf-16") alone produces a file that pandas cannot read back; standard library
            # behaviour, not dask's
            case["enc"] = "utf-16-le"
    if u() < 0.12:
        case["compute"] = False
    elif u() < 0.08:
        case["sched_kw"] = True
    if k >= 2 and u() < 0.08:
        case["columns"] = rng.sample(range(k), rng.randint(1, k))
    if case["index"] and u() < 0.2:
        case["index_label"] = True
    if layout != "single" and case["header"] and case["enc"] != "utf-16" and u() < 0.12:
        case["hfpo"] = True
    u1 = u()
    if u1 < 0.08:
        case["prewrite"] = "overwrite"
        if case["wmode"] == "a":
            case["wmode"] = "w"
    elif u1 < 0.2 and layout in ("single", "list") and case["enc"] != "utf-16" and not case["hfpo"]:
        case["prewrite"] = "append"


# ------------------------------------------------------------------------------------------------
# value generation

def _values(rng, kind, n, tricky=True, nl=False, no_na=False, latin=False, nohash=False):
    out = []
    for _ in range(n):
        if kind == "i":
            out.append(rng.choice((0, 1, -1, 7, 42, -300, 10 ** 9, rng.randint(-50, 50))))
        elif kind == "f":
            if not no_na and rng.random() < 0.2:
                out.append(None)
            else:
                v = round(rng.gauss(0, 10), rng.choice((1, 3)))
                out.append(v + 0.5 if no_na and float(v).is_integer() else v)
        elif kind == "s":
            if nl and rng.random() < 0.35:
                out.append(rng.choice(("a\nb", "x,\ny", '"\n"', "line1\nline2\n")))
            elif tricky:
                v = rng.choice(STR_POOL)
                if latin and v == "日本":
                    v = "ÿþ"          # every character must exist in latin-1
                if nohash and v == "#c":
                    v = "c"           # an unquoted comment character would truncate the row in pandas as well
                out.append("v" if no_na and v in ("", "NA") else v)
            else:
                out.append(rng.choice(("x", "yy", "z", "w")))
        elif kind == "t":
            out.append("2020-%02d-%02d %02d:%02d:00" % (rng.randint(1, 12), rng.randint(1, 28), rng.randint(0, 23), rng.randint(0, 59)))
        elif kind == "n":
            out.append(None if (not no_na and rng.random() < 0.25) else rng.randint(-5, 500))
        elif kind == "b":
            out.append(rng.choice((True, False)))
    return out


def _eff_schema(case):
    """Column names as the reader sees them (names= replaces the header line of the file)."""
    if case["head"] == "replace":
        return [["r%d" % j, k] for j, (_, k) in enumerate(case["schema"])]
    return case["schema"]


def _rd_kw(case, infos=None):
    """(common, pandas-only, dask-only) keyword arguments of the two readers."""
    eff = _eff_schema(case)
    names = [n for n, _ in eff]
    use = sorted(case["usecols"]) if case["usecols"] is not None else list(range(len(eff)))
    kw, pkw, dkw = {}, {}, {}
    if case["single_dtype"]:
        kw["dtype"] = "str"
    elif not case["infer"]:
        d = {eff[j][0]: DTYPE[eff[j][1]] for j in use if eff[j][1] != "t"}
        if case["assume_missing"]:
            # dask: integer columns without an explicit dtype become float64; pandas is told so explicitly
            pkw["dtype"] = {n: ("float64" if v == "int64" else v) for n, v in d.items()}
            dkw["dtype"] = {n: v for n, v in d.items() if v != "int64"}
            dkw["assume_missing"] = True
        else:
            kw["dtype"] = d
    pdates = [eff[j][0] for j in use if eff[j][1] == "t"]
    if pdates:
        kw["parse_dates"] = pdates
    if case["usecols"] is not None:
        kw["usecols"] = [names[j] for j in case["usecols"]]
    if case["head"] == "names":
        kw["header"] = None
        kw["names"] = names
    elif case["head"] == "replace":
        kw["header"] = 0
        kw["names"] = names
    if case["sep"]:
        kw["sep"] = case["sep"]
    if case["decimal"]:
        kw["decimal"] = ","
    if case["enc"]:
        kw["encoding"] = case["enc"]
    if case["comp"] and case["comp"]["explicit"]:
        kw["compression"] = case["comp"]["kind"]
    if case["skip"]:
        n, form = case["skip"]["n"], case["skip"]["form"]
        kw["skiprows"] = n if form == "int" else (list(range(n)) if form == "list" else [1])
    if case["comment"]:
        kw["comment"] = "#"
    if case["na"] == "vals":
        kw["na_values"] = ["-", "yy", "w"]
    elif case["na"] == "nodefault":
        kw["na_values"] = ["", "z"]
        kw["keep_default_na"] = False
    elif case["na"] == "dict":
        first = next((n for n, k in eff if k == "s"), None)
        kw["na_values"] = {first: ["x", "yy", "-"]} if first is not None else ["-"]
    if case["lt_kw"]:
        kw["lineterminator"] = "~" if case["eol"] == "~" else "\n"
    if case["sample"] is False:
        dkw["sample"] = False
    elif case["sample"] == "tight" and infos:
        dkw["sample"] = infos[0]["first_row_end"] + (0 if infos[0]["nrows"] else 1)
    if case["enforce"]:
        dkw["enforce"] = True
    if case["include_path"]:
        dkw["include_path_column"] = case["include_path"]
    return kw, pkw, dkw


_COMPRESS = {"gzip": (".gz", lambda b: __import__("gzip").compress(b)),
             "bz2": (".bz2", lambda b: __import__("bz2").compress(b)),
             "xz": (".xz", lambda b: __import__("lzma").compress(b))}


def _rd_bytes(rng, case, nrows, trailing):
    """One harness-written file: (bytes before compression, info about where the header / first row end)."""
    schema = case["schema"]
    names = [n for n, _ in schema]
    sep = case["sep"] or ","
    eol = case["eol"]
    q = {"minimal": csv.QUOTE_MINIMAL, "all": csv.QUOTE_ALL, "nonnumeric": csv.QUOTE_NONNUMERIC}[case["quoting"]]
    comment = case["comment"]
    cols = [_values(rng, k, nrows, case["tricky"], case["nlq"], no_na=case["infer"], latin=case["enc"] == "latin-1",
                    nohash=comment) for _, k in schema]
    rows = [list(r) for r in zip(*cols)] if cols else []
    if case["hdrlike"] and rows:
        for _ in range(rng.randint(1, 2)):
            j = rng.randrange(len(rows))
            if len(names) == 1 and rng.random() < 0.5:
                rows[j] = [names[0] + rng.choice(("zz", " x", "1"))]   # only a PREFIX of the row equals the header text
            else:
                rows[j] = list(names)
    drng = random.Random(rng.randrange(2 ** 31))    # decorations have their own stream: the values do not depend on them

    def fmt(row):
        buf = io.StringIO(newline="")
        csv.writer(buf, quoting=q, lineterminator="\n", delimiter=sep).writerow(row)
        return buf.getvalue()[:-1]

    def cell(v, kind):
        if v is None:
            return ""
        if kind == "f" and case["decimal"] and isinstance(v, float):
            return repr(v).replace(".", ",")
        return v

    ents = []
    skip = case["skip"]
    if skip and skip["form"] in ("int", "list"):
        ents += ["junk %d%swith%smore fields%sthan the table" % (i, sep, sep, sep) for i in range(skip["n"])]
    if case["blank"] == "top":
        ents += [""] * drng.randint(1, 2)
    ents += ["# preamble %d" % i for i in range(case["precomment"])]
    hdr_at = len(ents)
    if case["head"] != "names":
        ents.append(fmt(names))
    after_at = None
    if skip and skip["form"] == "after":
        after_at = len(ents)
        ents.append("junk after the header")
    first_row_at = None
    for r, row in enumerate(rows):
        if comment and drng.random() < 0.2:
            ents += [drng.choice(("# note %d" % r, "#"))] * drng.randint(1, 3)
        if case["blank"] and drng.random() < 0.2:
            ents += [""] * drng.randint(1, 2)
        t = fmt([cell(v, k) for v, (_, k) in zip(row, schema)])
        if comment and not t.endswith('"') and drng.random() < 0.15:
            t += "#inline"          # (after a closing quote pandas keeps the text as part of the field)
        if first_row_at is None:
            first_row_at = len(ents)
        ents.append(t)
    if comment and drng.random() < 0.3:
        ents.append("# end")
    if case["blank"] and drng.random() < 0.3:
        ents.append("")
    text = (eol.join(ents) + eol) if ents else ""
    if not trailing and text.endswith(eol):
        text = text[: -len(eol)]
    enc = case["enc"] or "utf8"
    data = text.encode(enc)

    def off(k):
        # byte offset of the start of entity k (a BOM belongs to the first line)
        if k <= 0:
            return 0
        return min(len(data), len((eol.join(ents[:k]) + eol).encode(enc)))

    has_hdr = case["head"] != "names"
    info = {"nrows": nrows, "pre": off(hdr_at) if has_hdr else 0, "hdr_end": off(hdr_at + 1) if has_hdr else 0,
            "first_row_end": off(first_row_at + 1) if first_row_at is not None else len(data), "size": len(data)}
    info["need"] = max(info["first_row_end"], off(after_at + 1) if after_at is not None else 0, info["hdr_end"])
    return data, info


def _rd_files(case):
    rng = random.Random(case["tseed"])
    return [_rd_bytes(rng, case, n, case["trailing"][j]) for j, n in enumerate(case["rows"])]


def _delim(case):
    """The byte string dask splits blocks at (read_pandas: lineterminator.encode(encoding) without the BOM)."""
    enc = case["enc"] or "utf8"
    lt = "~" if case["eol"] == "~" else "\n"
    return lt.encode(enc)[len("".encode(enc)):]


def _block_offsets(size, bs):
    """Block start offsets for a file of ``size`` bytes (the arithmetic of dask.bytes.read_bytes; used only to choose
    inputs and to evaluate input-feature predicates, never as an oracle)."""
    if size == 0:
        return []
    bs1 = size / (size // bs) if (size % bs and size > bs) else bs
    place, offs = 0, [0]
    while size - place > (bs1 * 2) - 1:
        place += bs1
        offs.append(int(place))
    return offs


def _splits_clean(data, bs, delim):
    """True when no block boundary of ``data`` falls on a delimiter inside a quoted field."""
    inq, quoted = False, set()
    n = len(delim)
    for p in range(len(data)):
        if data[p] == 34:
            inq = not inq
        elif inq and data[p:p + n] == delim:
            quoted.add(p)
    for o in _block_offsets(len(data), bs)[1:]:
        if data.find(delim, o) in quoted:
            return False
    return True


def _header_beyond_first_block(case):
    """Input-feature predicate: in some file the header line starts at or after the end of the first block (comment /
    blank lines before the header that are longer than the blocksize)."""
    try:
        if case["head"] == "names" or case["comp"]:
            return False
        files = _rd_files(case)
        bs = _rd_blocksize(case, files)
        if not isinstance(bs, int):
            return False
        delim = _delim(case)
        for data, info in files:
            offs = _block_offsets(len(data), bs)
            if info["pre"] > 0 and len(offs) > 1:
                idx = data.find(delim, offs[1])
                end = idx + len(delim) if idx >= 0 else len(data)
                if info["pre"] >= end:
                    return True
    except Exception:  # noqa: BLE001
        pass
    return False


def _projects_all_file_columns(case):
    """Input-feature predicate: the column selection after read_csv names exactly the columns read from the file, in file order."""
    if case["project"] is None or case["project_path"]:
        return False
    use = sorted(case["usecols"]) if case["usecols"] is not None else list(range(len(case["schema"])))
    return list(case["project"]) == use


# ------------------------------------------------------------------------------------------------
# facet rd

def _resolve_bs(bs, header_len, size):
    if bs is None or bs == "default":
        return bs
    if "abs" in bs:
        return max(1, bs["abs"])
    if "hdr" in bs:
        return max(1, header_len + bs["hdr"])
    return max(1, size + bs["size"])


def _rd_blocksize(case, files):
    """The blocksize actually passed (None | 'default' | int)."""
    bs = case["blocksize"]
    data0, info0 = files[0]
    if isinstance(bs, dict) and "nlq" in bs:
        # quoted line terminators WITH a blocksize: dask documents that a split inside a quoted field fails, so choose a
        # blocksize for which every block boundary falls on a real row terminator (and at least one file is split)
        delim = _delim(case)
        biggest = max(len(d) for d, _ in files)
        cand = list(range(max(2, info0["hdr_end"] + 1), max(3, biggest)))
        random.Random(bs["nlq"]).shuffle(cand)
        for b in cand[:40]:
            if all(_splits_clean(d, b, delim) for d, _ in files) and any(len(_block_offsets(len(d), b)) > 1 for d, _ in files):
                return b
        return None
    header_len = info0["hdr_end"] or info0["first_row_end"]
    r = _resolve_bs(bs, header_len, len(data0))
    if isinstance(r, int) and case["skip"]:
        # skiprows: dask documents "unexpected behavior" for a blocksize smaller than the sample and then samples only one
        # block, so the first block has to hold the skipped lines, the header and one row
        r = max(r, max(i["need"] for _, i in files) + 1)
    return r


def _run_rd(case, tmp, stats=None):
    """Returns None (agree) | ("reject", msg) | ("bad", symptom, message, exc)."""
    import pandas as pd
    from vf.core.ctx import exc_label, through_shim
    from vf.gen import frames

    dd = frames.setup()
    files = _rd_files(case)
    comp = case["comp"]
    suffix = ".csv" + (_COMPRESS[comp["kind"]][0] if comp and not comp["explicit"] else "")
    paths = []
    for j, (data, _) in enumerate(files):
        p = os.path.join(tmp, "f-%02d%s" % (j, suffix))
        with open(p, "wb") as f:
            f.write(_COMPRESS[comp["kind"]][1](data) if comp else data)
        paths.append(p)
    infos = [i for _, i in files]
    kw, pkw, dkw = _rd_kw(case, infos)
    bs = _rd_blocksize(case, files)
    pathcol = "path" if case["include_path"] is True else case["include_path"]
    eff = [n for n, _ in _eff_schema(case)]
    project = None
    if case["project"] is not None:
        project = [eff[j] for j in case["project"]] + ([pathcol] if case["project_path"] and pathcol else [])
    try:
        exp = []
        for p in paths:
            e = pd.read_csv(p, **kw, **pkw)
            if pathcol:
                e = e.assign(**{pathcol: pd.Categorical([p] * len(e), categories=paths)})
            exp.append(e)
        expected = pd.concat(exp, ignore_index=True) if len(exp) > 1 else exp[0].reset_index(drop=True)
        if project is not None:
            expected = expected[project]
    except Exception as e:  # noqa: BLE001
        return ("reject", "pandas.read_csv: %s: %s" % (type(e).__name__, e))
    if len(paths) == 1:
        target = paths[0]
    else:
        target = paths if case["as_list"] else os.path.join(tmp, "f-*" + suffix)
    dkw = dict(kw, **dkw)
    if bs != "default":
        dkw["blocksize"] = ("%dB" % bs) if (case["bs_str"] and isinstance(bs, int)) else bs
    try:
        ddf = dd.read_csv(target, **dkw)
        if project is not None:
            ddf = ddf[project]
        nparts = ddf.npartitions
        got = ddf.compute(scheduler="sync").reset_index(drop=True)
    except NotImplementedError as e:
        return ("unsupported", str(e))
    except Exception as e:  # noqa: BLE001
        if through_shim(e):
            return ("env", "%s: %s" % (type(e).__name__, e))
        return ("bad", exc_label(e), "%s: %s" % (type(e).__name__, str(e)[:300]), e)
    if stats is not None:
        stats.update(nparts=nparts, nfiles=len(paths), rows=len(expected), header_len=infos[0]["hdr_end"] or infos[0]["first_row_end"],
                     bs=bs, size=sum(i["size"] for i in infos), quoted=any(b'"' in d for d, _ in files))
    pdates = [c for c in kw.get("parse_dates", []) if project is None or c in project]
    relax_dates = len(paths) > 1 or case["sample"] is not None
    if relax_dates:
        # several files: the reference is a pandas concat, which degrades a parse_dates column to object as soon as one
        # file has no data rows (an artefact of the reference, not of read_csv) -> compare such columns as datetimes.
        # sample=False / a short sample: the sample may hold no data row, pandas types the parse_dates column of such a
        # sample as object and that becomes the declared dtype (dtype inference from the sample, see Calibration)
        for c in pdates:
            for side in (got, expected):
                if c in side.columns and str(side[c].dtype) in ("object", "str"):
                    try:
                        side[c] = pd.to_datetime(side[c])
                    except Exception:  # noqa: BLE001
                        pass
    m = frames.compare(got, expected, ordered=True, check_index=False, check_dtype=True)
    if m is not None and m[0] == "dtype" and relax_dates and any(("%r" % c) in m[1] for c in pdates):
        m = frames.compare(got, expected, ordered=True, check_index=False, check_dtype=False)
    if m is not None:
        return ("bad", m[0], "%s | got %s | expected %s" % (m[1], _show(got), _show(expected)), None)
    return None


def _row_starts_with_header(case):
    """Input-feature predicate: some data line of some file starts with the (right-stripped) header line."""
    if case["head"] == "names":
        return False
    eol = case["eol"].encode(case["enc"] or "utf8")[len("".encode(case["enc"] or "utf8")):]
    for data, info in _rd_files(case):
        hdr = data[info["pre"]:info["hdr_end"]].rstrip()
        lines = data[info["hdr_end"]:].split(eol)
        if hdr and any(ln.startswith(hdr) for ln in lines if ln):
            return True
    return False


def _rt_row_starts_with_header(case):
    """Same predicate for the round-trip facet, on the text pandas writes for the frame (header line vs data lines)."""
    try:
        if not case["header"]:
            return False
        pdf, _ = _rt_frame(case)
        lines = pdf.to_csv(index=case["index"], header=True, date_format=DATE_FORMAT).encode("utf8").split(b"\n")
        hdr = lines[0].rstrip()
        return bool(hdr) and any(ln.startswith(hdr) for ln in lines[1:] if ln)
    except Exception:  # noqa: BLE001
        return False


_PLAIN_NAMES = ("i", "f", "s", "t", "n", "b", "A", "x.1")
# feature -> (is it on?, the case with it switched off)
_RD_FEATS = {
    "sep": (lambda c: c["sep"] is not None, lambda c: dict(c, sep=None, decimal=False)),
    "encoding": (lambda c: c["enc"] is not None, lambda c: dict(c, enc=None)),
    "compression": (lambda c: c["comp"] is not None, lambda c: dict(c, comp=None)),
    "skiprows": (lambda c: c["skip"] is not None, lambda c: dict(c, skip=None)),
    "comment": (lambda c: c["comment"], lambda c: dict(c, comment=False, precomment=0)),
    "comment-before-header": (lambda c: c["precomment"] > 0, lambda c: dict(c, precomment=0)),
    "blank-lines": (lambda c: c["blank"] is not None, lambda c: dict(c, blank=None)),
    "blank-lines-before-header": (lambda c: c["blank"] == "top", lambda c: dict(c, blank="mid")),
    "na_values": (lambda c: c["na"] is not None, lambda c: dict(c, na=None)),
    "usecols": (lambda c: c["usecols"] is not None, lambda c: dict(c, usecols=None)),
    "project": (lambda c: c["project"] is not None, lambda c: dict(c, project=None, project_path=False)),
    "names": (lambda c: c["head"] != "header", lambda c: dict(c, head="header")),
    "assume_missing": (lambda c: c["assume_missing"], lambda c: dict(c, assume_missing=False)),
    "sample": (lambda c: c["sample"] is not None, lambda c: dict(c, sample=None)),
    "enforce": (lambda c: c["enforce"], lambda c: dict(c, enforce=False)),
    "blocksize-str": (lambda c: c["bs_str"], lambda c: dict(c, bs_str=False)),
    "single-dtype": (lambda c: c["single_dtype"], lambda c: dict(c, single_dtype=False)),
    "path-name": (lambda c: isinstance(c["include_path"], str), lambda c: dict(c, include_path=True)),
    "custom-eol": (lambda c: c["eol"] == "~", lambda c: dict(c, eol="\n", lt_kw=False)),
}
RD_FEATURES = ("hdrlike", "nlq", "include_path", "lt_kw", "infer", "crlf", "no-trailing-newline", "multi-file", "header-only-file",
               "quoting", "tricky-values", "quoted-header", "blocked", "datetime-column") + tuple(_RD_FEATS)


def _rd_on(case):
    f = set()
    for k in ("hdrlike", "nlq", "include_path", "lt_kw", "infer"):
        if case[k]:
            f.add(k)
    if case["eol"] == "\r\n":
        f.add("crlf")
    if not all(case["trailing"]):
        f.add("no-trailing-newline")
    if len(case["rows"]) > 1:
        f.add("multi-file")
    if any(r == 0 for r in case["rows"]):
        f.add("header-only-file")
    if case["quoting"] != "minimal":
        f.add("quoting")
    if case["tricky"]:
        f.add("tricky-values")
    if any(n not in _PLAIN_NAMES for n, _ in case["schema"]):
        f.add("quoted-header")
    if case["blocksize"] is not None and case["blocksize"] != "default":
        f.add("blocked")
    if any(k == "t" for _, k in case["schema"]):
        f.add("datetime-column")
    for name, (on, _) in _RD_FEATS.items():
        if on(case):
            f.add(name)
    return f


def _rd_off(case, feat):
    c = dict(case)
    if feat in _RD_FEATS:
        return _RD_FEATS[feat][1](case)
    if feat == "nlq":
        c["nlq"] = False
        c["nlq_blocked"] = False
    elif feat in ("hdrlike", "include_path", "lt_kw", "infer"):
        if feat == "lt_kw" and case["eol"] == "~":
            return None
        c[feat] = False
    elif feat == "crlf":
        c["eol"] = "\n"
    elif feat == "no-trailing-newline":
        c["trailing"] = [True] * len(case["trailing"])
    elif feat == "multi-file":
        # keep the file with most rows
        j = max(range(len(case["rows"])), key=lambda x: case["rows"][x])
        c["rows"] = [case["rows"][j]]
        c["trailing"] = [case["trailing"][j]]
    elif feat == "header-only-file":
        c["rows"] = [r or 3 for r in case["rows"]]
    elif feat == "quoting":
        c["quoting"] = "minimal"
    elif feat == "tricky-values":
        c["tricky"] = False
    elif feat == "quoted-header":
        c["schema"] = [["c%d" % j, k] for j, (_, k) in enumerate(case["schema"])]
    elif feat == "blocked":
        c["blocksize"] = None
        c["nlq_blocked"] = False
    elif feat == "datetime-column":
        c["schema"] = [[n, "i" if k == "t" else k] for n, k in case["schema"]]
    return c


# ------------------------------------------------------------------------------------------------
# facet rt

def _rt_frame(case):
    import numpy as np
    import pandas as pd

    rng = random.Random(case["fseed"])
    n = case["nrows"]
    data = {}
    for name, k in case["schema"]:
        v = _values(rng, k, n, case["tricky"], case["nl"], latin=case["enc"] == "latin-1")
        if k == "i":
            data[name] = np.array(v, dtype="int64")
        elif k == "f":
            data[name] = np.array([np.nan if x is None else x for x in v], dtype="float64")
        elif k == "s":
            data[name] = pd.array(v, dtype="str")
        elif k == "t":
            data[name] = pd.to_datetime(pd.Series(v, dtype="object")) if n else pd.Series([], dtype="datetime64[ns]")
        elif k == "n":
            data[name] = pd.array(v, dtype="Int64")
        else:
            data[name] = np.array(v, dtype="bool")
    pdf = pd.DataFrame(data, columns=[nm for nm, _ in case["schema"]])
    if case["hdrlike"] and n:
        # data rows whose text equals the header line (all columns are strings here)
        for _ in range(rng.randint(1, 2)):
            pdf.iloc[rng.randrange(n)] = [nm for nm, _ in case["schema"]]
    ik = case["index_kind"] if case["index"] else "range"
    idx_kw = {}
    if ik == "sorted":
        pdf.index = pd.Index(np.arange(n, dtype="int64") * 3 + 1, name="idx")
        idx_kw = {"dtype": {"idx": "int64"}}
    elif ik == "strings":
        pdf.index = pd.Index(["s%03d" % j for j in range(n)], dtype="str", name="sid")
        idx_kw = {"dtype": {"sid": "str"}}
    elif ik == "datetime":
        pdf.index = pd.DatetimeIndex(pd.to_datetime("2021-03-01") + pd.to_timedelta(np.arange(n) * 7, unit="min"), name="ts")
        idx_kw = {"parse_dates": ["ts"]}
    else:
        idx_kw = {"dtype": {"Unnamed: 0": "int64"}}
    return pdf, idx_kw


_NAMEFN = {"pad3": lambda i: "%03d" % i, "alpha": lambda i: chr(97 + i), "x10": lambda i: "%04d" % (i * 10)}
_JUNK = b'STALE;CONTENT,"of an earlier file\n' * 40


def _rt_paths(case, npart, out, ext):
    """The paths to_csv is expected to write (to put stale content there beforehand)."""
    nf = _NAMEFN[case["namefn"]] if case["namefn"] else (lambda j: str(j).zfill(len(str(npart - 1))))   # default names are zero padded
    layout = case["layout"]
    if layout == "glob":
        return [os.path.join(out, "part-%s.csv%s" % (nf(j), ext)) for j in range(npart)]
    if layout == "dir":
        return [os.path.join(out, "%s.part" % nf(j)) for j in range(npart)]
    if layout == "list":
        return [os.path.join(out, "p%02d-%s.csv%s" % (j, "abc"[j % 3], ext)) for j in range(npart)]
    return [os.path.join(out, "single.csv" + ext)]


def _run_rt(case, tmp, stats=None):
    import dask
    import pandas as pd
    from vf.core.ctx import exc_label, through_shim
    from vf.gen import frames

    dd = frames.setup()
    try:
        pdf, idx_kw = _rt_frame(case)
    except Exception as e:  # noqa: BLE001
        return ("reject", "frame generator: %s" % e)
    schema = case["schema"]
    if case["columns"] is not None:
        schema = [schema[j] for j in case["columns"]]
    kw = {"dtype": {n: DTYPE[k] for n, k in schema if k != "t"}}
    pdates = [n for n, k in schema if k == "t"]
    if pdates:
        kw["parse_dates"] = pdates
    index = case["index"]
    names = [n for n, _ in schema]
    if index:
        iname = pdf.index.name or "Unnamed: 0"
        label = "IDX" if case["index_label"] else iname
        if "dtype" in idx_kw:
            kw["dtype"][label] = idx_kw["dtype"][iname]
        else:
            kw["parse_dates"] = [label] + kw.get("parse_dates", [])
        if label in names:
            return ("reject", "index name collides with a column")
        names = [label] + names
    if not case["header"]:
        kw["header"] = None
        kw["names"] = names
    # pandas.DataFrame.to_csv keywords: passed to dask's to_csv and to the pandas reference alike
    pk = {"index": index, "header": case["header"], "date_format": DATE_FORMAT}
    if case["sep"]:
        pk["sep"] = kw["sep"] = case["sep"]
    if case["decimal"]:
        pk["decimal"] = kw["decimal"] = ","
    if case["wquoting"]:
        pk["quoting"] = csv.QUOTE_ALL if case["wquoting"] == "all" else csv.QUOTE_NONNUMERIC
    if case["na_rep"]:
        pk["na_rep"] = case["na_rep"]
        kw["na_values"] = [case["na_rep"]]
    if case["wlt"]:
        pk["lineterminator"] = case["wlt"]
        if case["wlt"] == "~":
            kw["lineterminator"] = "~"
    if case["columns"] is not None:
        pk["columns"] = [n for n, _ in schema]
    if index and case["index_label"]:
        pk["index_label"] = "IDX"
    # ---- dask partitioning ------------------------------------------------------------------------
    try:
        ddf = frames.partition(pdf, case["part"])
    except Exception as e:  # noqa: BLE001
        return ("reject", "partitioning: %s" % e)
    npart = ddf.npartitions
    layout = case["layout"]
    prewrite = case["prewrite"]
    # ---- expected: the same trip in pandas --------------------------------------------------------
    try:
        src = pdf
        if prewrite == "append":
            if layout == "single":
                src = pd.concat([pdf, pdf])
            else:
                parts = dask.compute(*ddf.to_delayed(), scheduler="sync")
                src = pd.concat([p for part in parts for p in (part, part)])
        text = src.to_csv(**pk)
        expected = pd.read_csv(io.StringIO(text), **kw)
    except Exception as e:  # noqa: BLE001
        return ("reject", "pandas round trip: %s: %s" % (type(e).__name__, e))
    # ---- dask ---------------------------------------------------------------------------------------
    comp = case["comp"]
    ext = _COMPRESS[comp["kind"]][0] if comp and not comp["explicit"] else ""
    out = os.path.join(tmp, "out")
    wkw = dict(pk, mode=case["wmode"])
    if case["sched_kw"] and case["compute"]:
        wkw["scheduler"] = "sync"
    else:
        wkw["compute_kwargs"] = {"scheduler": "sync"}
    if case["enc"]:
        wkw["encoding"] = case["enc"]
    if comp:
        wkw["compression"] = comp["kind"]
    if not case["compute"]:
        wkw["compute"] = False
    if case["hfpo"]:
        wkw["header_first_partition_only"] = True
    if case["namefn"]:
        wkw["name_function"] = _NAMEFN[case["namefn"]]
    if layout == "glob":
        target = os.path.join(out, "part-*.csv" + ext)
        readt = target
    elif layout == "dir":
        target = out
        readt = os.path.join(out, "*.part")
    elif layout == "list":
        os.makedirs(out, exist_ok=True)
        target = _rt_paths(case, npart, out, ext)
        readt = list(target)
    else:
        os.makedirs(out, exist_ok=True)
        target = os.path.join(out, "single.csv" + ext)
        readt = target
        wkw["single_file"] = True
    if prewrite == "overwrite":
        os.makedirs(out, exist_ok=True)
        for p in _rt_paths(case, npart, out, ext):
            with open(p, "wb") as f:
                f.write(_JUNK)
    dkw = dict(kw)
    rbs = case["read_blocksize"]
    if rbs != "default":
        dkw["blocksize"] = rbs if rbs is None else rbs["abs"]
    if case["enc"]:
        dkw["encoding"] = case["enc"]
    if comp and comp["explicit"]:
        dkw["compression"] = comp["kind"]

    def write(w):
        r = ddf.to_csv(target, **w)
        if not case["compute"]:
            r = list(dask.compute(*r, scheduler="sync"))
        return r

    try:
        written = write(wkw)
        if prewrite == "append":
            # a second write of the same collection in append mode (no second header): every file holds its partition twice
            written = write(dict(wkw, mode="a", header=False))
        nfiles = len(written)
        if case["hfpo"]:
            # only the first file carries the header: the files concatenated in partition order are one CSV file
            readt = os.path.join(tmp, "cat.csv" + ext)
            with open(readt, "wb") as f:
                for p in written:
                    with open(p, "rb") as g:
                        f.write(g.read())
        back = dd.read_csv(readt, **dkw)
        nblocks = back.npartitions
        got = back.compute(scheduler="sync").reset_index(drop=True)
    except NotImplementedError as e:
        return ("unsupported", str(e))
    except Exception as e:  # noqa: BLE001
        if through_shim(e):
            return ("env", "%s: %s" % (type(e).__name__, e))
        return ("bad", exc_label(e), "%s: %s" % (type(e).__name__, str(e)[:300]), e)
    want_files = 1 if layout == "single" else npart
    if nfiles != want_files or not all(isinstance(p, str) and os.path.exists(p) for p in written):
        return ("bad", "files", "to_csv returned %d names for %d partitions (layout %s): %r" % (nfiles, npart, layout, written[:4]), None)
    # ---- normalisation: parse_dates columns compared as datetimes whatever container dtype came back ---
    dtobj = 0
    for c in kw.get("parse_dates", []):
        for side in (got, expected):
            if c in side.columns and str(side[c].dtype) in ("object", "str"):
                try:
                    side[c] = pd.to_datetime(side[c])
                    dtobj += side is got
                except Exception:  # noqa: BLE001
                    pass
    if stats is not None:
        stats.update(nparts=npart, nfiles=nfiles, nblocks=nblocks, rows=len(expected), dtobj=dtobj,
                     empty_parts=_empty_parts(case, len(pdf)))
    m = frames.compare(got, expected, ordered=True, check_index=False, check_dtype=True)
    if m is not None and m[0] == "dtype" and any(("%r" % c) in m[1] for c in kw.get("parse_dates", [])):
        m = frames.compare(got, expected, ordered=True, check_index=False, check_dtype=False)
    if m is not None:
        return ("bad", m[0], "%s | got %s | expected %s" % (m[1], _show(got), _show(expected)), None)
    return None


def _empty_parts(case, n):
    p = case["part"]
    if p.get("how") in ("slices", "delayed"):
        cuts = sorted(min(max(0, c), n) for c in p.get("cuts", []))
        b = [0] + cuts + [n]
        return sum(1 for x, y in zip(b[:-1], b[1:]) if x == y)
    return 0


_RT_FEATS = {
    "sep": (lambda c: c["sep"] is not None, lambda c: dict(c, sep=None, decimal=False)),
    "write-quoting": (lambda c: c["wquoting"] is not None, lambda c: dict(c, wquoting=None)),
    "na_rep": (lambda c: c["na_rep"] is not None, lambda c: dict(c, na_rep=None)),
    "lineterminator": (lambda c: c["wlt"] is not None, lambda c: dict(c, wlt=None)),
    "encoding": (lambda c: c["enc"] is not None, lambda c: dict(c, enc=None)),
    "compression": (lambda c: c["comp"] is not None, lambda c: dict(c, comp=None)),
    "compute-false": (lambda c: not c["compute"], lambda c: dict(c, compute=True)),
    "scheduler-kw": (lambda c: c["sched_kw"] and c["compute"], lambda c: dict(c, sched_kw=False)),
    "columns": (lambda c: c["columns"] is not None, lambda c: dict(c, columns=None)),
    "index_label": (lambda c: c["index"] and c["index_label"], lambda c: dict(c, index_label=False)),
    "header-first-partition-only": (lambda c: c["hfpo"], lambda c: dict(c, hfpo=False)),
    "existing-files": (lambda c: c["prewrite"] == "overwrite", lambda c: dict(c, prewrite=None)),
    "second-write-appends": (lambda c: c["prewrite"] == "append", lambda c: dict(c, prewrite=None)),
    "hdrlike": (lambda c: c["hdrlike"], lambda c: dict(c, hdrlike=False)),
}


def _rt_on(case):
    f = set()
    if _empty_parts(case, case["nrows"]):
        f.add("empty-partition")
    elif case["part"].get("how") in ("slices", "delayed") or case["part"].get("n", 1) > 1:
        f.add("several-partitions")
    if case["layout"] != "glob":
        f.add("layout-" + case["layout"])
    if not case["header"]:
        f.add("header-off")
    if case["index"]:
        f.add("index-written")
    if case["namefn"]:
        f.add("name_function")
    if case["wmode"] != "wt":
        f.add("mode-" + case["wmode"])
    if case["read_blocksize"] is not None and case["read_blocksize"] != "default":
        f.add("read-blocked")
    if case["nl"]:
        f.add("newline-in-field")
    if case["tricky"]:
        f.add("tricky-values")
    if any(n not in _PLAIN_NAMES for n, _ in case["schema"]):
        f.add("quoted-header")
    if any(k == "t" for _, k in case["schema"]) or (case["index"] and case["index_kind"] == "datetime"):
        f.add("datetime-column")
    if case["nrows"] == 0:
        f.add("no-rows")
    for name, (on, _) in _RT_FEATS.items():
        if on(case):
            f.add(name)
    return f


def _rt_off(case, feat):
    c = dict(case)
    if feat in _RT_FEATS:
        return _RT_FEATS[feat][1](case)
    if feat in ("empty-partition", "several-partitions"):
        c["part"] = {"how": "npartitions", "n": 2} if feat == "empty-partition" else {"how": "npartitions", "n": 1}
    elif feat.startswith("layout-"):
        if case["prewrite"] == "append" or case["wmode"] == "a":
            return None           # append mode exists only for single_file / explicit path lists
        c["layout"] = "glob"
        if case["comp"]:
            c["comp"] = dict(case["comp"])
    elif feat == "header-off":
        c["header"] = True
    elif feat == "index-written":
        c["index"] = False
    elif feat == "name_function":
        c["namefn"] = None
    elif feat.startswith("mode-"):
        c["wmode"] = "wt"
    elif feat == "read-blocked":
        c["read_blocksize"] = None
    elif feat == "newline-in-field":
        c["nl"] = False
    elif feat == "tricky-values":
        c["tricky"] = False
    elif feat == "quoted-header":
        c["schema"] = [["c%d" % j, k] for j, (_, k) in enumerate(case["schema"])]
    elif feat == "datetime-column":
        c["schema"] = [[n, "i" if k == "t" else k] for n, k in case["schema"]]
        if case["index_kind"] == "datetime":
            c["index_kind"] = "sorted"
    elif feat == "no-rows":
        c["nrows"] = 5
    return c


# ------------------------------------------------------------------------------------------------

def _show(v):
    try:
        return v.head(6).to_string().replace("\n", " / ")[:300]
    except Exception:  # noqa: BLE001
        return repr(v)[:200]


def _fresh(tmp):
    d = tempfile.mkdtemp(prefix="case-", dir=tmp)
    return d


def _necessary(case, run, on, off, symptom, tmp):
    """Features whose removal makes the disagreement disappear (or change symptom)."""
    cur = case
    needed = []
    for feat in sorted(on(case)):
        if feat not in on(cur):
            continue
        cand = off(cur, feat)
        if cand is None:            # cannot be switched off in this combination
            needed.append(feat)
            continue
        d = _fresh(tmp)
        try:
            r = run(cand, d)
        except Exception:  # noqa: BLE001
            r = None
        finally:
            shutil.rmtree(d, ignore_errors=True)
        if r is not None and r[0] == "bad" and r[1] == symptom:
            cur = cand          # still fails without it: not necessary
        else:
            needed.append(feat)
    return needed, cur


def run_case(case, ctx):
    from vf.gen import frames

    frames.setup()
    global _TMP
    if _TMP is None or not os.path.isdir(_TMP):
        _TMP = tempfile.mkdtemp(prefix="vf-c47-")
    with warnings.catch_warnings():
        warnings.simplefilter("ignore")
        tmp = _fresh(_TMP)
        try:
            if case["facet"] == "fixed":
                _fixed(case, ctx, tmp)
            elif case["facet"] == "rd":
                _rd(case, ctx, tmp)
            else:
                _rt(case, ctx, tmp)
        finally:
            shutil.rmtree(tmp, ignore_errors=True)


# features that only move bytes around (they change where block boundaries fall): kept in a label only when
# nothing else is necessary, so that one mechanism does not get one label per byte layout
PERTURBING = ("tricky-values", "quoting", "quoted-header", "crlf", "no-trailing-newline")


def _symclass(symptom):
    return "raises" if "@" in symptom else "wrong-frame"


def _label(facet, needed, symptom, message, small=None):
    if "failed to properly parse as dates" in message and "coerce_dtypes" in symptom:
        # dates are always generated valid, so the only way into this branch of coerce_dtypes is a block (or file,
        # or written partition) without data rows whose parse_dates column pandas types as object
        return "read_csv:parse_dates&block-without-data-rows:" + symptom
    if "All `iterables` must have a non-zero length" in message:
        # from_map got no blocks at all: every file is zero bytes long (empty frame written with header=False) and a blocksize is set
        return "read_csv:all-files-zero-bytes&blocksize-set:" + symptom
    if "does not start with BOM" in message and ("blocked" in needed or "read-blocked" in needed):
        # a block that is not the first of its file is decoded without the byte order mark: happens when no header line is
        # prepended (names= / header=None) or the sampled header line is not the first line of the file
        return "read_csv:bom-encoding&later-block-without-bom:UnicodeError"
    if facet == "rd" and symptom == "UnicodeDecodeError@dataframe/io/csv.py:read_pandas" and "comment" in needed and "encoding" in needed:
        # the header search for comment= decodes the sample lines as UTF-8, whatever encoding= says
        return "read_csv:comment&non-utf8-encoding:" + symptom
    if facet == "rd" and "comment" in needed and "skiprows" in needed and "@" in symptom:
        # the comment branch of the header search stops after `need` lines, whatever skiprows says
        return "read_csv:comment&skiprows:raises"
    if facet == "rd" and small is not None and "blocked" in needed and _header_beyond_first_block(small):
        # comment / blank lines in front of the header that fill the whole first block: the header line then sits in a
        # later block, which gets the sampled header prepended a second time (or the first block has nothing to parse)
        return "read_csv:header-line-beyond-first-block&blocked:" + _symclass(symptom)
    if facet == "rd" and "blocked" in needed and "blank-lines-before-header" in needed:
        # the header is taken to be the first physical line of the sample, i.e. the blank line
        return "read_csv:blank-lines-before-header&blocked:" + _symclass(symptom)
    if facet == "rd" and symptom == "columns" and small is not None and "include_path" in needed and "project" in needed \
            and _projects_all_file_columns(small):
        # selecting exactly the columns of the file (in file order) is not recognised as a projection, the path column stays
        return "read_csv:include_path_column&projection-of-all-file-columns:columns"
    hdr_symptom = symptom in ("length", "columns", "values") or symptom == "KeyError@dataframe/io/csv.py:_read_csv"
    if hdr_symptom and small is not None and (
            (facet == "rd" and "blocked" in needed and _row_starts_with_header(small))
            or (facet == "rt" and "read-blocked" in needed and _rt_row_starts_with_header(small))):
        # rows are lost / taken as a header only while some data row starts with the header text and a block starts there:
        # the header-detection heuristic of pandas_read_text (b.startswith(header.rstrip()))
        return "read_csv:data-row-starts-with-header-text&blocked:" + symptom
    core = [f for f in needed if f not in PERTURBING]
    feats = core if core else list(needed)
    return "%s:%s:%s" % (facet, "&".join(feats) or "plain", symptom)


def _outcome(r, ctx):
    if r is None:
        return True
    if r[0] == "reject":
        ctx.reject(r[1])
    elif r[0] == "unsupported":
        ctx.unsupported(r[1])
    elif r[0] == "env":
        ctx.envlimited(r[1])
    return False


def _fixed(case, ctx, tmp):
    import pandas as pd
    from vf.gen import frames

    dd = frames.setup()
    data = FIXED[case["file"]]
    p = os.path.join(tmp, "fixed.csv")
    with open(p, "wb") as f:
        f.write(data)
    expected = pd.read_csv(p, **FIXED_KW)
    kw = dict(FIXED_KW)
    if case["blocksize"] != "default":
        kw["blocksize"] = case["blocksize"]
    ctx.count("exhaustive_sweep")
    ctx.count("rd_reads")
    ctx.op("fixed:" + case["file"])
    bsz = case["blocksize"]
    feat = "blocksize-none-or-default" if not isinstance(bsz, int) else (
        "blocksize<=header" if bsz <= len(data.split(b"\n")[0]) + 1 else ("blocksize<filesize" if bsz < len(data) else "blocksize>=filesize"))
    try:
        ddf = dd.read_csv(p, **kw)
        got = ddf.compute(scheduler="sync").reset_index(drop=True)
    except Exception as e:  # noqa: BLE001
        ctx.exception(e, prefix="rd:fixed-%s&%s" % (case["file"], feat))
        return
    ctx.nontrivial = len(expected) > 0 and ddf.npartitions >= 2
    if ddf.npartitions >= 2:
        ctx.count("rd_multi_block_reads")
    if isinstance(bsz, int) and bsz <= len(data.split(b"\n")[0]) + 1:
        ctx.count("rd_blocksize_le_header")
    ctx.count("rd_rows_compared", len(expected))
    m = frames.compare(got, expected, ordered=True, check_index=False)
    if m is not None:
        ctx.violation("rd:fixed-%s&%s:%s" % (case["file"], feat, m[0]),
                      "%s | blocksize=%r file=%r | got %s | expected %s" % (m[1], bsz, data, _show(got), _show(expected)))
    ctx.sample = {"file": case["file"], "blocksize": bsz, "blocks": ddf.npartitions, "rows": len(expected)}


# counter per audited read_csv parameter (counted when the read was compared and the frame has rows)
_RD_COUNT = {"sep": "rd_sep", "encoding": "rd_encoding", "compression": "rd_compressed", "skiprows": "rd_skiprows",
             "comment": "rd_comment", "comment-before-header": "rd_comment_before_header", "blank-lines": "rd_blank_lines",
             "na_values": "rd_na_values", "usecols": "rd_usecols", "project": "rd_projected", "names": "rd_names",
             "assume_missing": "rd_assume_missing", "sample": "rd_sample", "enforce": "rd_enforce",
             "blocksize-str": "rd_blocksize_str", "single-dtype": "rd_single_dtype", "path-name": "rd_path_named",
             "custom-eol": "rd_custom_eol", "hdrlike": "rd_header_like_rows", "include_path": "rd_path_column"}


def _rd(case, ctx, tmp):
    stats = {}
    r = _run_rd(case, tmp, stats)
    ctx.op("rd:quoting=" + case["quoting"])
    ctx.op("rd:eol=" + ("crlf" if case["eol"] == "\r\n" else "lf" if case["eol"] == "\n" else "custom"))
    ctx.op("rd:blocksize=" + ("none" if case["blocksize"] is None else case["blocksize"] if isinstance(case["blocksize"], str)
                              else next(iter(case["blocksize"]))))
    on = _rd_on(case)
    for f in on:
        ctx.op("rd:" + f)
    if stats:
        ctx.count("rd_reads")
        ctx.count("rd_rows_compared", stats["rows"])
        ctx.count("rd_blocks", stats["nparts"])
        if stats["nparts"] > stats["nfiles"]:
            ctx.count("rd_multi_block_reads")
        if isinstance(stats["bs"], int) and stats["bs"] <= stats["header_len"]:
            ctx.count("rd_blocksize_le_header")
        if stats["quoted"]:
            ctx.count("rd_files_with_quotes")
        if any(x == 0 for x in case["rows"]):
            ctx.count("rd_header_only_files")
        if not all(case["trailing"]):
            ctx.count("rd_no_trailing_newline")
        if stats["rows"]:
            for f in on:
                if f in _RD_COUNT:
                    ctx.count(_RD_COUNT[f])
            if case["nlq"] and isinstance(stats["bs"], int) and stats["nparts"] > stats["nfiles"]:
                ctx.count("rd_quoted_newline_split_elsewhere")
            if case["comp"] and isinstance(stats["bs"], int):
                ctx.count("rd_compressed_with_blocksize")
            if "skiprows" in on and stats["nparts"] > stats["nfiles"]:
                ctx.count("rd_skiprows_multi_block")
        ctx.nontrivial = stats["rows"] > 0 and (stats["nparts"] >= 2)
        ctx.sample = {"facet": "rd", "files": stats["nfiles"], "blocks": stats["nparts"], "rows": stats["rows"],
                      "blocksize": stats["bs"], "header_len": stats["header_len"], "bytes": stats["size"]}
    if r is None or not _outcome(r, ctx) and r[0] != "bad":
        return
    _, symptom, message, exc = r
    try:
        needed, small = _necessary(case, _run_rd, _rd_on, _rd_off, symptom, _TMP)
    except Exception:  # noqa: BLE001
        needed, small = sorted(_rd_on(case)), case
    label = _label("rd", needed, symptom, message, small)
    detail = {"reduced_case": small}
    if exc is not None:
        import traceback

        detail["traceback"] = "".join(traceback.format_exception(type(exc), exc, exc.__traceback__))[-2000:]
    ctx.violation(label, message, **detail)


_RT_COUNT = {"sep": "rt_sep", "write-quoting": "rt_quoting", "na_rep": "rt_na_rep", "lineterminator": "rt_lineterminator",
             "encoding": "rt_encoding", "compression": "rt_compressed", "compute-false": "rt_compute_false",
             "scheduler-kw": "rt_scheduler_kw", "columns": "rt_columns", "index_label": "rt_index_label",
             "header-first-partition-only": "rt_header_first_partition_only", "existing-files": "rt_overwrite_existing",
             "second-write-appends": "rt_second_write_appends", "hdrlike": "rt_header_like_rows",
             "name_function": "rt_name_function", "mode-a": "rt_mode_a", "mode-w": "rt_mode_w"}


def _rt(case, ctx, tmp):
    stats = {}
    r = _run_rt(case, tmp, stats)
    ctx.op("rt:layout=" + case["layout"])
    on = _rt_on(case)
    for f in on:
        ctx.op("rt:" + f)
    if stats:
        ctx.count("rt_roundtrips")
        ctx.count("rt_files_written", stats["nfiles"])
        ctx.count("rt_rows_compared", stats["rows"])
        ctx.count("rt_blocks_read", stats["nblocks"])
        if stats["empty_parts"]:
            ctx.count("rt_with_empty_partition")
        if case["layout"] == "single":
            ctx.count("rt_single_file")
        if case["index"]:
            ctx.count("rt_index_written")
        if stats["dtobj"]:
            ctx.count("rt_datetime_dtype_object")
        if stats["rows"]:
            for f in on:
                if f in _RT_COUNT:
                    ctx.count(_RT_COUNT[f])
            if stats["nparts"] >= 3:
                ctx.count("rt_parts_ge3_" + case["layout"])
                if not case["compute"]:
                    ctx.count("rt_compute_false_parts_ge3")
            if case["comp"] and isinstance(case["read_blocksize"], dict):
                ctx.count("rt_compressed_read_with_blocksize")
        ctx.nontrivial = stats["rows"] > 0 and (stats["nparts"] >= 2 or stats["nblocks"] >= 2)
        ctx.sample = {"facet": "rt", "partitions": stats["nparts"], "files": stats["nfiles"], "blocks_read": stats["nblocks"],
                      "rows": stats["rows"], "layout": case["layout"]}
    if r is None or not _outcome(r, ctx) and r[0] != "bad":
        return
    _, symptom, message, exc = r
    try:
        needed, small = _necessary(case, _run_rt, _rt_on, _rt_off, symptom, _TMP)
    except Exception:  # noqa: BLE001
        needed, small = sorted(_rt_on(case)), case
    label = _label("rt", needed, symptom, message, small)
    detail = {"reduced_case": small}
    if exc is not None:
        import traceback

        detail["traceback"] = "".join(traceback.format_exception(type(exc), exc, exc.__traceback__))[-2000:]
    ctx.violation(label, message, **detail)
