"""C47 — DataFrame file round trips preserve data (CSV half; see LEVEL_NOTE for parquet).

Two facets, both observed on the REAL ``dask.dataframe.to_csv`` / ``dd.read_csv`` with files in a
run-private temporary directory (removed after every case).

facet ``rt`` (round trip): a generated frame (int64, float64 with NaN, str with commas / quotes /
  spaces / non-ASCII / empty / "NA" and — only when read back with ``blocksize=None`` — embedded
  newlines, datetimes, nullable Int64 with NA, bool) is partitioned (from_pandas npartitions /
  chunksize, from_map / from_delayed row slices INCLUDING EMPTY partitions, up to 13 partitions),
  written with ``ddf.to_csv`` (glob pattern, directory, explicit path list or ``single_file=True``;
  ``name_function``; ``index=True/False`` over range / named int / string / datetime indexes;
  ``header=True/False``; ``mode`` wt / w / a on fresh paths) and read back with ``dd.read_csv`` (same glob /
  list; ``blocksize`` None, default or a few bytes).  What CSV cannot carry is normalised on the EXPECTED
  side by doing the same trip in pandas: ``expected = pd.read_csv(StringIO(pdf.to_csv(index=, header=)),
  dtype=, parse_dates=, header=/names=)`` (so '' and 'NA' strings become NaN on both sides, the index
  becomes an ordinary leading column named as pandas names it).  Both readers get the SAME explicit
  ``dtype=`` for every non-datetime column and ``parse_dates=`` for the datetime ones, so only
  partition/file layout, header handling, quoting and block splitting are compared.
  Demanded: same columns in the same order, same number of rows, same values IN THE SAME ORDER
  (partition order = file order), the explicitly requested dtypes.  Not demanded: the dtype of a
  ``parse_dates`` column (pandas itself yields ``object`` for a header-only file, so an empty first
  partition legitimately makes dask's meta ``object``; such a column is converted with
  ``pd.to_datetime`` on both sides before the value comparison) and the index (dask restarts a
  RangeIndex per partition; both sides are reset).

facet ``rd`` (read_csv == pandas.read_csv): the harness writes the bytes itself (csv module: minimal /
  all / non-numeric quoting, ``\\n`` or ``\\r\\n`` line ends, trailing newline present or absent, header
  names that need quoting, 1–4 files incl. header-only files, rows equal to the header text, multi-byte
  UTF-8) and compares ``dd.read_csv(paths, blocksize=b, **kw)`` with ``pd.concat([pd.read_csv(p, **kw)
  for p in paths])`` for b from 1 byte up to beyond the file size, b == len(header) +-1, None and the
  default; ``include_path_column``; explicit ``lineterminator='\\n'``.  Quoted fields containing line
  terminators are generated only with ``blocksize=None`` (the dask docstring documents them as
  unsupported when files are split).  Here dtypes ARE compared (the statement says "the same frame").
  A small, separately labelled share (``infer``) omits ``dtype=`` for files whose every block
  infers the same dtypes by construction (no NA, no integral floats, blocksize None/default only).

Labels ``<facet>:<necessary features>:<symptom>``: after a disagreement every feature of the case
description that is switched on is switched off in turn and the case is re-run; the features that are
NECESSARY for the disagreement name the mechanism (no sizes, seeds or paths).  Features that only move bytes
around (quoting, tricky values, CRLF ...) are kept only when nothing else is necessary.  Three mechanisms that were
triaged by hand are recognised by an input/symptom predicate and get one label each (see ``_label``).

Calibration
-----------
* parse_dates column dtype after an empty first partition / header-only first file: pandas yields
  ``object`` for an empty parse_dates column and so does dask's meta -> rt facet compares such
  columns after ``pd.to_datetime`` on both sides (counted as ``rt_datetime_dtype_object``); in the rd facet
  the pandas reference (concat of per-file frames) has the same dtype by itself.
* rd facet with several files: the reference ``pd.concat`` of per-file frames turns a parse_dates column into
  ``object`` when one file is header-only; that is an artefact of the reference, so with several files parse_dates
  columns are compared as datetimes (``pd.to_datetime`` on whichever side is object) — found by running the check
  against a scratch copy with the proposed coerce_dtypes fix (on the unchanged tree dask raises there, see PENDING).
* explicit ``dtype=`` must also cover the written index column, otherwise inference on a header-only
  first file gives ``object`` (design note in DESIGN §9: inference on samples legitimately differs).
* ``mode='a'`` is only used on fresh paths (appending to an existing CSV writes a second header: pandas semantics of
  ``to_csv(mode='a')``, not a round trip) and only for ``single_file=True`` / explicit path lists: with a glob or a
  directory fsspec does not expand ``*`` for append mode and to_csv raises IndexError — ``mode`` is not in the
  statement's quantifier, reported as a side observation in findings_proposed/C47.md.
* datetimes are written with an explicit ``date_format`` on both sides: pandas 3 writes an all-midnight partition as
  dates only, the assembled file then has mixed formats and pandas' own parse_dates leaves strings (false alarm
  ``rt:index-written&layout-single&several-partitions`` corrected; witness: 13 rows / 13 partitions, datetime index).
* ``lineterminator='\n'`` is only passed for LF files (with CRLF pandas itself keeps the ``\r`` in the last column
  name, so the dtype map no longer applies: generator error, corrected).
* ``infer`` share: no header-only files, no tricky (numeric-looking) strings: per-file/per-block inference
  legitimately differs there (two false alarms corrected).
* zero-byte files: pandas raises EmptyDataError -> rejected by the reference, not generated except
  as a rare reject-path probe.
"""
from __future__ import annotations

import csv
import io
import os
import random
import shutil
import tempfile
import warnings

PROP = "C47"
RULE = ("facet rd: complete sub-space first (5 fixed small files x every blocksize 1..size+2, None, default), then "
        "random harness-written CSV files (schema of 1-5 columns from int/float+NaN/str tricky/datetime/Int64+NA/bool, "
        "0-25 rows, 1-4 files, quoting, line ends, trailing newline, header-only files, header-equal rows, quoted newlines "
        "with blocksize=None only) read with random blocksizes (1 byte .. > file size, around the header length, None, "
        "default), include_path_column; facet rt: random frames x partitionings (incl. empty partitions) x to_csv layout "
        "(glob/dir/list/single_file, name_function, index, header, mode) x read-back blocksize. non-trivial = at least one "
        "data row and (>= 2 blocks/partitions/files); distinct = distinct case description")
ASSUMPTIONS = [
    "pandas.read_csv / DataFrame.to_csv (pandas 3.0.5) define the expected frame; Python's csv module writes the rd files",
    "explicit dtype=/parse_dates= are passed to both readers (dtype inference from samples is documented to differ)",
    "dask.dataframe is imported through the pyarrow import stub; to_parquet/read_parquet need the real pyarrow and are NOT decided",
]
BUDGET = {"quick": 40, "thorough": 540}
CASE_TIMEOUT = 240
EXHAUSTIVE_SPACE = ("rd facet: 5 fixed files (LF with/without trailing newline, CRLF, quoted commas/quotes, header only) x "
                    "every blocksize from 1 to filesize+2 plus None and the default")
LEVEL_NOTE = ("CSV half only: to_parquet/read_parquet need the real pyarrow, which is not installed in this sandbox and cannot "
              "be fetched, so the parquet half of the statement (incl. partition_on) is not decided; trusts pandas' CSV reader/"
              "writer and the csv module as reference")
TECHNIQUE = ("runtime monitoring: differential oracle — real to_csv->read_csv vs the same trip in pandas, and real "
             "read_csv(blocksize=b) vs pandas.read_csv on harness-written bytes; complete blocksize sweep on fixed files + random; "
             "feature-necessity labels")
CLAIM = ("Every observed to_csv -> read_csv round trip reproduced the rows, their order and values of the pandas round trip of "
         "the same frame, and every observed read_csv(blocksize=b) equalled pandas.read_csv (all blocksizes 1..size+2 on five "
         "fixed files completely, otherwise sampled), except for the labels listed as findings. Parquet is not covered.")

FLOORS = {
    # ~45 % of the counts measured on the unchanged tree (quick seed 0: 1144 evaluations, 719 distinct non-trivial)
    "quick": {"evaluations": 500, "distinct_nontrivial": 320,
              "counters": {"rd_reads": 340, "rd_multi_block_reads": 140, "rd_blocksize_le_header": 80, "rd_rows_compared": 7000,
                           "rd_header_only_files": 50, "rd_no_trailing_newline": 110, "rd_files_with_quotes": 200,
                           "rt_roundtrips": 130, "rt_files_written": 380, "rt_rows_compared": 1200, "rt_with_empty_partition": 30,
                           "rt_single_file": 45, "rt_index_written": 50, "exhaustive_sweep": 114},
              "max_skipped_fraction": 0.15},
    "thorough": {"evaluations": 20000, "distinct_nontrivial": 13000,
                 "counters": {"rd_reads": 12000, "rd_multi_block_reads": 5500, "rd_blocksize_le_header": 2500,
                              "rd_rows_compared": 280000, "rd_header_only_files": 2000, "rd_no_trailing_newline": 4500,
                              "rd_files_with_quotes": 8000, "rt_roundtrips": 5800, "rt_files_written": 16000,
                              "rt_rows_compared": 50000, "rt_with_empty_partition": 1300, "rt_single_file": 2000,
                              "rt_index_written": 2200, "exhaustive_sweep": 114},
                 "max_skipped_fraction": 0.15},
}

# All labels that fired on the tree this module was calibrated on have repository fixes
# (fixes_ready/C47_*.patch, or fixes that entered /repo meanwhile); they are listed under "fixed" in
# known_findings.d/C47.json.  Nothing is left pending.
PENDING = {}

_TMP = None


def shard_setup(tier, seed):
    from vf.gen import frames

    frames.setup()
    warnings.simplefilter("ignore")
    global _TMP
    _TMP = tempfile.mkdtemp(prefix="vf-c47-")


def shard_finish():
    global _TMP
    if _TMP and os.path.isdir(_TMP):
        shutil.rmtree(_TMP, ignore_errors=True)
    _TMP = None
    return {}


# ------------------------------------------------------------------------------------------------
# fixed files of the complete sub-space

FIXED = {
    "lf": b"i,s\n1,x\n22,yy\n-3,z\n",
    "lf-nonl": b"i,s\n1,x\n22,yy\n-3,z",
    "crlf": b"i,s\r\n1,x\r\n22,yy\r\n-3,z\r\n",
    "quoted": b'i,s\n1,"x,1"\n22,"y""q"\n-3,"z "\n',
    "header-only": b"i,s\n",
}
FIXED_KW = {"dtype": {"i": "int64", "s": "str"}}

STR_POOL = ("x", "yy", "a,b", 'q"x', "  f ", "", "NA", "x y", "naïve", "日本", "z", "w", "1", "1.5", "-", "'s'", "a;b", "#c")
NAME_POOL = ("i", "f", "s", "t", "n", "b", "col 1", "c,d", 'q"n', "é", "x.1", "A")
KINDS = ("i", "i", "f", "f", "s", "s", "s", "t", "n", "n", "b")
DATE_FORMAT = "%Y-%m-%d %H:%M:%S"
DTYPE = {"i": "int64", "f": "float64", "s": "str", "n": "Int64", "b": "bool"}


def cases(tier, seed):
    rng = random.Random(seed * 7793 + 47)
    # ---- complete sub-space ------------------------------------------------------------------
    for name, data in FIXED.items():
        for b in [None, "default"] + list(range(1, len(data) + 3)):
            yield {"space": "exhaustive", "facet": "fixed", "file": name, "blocksize": b}
    nrd = 700 if tier == "quick" else 30000
    nrt = 330 if tier == "quick" else 15000
    # interleave the two facets so that a truncated run still sees both
    plan = ["rd"] * nrd + ["rt"] * nrt
    rng.shuffle(plan)
    for facet in plan:
        yield _rd_case(rng) if facet == "rd" else _rt_case(rng)


def _schema(rng, allstr=False):
    k = rng.randint(1, 5)
    kinds = ["s"] * k if allstr else [rng.choice(KINDS) for _ in range(k)]
    tricky = rng.random() < 0.2
    names = []
    pool = list(NAME_POOL if tricky else NAME_POOL[:6] + ("A", "x.1"))
    rng.shuffle(pool)
    for j in range(k):
        names.append(pool[j])
    return [[n, kd] for n, kd in zip(names, kinds)], tricky


def _rd_case(rng):
    hdrlike = rng.random() < 0.08
    schema, tricky_hdr = _schema(rng, allstr=hdrlike)
    nfiles = rng.choice((1, 1, 1, 2, 3, 4))
    rows = []
    for _ in range(nfiles):
        u = rng.random()
        rows.append(0 if u < 0.12 else rng.randint(1, 25))
    nlq = rng.random() < 0.08 and any(k == "s" for _, k in schema)
    infer = (not nlq) and (not hdrlike) and rng.random() < 0.06
    u = rng.random()
    if nlq or (infer and u < 0.5) or u < 0.12:
        bs = None
    elif u < 0.2 or infer:
        bs = "default"
    elif u < 0.45:
        bs = {"abs": rng.randint(1, 12)}
    elif u < 0.6:
        bs = {"hdr": rng.choice((-2, -1, 0, 1, 2))}
    elif u < 0.7:
        bs = {"size": rng.choice((-1, 0, 1, 5))}
    else:
        bs = {"abs": rng.randint(13, 400)}
    if infer:
        rows = [r or rng.randint(1, 9) for r in rows]
    case = {"facet": "rd", "tseed": rng.randrange(2 ** 31), "schema": schema, "rows": rows,
            "quoting": rng.choice(("minimal", "minimal", "all", "nonnumeric")),
            "eol": rng.choice(("\n", "\n", "\r\n")), "trailing": [rng.random() < 0.75 for _ in range(nfiles)],
            "blocksize": bs, "include_path": rng.random() < 0.12, "lt_kw": False,
            "hdrlike": hdrlike, "nlq": nlq, "infer": infer, "tricky": rng.random() < 0.6,
            "as_list": rng.random() < 0.3}
    case["lt_kw"] = case["eol"] == "\n" and rng.random() < 0.12
    if infer:
        case["tricky"] = False    # numeric-looking strings would legitimately be inferred per file / per block
    return case


def _rt_case(rng):
    schema, _ = _schema(rng)
    n = rng.choice((0, 1, 2, 3, 5, 8, 13, 21, 30))
    from vf.gen.frames import rand_partition_desc

    part = rand_partition_desc(rng, n)
    if n >= 13 and rng.random() < 0.3:
        part = {"how": "npartitions", "n": rng.choice((11, 12, 13))}
    layout = rng.choice(("glob", "glob", "dir", "list", "single", "single"))
    nl = rng.random() < 0.08 and any(k == "s" for _, k in schema)
    u = rng.random()
    rbs = None if (nl or u < 0.35) else ("default" if u < 0.65 else {"abs": rng.choice((1, 3, 7, 16, 40, 100))})
    return {"facet": "rt", "fseed": rng.randrange(2 ** 31), "schema": schema, "nrows": n, "part": part, "layout": layout,
            "index": rng.random() < 0.4, "index_kind": rng.choice(("range", "sorted", "strings", "datetime")),
            "header": rng.random() < 0.8, "namefn": rng.choice((None, None, "pad3", "alpha", "x10")) if layout == "glob" else None,
            "wmode": rng.choice(("wt", "wt", "w", "a") if layout in ("single", "list") else ("wt", "wt", "w")), "read_blocksize": rbs, "nl": nl, "tricky": rng.random() < 0.7}


# ------------------------------------------------------------------------------------------------
# value generation

def _values(rng, kind, n, tricky=True, nl=False, no_na=False):
    out = []
    for _ in range(n):
        if kind == "i":
            out.append(rng.choice((0, 1, -1, 7, 42, -300, 10 ** 9, rng.randint(-50, 50))))
        elif kind == "f":
            if not no_na and rng.random() < 0.2:
                out.append(None)
            else:
                v = round(rng.gauss(0, 10), rng.choice((1, 3)))
                out.append(v + 0.5 if no_na and float(v).is_integer() else v)
        elif kind == "s":
            if nl and rng.random() < 0.35:
                out.append(rng.choice(("a\nb", "x,\ny", '"\n"', "line1\nline2\n")))
            elif tricky:
                v = rng.choice(STR_POOL)
                out.append("v" if no_na and v in ("", "NA") else v)
            else:
                out.append(rng.choice(("x", "yy", "z", "w")))
        elif kind == "t":
            out.append("2020-%02d-%02d %02d:%02d:00" % (rng.randint(1, 12), rng.randint(1, 28), rng.randint(0, 23), rng.randint(0, 59)))
        elif kind == "n":
            out.append(None if (not no_na and rng.random() < 0.25) else rng.randint(-5, 500))
        elif kind == "b":
            out.append(rng.choice((True, False)))
    return out


def _read_kw(schema, infer=False):
    kw = {}
    if not infer:
        kw["dtype"] = {n: DTYPE[k] for n, k in schema if k != "t"}
    pd_ = [n for n, k in schema if k == "t"]
    if pd_:
        kw["parse_dates"] = pd_
    return kw


def _write_text(rng, schema, nrows, quoting, eol, trailing, tricky, nlq, hdrlike, infer):
    q = {"minimal": csv.QUOTE_MINIMAL, "all": csv.QUOTE_ALL, "nonnumeric": csv.QUOTE_NONNUMERIC}[quoting]
    buf = io.StringIO(newline="")
    w = csv.writer(buf, quoting=q, lineterminator=eol)
    names = [n for n, _ in schema]
    w.writerow(names)
    cols = [_values(rng, k, nrows, tricky, nlq, no_na=infer) for _, k in schema]
    rows = [list(r) for r in zip(*cols)] if cols else []
    if hdrlike and rows:
        for _ in range(rng.randint(1, 2)):
            j = rng.randrange(len(rows))
            if len(names) == 1 and rng.random() < 0.5:
                rows[j] = [names[0] + rng.choice(("zz", " x", "1"))]   # only a PREFIX of the row equals the header text
            else:
                rows[j] = list(names)
    for r in rows:
        w.writerow(["" if v is None else v for v in r])
    text = buf.getvalue()
    if not trailing and text.endswith(eol):
        text = text[: -len(eol)]
    return text.encode("utf8")


# ------------------------------------------------------------------------------------------------
# facet rd

def _resolve_bs(bs, header_len, size):
    if bs is None or bs == "default":
        return bs
    if "abs" in bs:
        return max(1, bs["abs"])
    if "hdr" in bs:
        return max(1, header_len + bs["hdr"])
    return max(1, size + bs["size"])


def _run_rd(case, tmp, stats=None):
    """Returns None (agree) | ("reject", msg) | ("bad", symptom, message, exc)."""
    import pandas as pd
    from vf.core.ctx import exc_label, through_shim
    from vf.gen import frames

    dd = frames.setup()
    rng = random.Random(case["tseed"])
    schema = case["schema"]
    paths = []
    datas = []
    for j, n in enumerate(case["rows"]):
        data = _write_text(rng, schema, n, case["quoting"], case["eol"], case["trailing"][j], case["tricky"], case["nlq"],
                           case["hdrlike"], case["infer"])
        p = os.path.join(tmp, "f-%02d.csv" % j)
        with open(p, "wb") as f:
            f.write(data)
        paths.append(p)
        datas.append(data)
    kw = _read_kw(schema, case["infer"])
    if case["lt_kw"]:
        kw["lineterminator"] = "\n"
    header_len = len(datas[0].split(case["eol"].encode())[0]) + len(case["eol"])
    bs = _resolve_bs(case["blocksize"], header_len, len(datas[0]))
    try:
        exp = []
        for p in paths:
            e = pd.read_csv(p, **kw)
            if case["include_path"]:
                e = e.assign(path=pd.Categorical([p] * len(e), categories=paths))
            exp.append(e)
        expected = pd.concat(exp, ignore_index=True) if len(exp) > 1 else exp[0].reset_index(drop=True)
    except Exception as e:  # noqa: BLE001
        return ("reject", "pandas.read_csv: %s: %s" % (type(e).__name__, e))
    target = paths if (case["as_list"] or len(paths) == 1 and not case["as_list"]) else os.path.join(tmp, "f-*.csv")
    if len(paths) == 1:
        target = paths[0]
    dkw = dict(kw)
    if bs != "default":
        dkw["blocksize"] = bs
    if case["include_path"]:
        dkw["include_path_column"] = True
    try:
        ddf = dd.read_csv(target, **dkw)
        nparts = ddf.npartitions
        got = ddf.compute(scheduler="sync").reset_index(drop=True)
    except NotImplementedError as e:
        return ("unsupported", str(e))
    except Exception as e:  # noqa: BLE001
        if through_shim(e):
            return ("env", "%s: %s" % (type(e).__name__, e))
        return ("bad", exc_label(e), "%s: %s" % (type(e).__name__, str(e)[:300]), e)
    if stats is not None:
        stats.update(nparts=nparts, nfiles=len(paths), rows=len(expected), header_len=header_len, bs=bs,
                     size=sum(map(len, datas)), quoted=any(b'"' in d for d in datas))
    if len(paths) > 1:
        # several files: the reference is a pandas concat, which degrades a parse_dates column to object as soon as one
        # file has no data rows (an artefact of the reference, not of read_csv) -> compare such columns as datetimes
        for c in kw.get("parse_dates", []):
            for side in (got, expected):
                if c in side.columns and str(side[c].dtype) in ("object", "str"):
                    try:
                        side[c] = pd.to_datetime(side[c])
                    except Exception:  # noqa: BLE001
                        pass
    m = frames.compare(got, expected, ordered=True, check_index=False, check_dtype=True)
    if m is not None and m[0] == "dtype" and len(paths) > 1 and any(("%r" % c) in m[1] for c in kw.get("parse_dates", [])):
        m = frames.compare(got, expected, ordered=True, check_index=False, check_dtype=False)
    if m is not None:
        return ("bad", m[0], "%s | got %s | expected %s" % (m[1], _show(got), _show(expected)), None)
    return None


def _row_starts_with_header(case):
    """Input-feature predicate: some data line of some file starts with the (right-stripped) header line."""
    rng = random.Random(case["tseed"])
    eol = case["eol"].encode()
    for j, n in enumerate(case["rows"]):
        data = _write_text(rng, case["schema"], n, case["quoting"], case["eol"], case["trailing"][j], case["tricky"], case["nlq"],
                           case["hdrlike"], case["infer"])
        lines = data.split(eol)
        hdr = lines[0].rstrip()
        if hdr and any(ln.startswith(hdr) for ln in lines[1:] if ln):
            return True
    return False


def _rt_row_starts_with_header(case):
    """Same predicate for the round-trip facet, on the text pandas writes for the frame (header line vs data lines)."""
    try:
        if not case["header"]:
            return False
        pdf, _ = _rt_frame(case)
        lines = pdf.to_csv(index=case["index"], header=True, date_format=DATE_FORMAT).encode("utf8").split(b"\n")
        hdr = lines[0].rstrip()
        return bool(hdr) and any(ln.startswith(hdr) for ln in lines[1:] if ln)
    except Exception:  # noqa: BLE001
        return False


RD_FEATURES = ("hdrlike", "nlq", "include_path", "lt_kw", "infer", "crlf", "no-trailing-newline", "multi-file", "header-only-file",
               "quoting", "tricky-values", "quoted-header", "blocked")


def _rd_on(case):
    f = set()
    for k in ("hdrlike", "nlq", "include_path", "lt_kw", "infer"):
        if case[k]:
            f.add(k)
    if case["eol"] == "\r\n":
        f.add("crlf")
    if not all(case["trailing"]):
        f.add("no-trailing-newline")
    if len(case["rows"]) > 1:
        f.add("multi-file")
    if any(r == 0 for r in case["rows"]):
        f.add("header-only-file")
    if case["quoting"] != "minimal":
        f.add("quoting")
    if case["tricky"]:
        f.add("tricky-values")
    if any(n not in ("i", "f", "s", "t", "n", "b", "A", "x.1") for n, _ in case["schema"]):
        f.add("quoted-header")
    if case["blocksize"] is not None and case["blocksize"] != "default":
        f.add("blocked")
    if any(k == "t" for _, k in case["schema"]):
        f.add("datetime-column")
    return f


def _rd_off(case, feat):
    c = dict(case)
    if feat in ("hdrlike", "nlq", "include_path", "lt_kw", "infer"):
        c[feat] = False
    elif feat == "crlf":
        c["eol"] = "\n"
    elif feat == "no-trailing-newline":
        c["trailing"] = [True] * len(case["trailing"])
    elif feat == "multi-file":
        # keep the file with most rows
        j = max(range(len(case["rows"])), key=lambda x: case["rows"][x])
        c["rows"] = [case["rows"][j]]
        c["trailing"] = [case["trailing"][j]]
    elif feat == "header-only-file":
        c["rows"] = [r or 3 for r in case["rows"]]
    elif feat == "quoting":
        c["quoting"] = "minimal"
    elif feat == "tricky-values":
        c["tricky"] = False
    elif feat == "quoted-header":
        c["schema"] = [["c%d" % j, k] for j, (_, k) in enumerate(case["schema"])]
    elif feat == "blocked":
        c["blocksize"] = None
    elif feat == "datetime-column":
        c["schema"] = [[n, "i" if k == "t" else k] for n, k in case["schema"]]
    return c


# ------------------------------------------------------------------------------------------------
# facet rt

def _rt_frame(case):
    import numpy as np
    import pandas as pd

    rng = random.Random(case["fseed"])
    n = case["nrows"]
    data = {}
    for name, k in case["schema"]:
        v = _values(rng, k, n, case["tricky"], case["nl"])
        if k == "i":
            data[name] = np.array(v, dtype="int64")
        elif k == "f":
            data[name] = np.array([np.nan if x is None else x for x in v], dtype="float64")
        elif k == "s":
            data[name] = pd.array(v, dtype="str")
        elif k == "t":
            data[name] = pd.to_datetime(pd.Series(v, dtype="object")) if n else pd.Series([], dtype="datetime64[ns]")
        elif k == "n":
            data[name] = pd.array(v, dtype="Int64")
        else:
            data[name] = np.array(v, dtype="bool")
    pdf = pd.DataFrame(data, columns=[nm for nm, _ in case["schema"]])
    ik = case["index_kind"] if case["index"] else "range"
    idx_kw = {}
    if ik == "sorted":
        pdf.index = pd.Index(np.arange(n, dtype="int64") * 3 + 1, name="idx")
        idx_kw = {"dtype": {"idx": "int64"}}
    elif ik == "strings":
        pdf.index = pd.Index(["s%03d" % j for j in range(n)], dtype="str", name="sid")
        idx_kw = {"dtype": {"sid": "str"}}
    elif ik == "datetime":
        pdf.index = pd.DatetimeIndex(pd.to_datetime("2021-03-01") + pd.to_timedelta(np.arange(n) * 7, unit="min"), name="ts")
        idx_kw = {"parse_dates": ["ts"]}
    else:
        idx_kw = {"dtype": {"Unnamed: 0": "int64"}}
    return pdf, idx_kw


_NAMEFN = {"pad3": lambda i: "%03d" % i, "alpha": lambda i: chr(97 + i), "x10": lambda i: "%04d" % (i * 10)}


def _run_rt(case, tmp, stats=None):
    import pandas as pd
    from vf.core.ctx import exc_label, through_shim
    from vf.gen import frames

    dd = frames.setup()
    try:
        pdf, idx_kw = _rt_frame(case)
    except Exception as e:  # noqa: BLE001
        return ("reject", "frame generator: %s" % e)
    schema = case["schema"]
    kw = _read_kw(schema)
    index = case["index"]
    names = [n for n, _ in schema]
    if index:
        if "dtype" in idx_kw:
            kw.setdefault("dtype", {}).update(idx_kw["dtype"])
        else:
            kw["parse_dates"] = idx_kw["parse_dates"] + kw.get("parse_dates", [])
        iname = pdf.index.name or "Unnamed: 0"
        if iname in names:
            return ("reject", "index name collides with a column")
        names = [iname] + names
    if not case["header"]:
        kw["header"] = None
        kw["names"] = names
    # ---- expected: the same trip in pandas --------------------------------------------------------
    try:
        text = pdf.to_csv(index=index, header=case["header"], date_format=DATE_FORMAT)
        expected = pd.read_csv(io.StringIO(text), **kw)
    except Exception as e:  # noqa: BLE001
        return ("reject", "pandas round trip: %s: %s" % (type(e).__name__, e))
    # ---- dask ---------------------------------------------------------------------------------------
    try:
        ddf = frames.partition(pdf, case["part"])
    except Exception as e:  # noqa: BLE001
        return ("reject", "partitioning: %s" % e)
    npart = ddf.npartitions
    layout = case["layout"]
    out = os.path.join(tmp, "out")
    wkw = {"index": index, "header": case["header"], "mode": case["wmode"], "compute_kwargs": {"scheduler": "sync"},
           "date_format": DATE_FORMAT}
    if layout == "glob":
        target = os.path.join(out, "part-*.csv")
        readt = target
        if case["namefn"]:
            wkw["name_function"] = _NAMEFN[case["namefn"]]
    elif layout == "dir":
        target = out
        readt = os.path.join(out, "*.part")
    elif layout == "list":
        os.makedirs(out, exist_ok=True)
        target = [os.path.join(out, "p%02d-%s.csv" % (j, "abc"[j % 3])) for j in range(npart)]
        readt = list(target)
    else:
        os.makedirs(out, exist_ok=True)
        target = os.path.join(out, "single.csv")
        readt = target
        wkw["single_file"] = True
    dkw = dict(kw)
    rbs = case["read_blocksize"]
    if rbs != "default":
        dkw["blocksize"] = rbs if rbs is None else rbs["abs"]
    try:
        written = ddf.to_csv(target, **wkw)
        nfiles = len(written)
        back = dd.read_csv(readt, **dkw)
        nblocks = back.npartitions
        got = back.compute(scheduler="sync").reset_index(drop=True)
    except NotImplementedError as e:
        return ("unsupported", str(e))
    except Exception as e:  # noqa: BLE001
        if through_shim(e):
            return ("env", "%s: %s" % (type(e).__name__, e))
        return ("bad", exc_label(e), "%s: %s" % (type(e).__name__, str(e)[:300]), e)
    want_files = 1 if layout == "single" else npart
    if nfiles != want_files or not all(os.path.exists(p) for p in written):
        return ("bad", "files", "to_csv returned %d names for %d partitions (layout %s): %r" % (nfiles, npart, layout, written[:4]), None)
    # ---- normalisation: parse_dates columns compared as datetimes whatever container dtype came back ---
    dtobj = 0
    for c in kw.get("parse_dates", []):
        for side in (got, expected):
            if c in side.columns and str(side[c].dtype) in ("object", "str"):
                try:
                    side[c] = pd.to_datetime(side[c])
                    dtobj += side is got
                except Exception:  # noqa: BLE001
                    pass
    if stats is not None:
        stats.update(nparts=npart, nfiles=nfiles, nblocks=nblocks, rows=len(expected), dtobj=dtobj,
                     empty_parts=_empty_parts(case, len(pdf)))
    m = frames.compare(got, expected, ordered=True, check_index=False, check_dtype=True)
    if m is not None and m[0] == "dtype" and any(("%r" % c) in m[1] for c in kw.get("parse_dates", [])):
        m = frames.compare(got, expected, ordered=True, check_index=False, check_dtype=False)
    if m is not None:
        return ("bad", m[0], "%s | got %s | expected %s" % (m[1], _show(got), _show(expected)), None)
    return None


def _empty_parts(case, n):
    p = case["part"]
    if p.get("how") in ("slices", "delayed"):
        cuts = sorted(min(max(0, c), n) for c in p.get("cuts", []))
        b = [0] + cuts + [n]
        return sum(1 for x, y in zip(b[:-1], b[1:]) if x == y)
    return 0


def _rt_on(case):
    f = set()
    if _empty_parts(case, case["nrows"]):
        f.add("empty-partition")
    elif case["part"].get("how") in ("slices", "delayed") or case["part"].get("n", 1) > 1:
        f.add("several-partitions")
    if case["layout"] != "glob":
        f.add("layout-" + case["layout"])
    if not case["header"]:
        f.add("header-off")
    if case["index"]:
        f.add("index-written")
    if case["namefn"]:
        f.add("name_function")
    if case["wmode"] != "wt":
        f.add("mode-" + case["wmode"])
    if case["read_blocksize"] is not None and case["read_blocksize"] != "default":
        f.add("read-blocked")
    if case["nl"]:
        f.add("newline-in-field")
    if case["tricky"]:
        f.add("tricky-values")
    if any(n not in ("i", "f", "s", "t", "n", "b", "A", "x.1") for n, _ in case["schema"]):
        f.add("quoted-header")
    if any(k == "t" for _, k in case["schema"]) or (case["index"] and case["index_kind"] == "datetime"):
        f.add("datetime-column")
    if case["nrows"] == 0:
        f.add("no-rows")
    return f


def _rt_off(case, feat):
    c = dict(case)
    if feat in ("empty-partition", "several-partitions"):
        c["part"] = {"how": "npartitions", "n": 2} if feat == "empty-partition" else {"how": "npartitions", "n": 1}
    elif feat.startswith("layout-"):
        c["layout"] = "glob"
    elif feat == "header-off":
        c["header"] = True
    elif feat == "index-written":
        c["index"] = False
    elif feat == "name_function":
        c["namefn"] = None
    elif feat.startswith("mode-"):
        c["wmode"] = "wt"
    elif feat == "read-blocked":
        c["read_blocksize"] = None
    elif feat == "newline-in-field":
        c["nl"] = False
    elif feat == "tricky-values":
        c["tricky"] = False
    elif feat == "quoted-header":
        c["schema"] = [["c%d" % j, k] for j, (_, k) in enumerate(case["schema"])]
    elif feat == "datetime-column":
        c["schema"] = [[n, "i" if k == "t" else k] for n, k in case["schema"]]
        if case["index_kind"] == "datetime":
            c["index_kind"] = "sorted"
    elif feat == "no-rows":
        c["nrows"] = 5
    return c


# ------------------------------------------------------------------------------------------------

def _show(v):
    try:
        return v.head(6).to_string().replace("\n", " / ")[:300]
    except Exception:  # noqa: BLE001
        return repr(v)[:200]


def _fresh(tmp):
    d = tempfile.mkdtemp(prefix="case-", dir=tmp)
    return d


def _necessary(case, run, on, off, symptom, tmp):
    """Features whose removal makes the disagreement disappear (or change symptom)."""
    cur = case
    needed = []
    for feat in sorted(on(case)):
        if feat not in on(cur):
            continue
        cand = off(cur, feat)
        d = _fresh(tmp)
        try:
            r = run(cand, d)
        except Exception:  # noqa: BLE001
            r = None
        finally:
            shutil.rmtree(d, ignore_errors=True)
        if r is not None and r[0] == "bad" and r[1] == symptom:
            cur = cand          # still fails without it: not necessary
        else:
            needed.append(feat)
    return needed, cur


def run_case(case, ctx):
    from vf.gen import frames

    frames.setup()
    global _TMP
    if _TMP is None or not os.path.isdir(_TMP):
        _TMP = tempfile.mkdtemp(prefix="vf-c47-")
    with warnings.catch_warnings():
        warnings.simplefilter("ignore")
        tmp = _fresh(_TMP)
        try:
            if case["facet"] == "fixed":
                _fixed(case, ctx, tmp)
            elif case["facet"] == "rd":
                _rd(case, ctx, tmp)
            else:
                _rt(case, ctx, tmp)
        finally:
            shutil.rmtree(tmp, ignore_errors=True)


# features that only move bytes around (they change where block boundaries fall): kept in a label only when
# nothing else is necessary, so that one mechanism does not get one label per byte layout
PERTURBING = ("tricky-values", "quoting", "quoted-header", "crlf", "no-trailing-newline")


def _label(facet, needed, symptom, message, small=None):
    if "failed to properly parse as dates" in message and "coerce_dtypes" in symptom:
        # dates are always generated valid, so the only way into this branch of coerce_dtypes is a block (or file,
        # or written partition) without data rows whose parse_dates column pandas types as object
        return "read_csv:parse_dates&block-without-data-rows:" + symptom
    if "All `iterables` must have a non-zero length" in message:
        # from_map got no blocks at all: every file is zero bytes long (empty frame written with header=False) and a blocksize is set
        return "read_csv:all-files-zero-bytes&blocksize-set:" + symptom
    hdr_symptom = symptom in ("length", "columns", "values") or symptom == "KeyError@dataframe/io/csv.py:_read_csv"
    if hdr_symptom and small is not None and (
            (facet == "rd" and "blocked" in needed and _row_starts_with_header(small))
            or (facet == "rt" and "read-blocked" in needed and _rt_row_starts_with_header(small))):
        # rows are lost / taken as a header only while some data row starts with the header text and a block starts there:
        # the header-detection heuristic of pandas_read_text (b.startswith(header.rstrip()))
        return "read_csv:data-row-starts-with-header-text&blocked:" + symptom
    core = [f for f in needed if f not in PERTURBING]
    feats = core if core else list(needed)
    return "%s:%s:%s" % (facet, "&".join(feats) or "plain", symptom)


def _outcome(r, ctx):
    if r is None:
        return True
    if r[0] == "reject":
        ctx.reject(r[1])
    elif r[0] == "unsupported":
        ctx.unsupported(r[1])
    elif r[0] == "env":
        ctx.envlimited(r[1])
    return False


def _fixed(case, ctx, tmp):
    import pandas as pd
    from vf.core.ctx import exc_label
    from vf.gen import frames

    dd = frames.setup()
    data = FIXED[case["file"]]
    p = os.path.join(tmp, "fixed.csv")
    with open(p, "wb") as f:
        f.write(data)
    expected = pd.read_csv(p, **FIXED_KW)
    kw = dict(FIXED_KW)
    if case["blocksize"] != "default":
        kw["blocksize"] = case["blocksize"]
    ctx.count("exhaustive_sweep")
    ctx.count("rd_reads")
    ctx.op("fixed:" + case["file"])
    bsz = case["blocksize"]
    feat = "blocksize-none-or-default" if not isinstance(bsz, int) else (
        "blocksize<=header" if bsz <= len(data.split(b"\n")[0]) + 1 else ("blocksize<filesize" if bsz < len(data) else "blocksize>=filesize"))
    try:
        ddf = dd.read_csv(p, **kw)
        got = ddf.compute(scheduler="sync").reset_index(drop=True)
    except Exception as e:  # noqa: BLE001
        ctx.exception(e, prefix="rd:fixed-%s&%s" % (case["file"], feat))
        return
    ctx.nontrivial = len(expected) > 0 and ddf.npartitions >= 2
    if ddf.npartitions >= 2:
        ctx.count("rd_multi_block_reads")
    if isinstance(bsz, int) and bsz <= len(data.split(b"\n")[0]) + 1:
        ctx.count("rd_blocksize_le_header")
    ctx.count("rd_rows_compared", len(expected))
    m = frames.compare(got, expected, ordered=True, check_index=False)
    if m is not None:
        ctx.violation("rd:fixed-%s&%s:%s" % (case["file"], feat, m[0]),
                      "%s | blocksize=%r file=%r | got %s | expected %s" % (m[1], bsz, data, _show(got), _show(expected)))
    ctx.sample = {"file": case["file"], "blocksize": bsz, "blocks": ddf.npartitions, "rows": len(expected)}


def _rd(case, ctx, tmp):
    stats = {}
    r = _run_rd(case, tmp, stats)
    ctx.op("rd:quoting=" + case["quoting"])
    ctx.op("rd:eol=" + ("crlf" if case["eol"] == "\r\n" else "lf"))
    ctx.op("rd:blocksize=" + ("none" if case["blocksize"] is None else case["blocksize"] if isinstance(case["blocksize"], str)
                              else next(iter(case["blocksize"]))))
    for f in _rd_on(case):
        ctx.op("rd:" + f)
    if stats:
        ctx.count("rd_reads")
        ctx.count("rd_rows_compared", stats["rows"])
        ctx.count("rd_blocks", stats["nparts"])
        if stats["nparts"] > stats["nfiles"]:
            ctx.count("rd_multi_block_reads")
        if isinstance(stats["bs"], int) and stats["bs"] <= stats["header_len"]:
            ctx.count("rd_blocksize_le_header")
        if stats["quoted"]:
            ctx.count("rd_files_with_quotes")
        if any(x == 0 for x in case["rows"]):
            ctx.count("rd_header_only_files")
        if not all(case["trailing"]):
            ctx.count("rd_no_trailing_newline")
        ctx.nontrivial = stats["rows"] > 0 and (stats["nparts"] >= 2)
        ctx.sample = {"facet": "rd", "files": stats["nfiles"], "blocks": stats["nparts"], "rows": stats["rows"],
                      "blocksize": stats["bs"], "header_len": stats["header_len"], "bytes": stats["size"]}
    if r is None or not _outcome(r, ctx) and r[0] != "bad":
        return
    _, symptom, message, exc = r
    try:
        needed, small = _necessary(case, _run_rd, _rd_on, _rd_off, symptom, _TMP)
    except Exception:  # noqa: BLE001
        needed, small = sorted(_rd_on(case)), case
    label = _label("rd", needed, symptom, message, small)
    detail = {"reduced_case": small}
    if exc is not None:
        import traceback

        detail["traceback"] = "".join(traceback.format_exception(type(exc), exc, exc.__traceback__))[-2000:]
    ctx.violation(label, message, **detail)


def _rt(case, ctx, tmp):
    stats = {}
    r = _run_rt(case, tmp, stats)
    ctx.op("rt:layout=" + case["layout"])
    for f in _rt_on(case):
        ctx.op("rt:" + f)
    if stats:
        ctx.count("rt_roundtrips")
        ctx.count("rt_files_written", stats["nfiles"])
        ctx.count("rt_rows_compared", stats["rows"])
        ctx.count("rt_blocks_read", stats["nblocks"])
        if stats["empty_parts"]:
            ctx.count("rt_with_empty_partition")
        if case["layout"] == "single":
            ctx.count("rt_single_file")
        if case["index"]:
            ctx.count("rt_index_written")
        if stats["dtobj"]:
            ctx.count("rt_datetime_dtype_object")
        ctx.nontrivial = stats["rows"] > 0 and (stats["nparts"] >= 2 or stats["nblocks"] >= 2)
        ctx.sample = {"facet": "rt", "partitions": stats["nparts"], "files": stats["nfiles"], "blocks_read": stats["nblocks"],
                      "rows": stats["rows"], "layout": case["layout"]}
    if r is None or not _outcome(r, ctx) and r[0] != "bad":
        return
    _, symptom, message, exc = r
    try:
        needed, small = _necessary(case, _run_rt, _rt_on, _rt_off, symptom, _TMP)
    except Exception:  # noqa: BLE001
        needed, small = sorted(_rt_on(case)), case
    label = _label("rt", needed, symptom, message, small)
    detail = {"reduced_case": small}
    if exc is not None:
        import traceback

        detail["traceback"] = "".join(traceback.format_exception(type(exc), exc, exc.__traceback__))[-2000:]
    ctx.violation(label, message, **detail)
