"""C26 — overlap computations match the unchunked stencil.

Monitor: NumPy differential on three facets of dask.array.overlap (real code, sync scheduler).

(a) ident   trim_internal(overlap(x, depth, boundary), depth, boundary) == x  (values, dtype, shape)
            for every chunking, per-axis depth (int / tuple / dict, (before, after) tuples on axes whose
            boundary is 'none' — the only place dask documents asymmetric depths), boundary per axis in
            {none/None, periodic, reflect, nearest, constant v} given as scalar / tuple / dict.
(b) map     map_overlap(f, x[, y], depth, boundary, trim, align_arrays, allow_rechunk) equals the reference
            "pad the whole NumPy array axis by axis (periodic->np.pad 'wrap', reflect->'symmetric' (dask's
            reflect repeats the edge cell, see overlap.reflect), nearest->'edge', constant->'constant',
            none->no padding), apply f once to the padded array, cut `depth` cells off the padded axes".
            f is a slicing based separable stencil with per-axis window [-l, +r], l, r <= depth, whose window is
            *truncated at the edge of the array it is given* (weighted sums with distinct weights per offset,
            windowed max / min).  With such an f the reference is exact for boundary 'none' as well: the only
            cells that see a truncated window in dask are those at the true array edge, where the reference
            truncates in the same way; every other cell that survives trimming has its whole window inside
            the block + halo.
            Chunks smaller than depth: allow_rechunk=True must give the same values; allow_rechunk=False is
            documented to raise ValueError ("Overlap depth is larger than smallest chunksize") — that outcome is
            counted (`norechunk_valueerror`), a correct result is accepted too, anything else is a violation.
            Two-array calls (same rank with different chunkings -> align_arrays, and rank 2 + rank 1
            broadcasting with per-array depth/boundary lists).  trim=False with a function that trims itself
            (only where every axis with depth > 0 has a real boundary, since a block cannot know whether it
            is an edge block).
(c) swv     da.lib.stride_tricks.sliding_window_view(x, window_shape, axis) equals
            numpy.lib.stride_tricks.sliding_window_view exactly (shape, dtype, values), windows up to the
            axis length, chunks smaller than the window, repeated/negative axes, automatic_rechunk on/off.

Domain: axis lengths >= 1, depth <= axis length on every axis (dask documents "depth larger than your array"
as an error), asymmetric depth only together with boundary 'none' (documented restriction; map_overlap raises
NotImplementedError otherwise).

Calibration
* dask's 'reflect' is np.pad(mode='symmetric') (edge cell repeated), not np.pad 'reflect'.
* constant boundaries are cast to the array dtype by dask (full_like(..., dtype=x.dtype)); np.pad does the
  same, so only constants representable in the dtype are generated.
* with two arrays and align_arrays=True the chunks are first refined to the common breakpoints; "chunk smaller than
  depth" (and hence the documented ValueError under allow_rechunk=False) is judged on the refined chunks.
* No alarm on the unchanged tree at seeds 0, 1, 2, 7, 12345 (quick) and on a thorough run (90720 cases).
* The number of blocks per array is capped at 64 (3-d arrays cut into single cells gave cases of several seconds that
  hit the per-case watchdog on a loaded machine: inconclusive, never a verdict).

Parameter audit (own random stream interleaved at fixed positions, `family` in the case, counters fam_<family> with floors):
  axes     map_overlap(..., drop_axis=int / list / negative, new_axis=int / list) with trim=True: f = stencil, summed over the
           dropped axes, length-1 axes inserted at the new positions; reference = f(padded whole array) trimmed on the kept axes.
           A dropped axis has depth 0 (any chunking: the function is given that axis' blocks concatenated) or is one chunk.
           Labels: a new axis beyond the input rank / with several axes behind it get ONE mechanism label each (PENDING: the
           depth bookkeeping of map_overlap is wrong there); every other case keeps the detailed feature label.
  multi    several inputs: the array of highest rank is NOT the first argument (per-array depth / boundary lists swapped with
           it) and / or three arrays (third one shaped like the second, own chunking; align_arrays True / False)
  deep     depth larger than the axis: the documented ValueError ("overlapping depth ... larger than your array", or the
           allow_rechunk=False message) is counted `depth_gt_axis_refused`; a returned value must equal the reference
           (np.pad pads beyond the axis length); any other exception is a violation
  big      axes of 300-1000 cells, chunks > 255 elements next to chunks shorter than the depth, depths / windows up to 40
  dtypes   overlap/trim identity for bool, complex128, datetime64[ns], float32, uint8, U2 (constants only where representable)
  nd4      4-d arrays with pairwise different lengths
  plain    depth=None / 0 (plain map_blocks), boundary argument omitted (default 'none'), meta= given
  legacy   the deprecated signature map_overlap(x, func, depth, boundary, trim)
* `trim_false` counts single-array calls only (two-array calls are always made with trim=True; they used to be counted and
  labelled by their unused `trim` field).

Sibling facet (vf/mon/siblings.py): every case is also built a second time with ONE result-relevant parameter changed
(another depth or boundary of one axis (overlap: the two overlapped arrays; map_overlap: the results), another window).
The two lazily built collections must not share output keys unless their stand-alone values are equal (label
``<op>:<param>-not-in-name:siblings-share-keys``); for a seeded ~15 % of the cases both are also computed in one graph and
compared with their stand-alone values (``<op>:<param>:differs-when-computed-with-sibling``).  Counters siblings_built /
siblings_computed_together / siblings_with_different_values have floors.
"""
from __future__ import annotations

import random
import warnings

import numpy as np

from ..gen import arrays as A
from ..mon import siblings as S
from ..mon.compare import blocks_mismatch, compare_arrays, lazy_meta_mismatch

PROP = "C26"
RULE = ("cases = (facet ident|map|map2|swv, shape 1-3 d with lengths 1-9, chunking, dtype int64/float64/int32, per-axis depth "
        "incl. (before, after) tuples, per-axis boundary none|periodic|reflect|nearest|constant, spec forms "
        "int/tuple/dict, stencil kind wsum|max|min with per-axis radii <= depth, trim, align_arrays, allow_rechunk, "
        "function vs method API; window shapes/axes for sliding_window_view). Complete part: all 32 chunkings of "
        "shape (6,) x depth {1,2} x 5 boundary modes for ident and for map with the 3-point (radius = depth) stencil; "
        "all 16 chunkings of (5,) x window 1..5 for sliding_window_view. non-trivial = an axis with depth > 0 "
        "(window > 1) is split into >= 2 chunks; distinct = distinct case description without data seed.")
ASSUMPTIONS = ["NumPy 2.x np.pad / sliding_window_view define the expected values", "sync scheduler",
               "the stencil functions are harness code: pure, slicing based, window truncated at the block edge"]
BUDGET = {"quick": 60, "thorough": 560}
CASE_TIMEOUT = 180
FLOORS = {"quick": {"evaluations": 2300, "distinct_nontrivial": 1700,
                    "counters": {"ident_compared": 560, "map_compared": 950, "swv_compared": 480, "rechunk_needed": 1000,
                                 "norechunk_valueerror": 115, "asymmetric_depth": 115, "trim_false": 170,
                                 "lazy_meta_checked": 2000, "blocks_checked": 140},
                    "max_skipped_fraction": 0.1},
          "thorough": {"evaluations": 45000, "distinct_nontrivial": 28000,
                       "counters": {"ident_compared": 9000, "map_compared": 17000, "swv_compared": 9000, "rechunk_needed": 18000,
                                    "norechunk_valueerror": 2300, "asymmetric_depth": 2300, "trim_false": 3000,
                                    "lazy_meta_checked": 36000},
                       "max_skipped_fraction": 0.1}}
# sibling facet (vf/mon/siblings.py): ~45 % of the smallest count of the five quick seeds on the unchanged tree; thorough =
# quick floor x (thorough / quick stream size) x 0.6.  A run in which the facet never executed is INCONCLUSIVE.
FLOORS["quick"]["counters"].update({"siblings_built": 1900, "siblings_computed_together": 260, "siblings_with_different_values": 205})
FLOORS["thorough"]["counters"].update({"siblings_built": 21000, "siblings_computed_together": 3000, "siblings_with_different_values": 2300})
# parameter-audit families (own random stream): ~45 % of the quick counts on the unchanged tree; thorough = quick x 16 (stream ratio 18.75)
_FAMF = {"fam_axes": 75, "fam_drop_axis": 48, "fam_new_axis": 65, "fam_multi": 52, "fam_big": 58, "fam_dtypes": 22, "fam_legacy": 19,
         "fam_plain": 27, "fam_nd4": 24, "depth_gt_axis_refused": 35}
FLOORS["quick"]["counters"].update(_FAMF)
FLOORS["thorough"]["counters"].update({k: v * 16 for k, v in _FAMF.items()})
EXHAUSTIVE_SPACE = ("all 32 chunkings of shape (6,) x depth {1,2} x boundary {none, periodic, reflect, nearest, constant} "
                    "for trim_internal(overlap(x)) and for map_overlap with the 3-point/5-point full-radius stencil; "
                    "all 16 chunkings of shape (5,) x window 1..5 for sliding_window_view")
CLAIM = ("Every generated overlap/trim round trip, map_overlap call and sliding_window_view call was executed by the real "
         "dask.array code and compared with the unchunked NumPy reference (pad whole array -> apply -> trim) on the same "
         "data, and with its own lazy metadata; held = no mismatch and no dask exception inside the domain on the "
         "executions observed.")
LEVEL_NOTE = "NumPy is the reference; stencil functions are harness code whose window never exceeds depth"
TECHNIQUE = "runtime monitoring: NumPy differential (pad-apply-trim reference) over generated inputs and complete small chunking spaces"

OMIT = "<boundary argument omitted>"
# Found by the parameter audit on the unchanged tree; fix proposed in fixes_ready/C26_01_map_overlap_new_axis_depth_shift.patch
PENDING = {
    "map:new_axis>=input-rank:shape": "map_overlap reduces new_axis modulo the rank of the INPUT: new_axis=x.ndim (append) is taken for 0, the result is trimmed on the wrong axes",
    "map:new_axis>=input-rank:values": "same mechanism, the wrongly trimmed result happens to have the expected shape",
    "map:new_axis-before-several-axes:shape": "map_overlap shifts the per-axis depths upwards in ascending order: with two or more axes behind a new axis a depth is overwritten before it is moved, the result is not trimmed / trimmed on the wrong axis",
    "map:new_axis-before-several-axes:values": "same mechanism, the wrongly trimmed result happens to have the expected shape",
}
for _k in ("map:new_axis>=input-rank", "map:new_axis-before-several-axes"):
    for _s in ("lazy-shape", "lazy-chunks"):
        PENDING["%s:%s" % (_k, _s)] = "same mechanism, only the declared shape / chunks are trimmed on the wrong axis (boundary 'none')"
BKINDS = ("none", "periodic", "reflect", "nearest", "const")
PADMODE = {"periodic": "wrap", "reflect": "symmetric", "nearest": "edge"}


# ---------------------------------------------------------------------------------------------------------
# case generation
# ---------------------------------------------------------------------------------------------------------
def _chunks_desc(c):
    return [list(a) for a in c]


def cases(tier, seed):
    rng = random.Random(seed * 7937 + 26)
    # ---- complete sub-spaces -------------------------------------------------------------------------
    for ch in A.all_chunkings((6,)):
        for d in (1, 2):
            for b in BKINDS:
                bd = ["const", 7] if b == "const" else b
                base = {"space": "exhaustive", "shape": [6], "chunks": _chunks_desc(ch), "dtype": "int64", "seed": 3,
                        "depth": [d], "dform": "int", "boundary": [bd], "bform": "scalar", "allow_rechunk": True}
                yield dict(base, kind="ident", api="trim_internal")
                yield dict(base, kind="map", api="func", trim=True,
                           fn={"kind": "wsum", "radii": [[d, d]], "wseed": 1})
    for ch in A.all_chunkings((5,)):
        for w in range(1, 6):
            yield {"space": "exhaustive", "kind": "swv", "shape": [5], "chunks": _chunks_desc(ch), "dtype": "int64",
                   "seed": 4, "window": w, "axis": 0, "auto": True}
    # ---- random part ------------------------------------------------------------------------------------
    n = 4000 if tier == "quick" else 90000
    rx = random.Random(seed * 6151 + 2626)          # parameter-audit families: own stream, the older stream is unchanged
    every = 5 if tier == "quick" else 6
    for k in range(n):
        if k % every == every - 1:
            yield _rand_extra(rx)
        kind = rng.choice(("ident", "ident", "map", "map", "map", "map2", "swv", "swv"))
        if kind == "swv":
            yield _rand_swv(rng)
        else:
            yield _rand_overlap(rng, kind)


def _rand_shape(rng, minnd=1, maxnd=3):
    nd = max(rng.choice((1, 1, 2, 2, 3)), minnd)
    return tuple(rng.choice((1, 2, 3, 4, 5, 6, 7, 9)) for _ in range(nd))


def _capped_chunks(rng, shape, cap=64):
    """Random chunking with at most `cap` blocks (keeps every case far below the per-case watchdog)."""
    chunks = list(A.rand_chunks(rng, shape))
    while True:
        nb = 1
        for c in chunks:
            nb *= len(c)
        if nb <= cap:
            return tuple(chunks)
        ax = max(range(len(chunks)), key=lambda a: len(chunks[a]))
        chunks[ax] = A.rand_comp(rng, shape[ax], "two")


def _rand_overlap(rng, kind, shape=None):
    shape = shape or _rand_shape(rng, minnd=2 if kind == "map2" and rng.random() < 0.5 else 1)
    nd = len(shape)
    chunks = _capped_chunks(rng, shape)
    dtype = rng.choice(("int64", "int64", "float64", "int32"))
    uniform = rng.random() < 0.35
    ub = rng.choice(BKINDS)
    boundary, depth = [], []
    asym_ok = rng.random() < 0.45
    ud = rng.randint(1, min(3, min(shape)))
    for ax in range(nd):
        b = ub if uniform else rng.choice(BKINDS)
        if b == "const":
            b = ["const", rng.choice((0, 7, -3) if dtype.startswith("int") else (0, 1.5, "nan", -2))]
        d = ud if uniform else rng.choice((0, 1, 1, 2, 2, 3))
        d = min(d, shape[ax])
        if b == "none" and asym_ok and rng.random() < 0.6:
            d = [rng.randint(0, min(3, shape[ax])), rng.randint(0, min(3, shape[ax]))]
        boundary.append(b)
        depth.append(d)
    if all(_dmax(d) == 0 for d in depth):
        depth[rng.randrange(nd)] = 1
    ints = all(isinstance(d, int) for d in depth)
    dform = rng.choice((["int"] if ints and len(set(depth)) == 1 else []) + ["tuple", "dict"])
    bform = rng.choice((["scalar"] if all(b == boundary[0] for b in boundary) else []) + ["tuple", "dict"])
    case = {"kind": kind, "shape": list(shape), "chunks": _chunks_desc(chunks), "dtype": dtype,
            "seed": rng.randrange(2 ** 31), "depth": depth, "dform": dform, "boundary": boundary, "bform": bform,
            "allow_rechunk": rng.random() < 0.8}
    if kind == "ident":
        case["api"] = rng.choice(("trim_internal", "trim_internal", "trim_overlap"))
        return case
    radii = []
    for d in depth:
        l, r = (d, d) if isinstance(d, int) else d
        if rng.random() < 0.6:
            radii.append([l, r])       # full radius: reaches the far end of the halo
        else:
            radii.append([rng.randint(0, l), rng.randint(0, r)])
    case["fn"] = {"kind": rng.choice(("wsum", "wsum", "max", "min")), "radii": radii, "wseed": rng.randrange(1000)}
    case["api"] = rng.choice(("func", "func", "method")) if kind == "map" else "func"
    all_real = all(b != "none" for b, d in zip(boundary, depth) if _dmax(d) > 0)
    case["trim"] = not (all_real and rng.random() < 0.3)
    case["passdtype"] = rng.random() < 0.3
    if kind == "map2":
        if nd >= 2 and rng.random() < 0.5:
            k = rng.randint(1, nd - 1)         # y has the trailing k axes of x
            yshape = shape[nd - k:]
        else:
            yshape = shape
        case["yshape"] = list(yshape)
        case["ychunks"] = _chunks_desc(_capped_chunks(rng, yshape, cap=24))
        case["align"] = True
        if rng.random() < 0.2:                 # align_arrays=False needs equal block structure
            case["align"] = False
            case["ychunks"] = case["chunks"][nd - len(yshape):]
        case["listspec"] = len(yshape) != nd or rng.random() < 0.5
    return case


# ---- parameter-audit families -----------------------------------------------------------------------------
EXTRA = ("axes", "axes", "axes", "multi", "multi", "deep", "big", "big", "dtypes", "plain", "legacy", "nd4")


def _long_comp(rng, n, small=0):
    k = rng.randint(1, 5)
    cuts = set(rng.sample(range(1, n), k))
    for _ in range(small):                       # short chunks (shorter than the depth) next to long ones
        c = rng.randrange(1, n - 3)
        cuts.update((c, c + rng.randint(1, 3)))
    b = [0] + sorted(cuts) + [n]
    return tuple(y - x for x, y in zip(b, b[1:]))


def _rand_extra(rng):
    fam = rng.choice(EXTRA)
    if fam == "axes":
        # map_overlap(..., drop_axis=, new_axis=): a dropped axis either has depth 0 (any chunking: the function sees the
        # blocks of that axis concatenated) or is one chunk
        while True:
            case = _rand_overlap(rng, "map")
            if len(case["shape"]) >= 2 or rng.random() < 0.4:
                break
        nd = len(case["shape"])
        case.update(trim=True, family="axes")
        ndrop = rng.choice((0, 1, 1, 2)) if nd >= 2 else 0
        ndrop = min(ndrop, nd - 1)
        drop = sorted(rng.sample(range(nd), ndrop))
        for ax in drop:
            if len(case["chunks"][ax]) > 1:
                case["depth"][ax] = 0
                case["fn"]["radii"][ax] = [0, 0]
        if all(_dmax(d) == 0 for d in case["depth"]):
            keep = [ax for ax in range(nd) if ax not in drop]
            ax = rng.choice(keep)
            case["depth"][ax] = 1
            case["fn"]["radii"][ax] = [1, 1]
        ints = all(isinstance(d, int) for d in case["depth"])
        if case["dform"] == "int" and not (ints and len(set(case["depth"])) == 1):
            case["dform"] = "tuple"
        nout = nd - ndrop
        nnew = rng.choice((0, 1, 1, 2)) if ndrop else rng.choice((1, 1, 2))
        new = sorted(rng.sample(range(nout + nnew), nnew))
        case["axes"] = {"drop": drop, "new": new, "dropform": rng.choice(("int", "list", "neg")) if ndrop == 1 else rng.choice(("list", "neg")),
                        "newform": rng.choice(("int", "list")) if nnew == 1 else "list"}
        return case
    if fam == "multi":
        # several inputs: the array of highest rank is NOT the first one, and / or three arrays
        case = _rand_overlap(rng, "map2")
        case["family"] = "multi"
        case["swap"] = rng.random() < 0.7
        if rng.random() < 0.5 or not case["swap"]:
            ysh = case["yshape"]
            case["zchunks"] = case["ychunks"] if not case["align"] else _chunks_desc(_capped_chunks(rng, tuple(ysh), cap=24))
        return case
    if fam == "deep":
        # depth larger than the axis: documented ValueError ("larger than your array"), or the right values
        case = _rand_overlap(rng, rng.choice(("ident", "map")))
        case["family"] = "deep"
        ax = rng.randrange(len(case["shape"]))
        case["depth"][ax] = case["shape"][ax] + rng.randint(1, 2)
        if case["boundary"][ax] == "none" and rng.random() < 0.7:
            case["boundary"][ax] = rng.choice(("periodic", "reflect", "nearest"))
        if case["dform"] == "int":
            case["dform"] = "tuple"
        if case["bform"] == "scalar":
            case["bform"] = "tuple"
        if "fn" in case:
            case["fn"]["radii"][ax] = [1, 1]
            case["trim"] = True
        return case
    if fam == "big":
        # axes of 300-1000 cells, chunks > 255 elements next to chunks shorter than the depth, depths up to 40
        n = rng.choice((300, 520, 777, 1000))
        kind = rng.choice(("ident", "map", "map", "swv"))
        two = rng.random() < 0.4
        m = rng.randint(2, 6)
        long_ax = rng.randrange(2) if two else 0
        shape = ((n, m) if long_ax == 0 else (m, n)) if two else (n,)
        d = rng.choice((1, 5, 17, 40))
        chunks = [None] * len(shape)
        for ax, k in enumerate(shape):
            chunks[ax] = _long_comp(rng, k, small=rng.choice((0, 1, 2))) if ax == long_ax else A.rand_comp(rng, k, rng.choice(("one", "two", "regular")))
        if kind == "swv":
            return {"kind": "swv", "family": "big", "shape": list(shape), "chunks": _chunks_desc(chunks), "dtype": rng.choice(("int64", "int8", "float64")),
                    "seed": rng.randrange(2 ** 31), "window": d + 1, "axis": long_ax - (len(shape) if rng.random() < 0.3 else 0),
                    "auto": rng.random() < 0.7}
        b = rng.choice(BKINDS)
        depth, boundary = [0] * len(shape), ["none"] * len(shape)
        depth[long_ax] = d
        boundary[long_ax] = ["const", 7] if b == "const" else b
        if two and rng.random() < 0.5:
            o = 1 - long_ax
            depth[o], boundary[o] = 1, rng.choice(("none", "periodic", "reflect", "nearest"))
        if b == "none" and rng.random() < 0.5:
            depth[long_ax] = [rng.choice((0, 3, d)), d]
        case = {"kind": kind, "family": "big", "shape": list(shape), "chunks": _chunks_desc(chunks), "dtype": rng.choice(("int64", "float64", "int32")),
                "seed": rng.randrange(2 ** 31), "depth": depth, "dform": rng.choice(("tuple", "dict")), "boundary": boundary,
                "bform": rng.choice(("tuple", "dict")), "allow_rechunk": rng.random() < 0.85}
        if kind == "ident":
            case["api"] = rng.choice(("trim_internal", "trim_overlap"))
            return case
        case["fn"] = {"kind": rng.choice(("wsum", "max", "min")), "radii": [list(_lr(x)) if rng.random() < 0.6 else [rng.randint(0, _lr(x)[0]), rng.randint(0, _lr(x)[1])]
                                                                         for x in depth], "wseed": rng.randrange(1000)}
        case.update(api=rng.choice(("func", "method")), trim=True, passdtype=False)
        return case
    if fam == "dtypes":
        case = _rand_overlap(rng, "ident")
        case["family"] = "dtypes"
        case["dtype"] = dt = rng.choice(("bool", "complex128", "datetime64[ns]", "float32", "uint8", "U2"))
        fix = []
        for b in case["boundary"]:
            if isinstance(b, list):
                b = rng.choice(("nearest", "reflect")) if dt in ("datetime64[ns]", "U2") else ["const", 1 if dt == "bool" else 2]
            fix.append(b)
        case["boundary"] = fix
        if case["bform"] == "scalar" and not all(b == fix[0] for b in fix):
            case["bform"] = "tuple"
        return case
    if fam == "nd4":
        # 4-d arrays with pairwise different lengths
        case = _rand_overlap(rng, rng.choice(("ident", "map", "map")), shape=tuple(rng.sample((1, 2, 3, 4, 5), 4)))
        case["family"] = "nd4"
        return case
    if fam == "plain":
        # depth=None / 0 (plain map_blocks), boundary argument omitted, meta= given
        case = _rand_overlap(rng, "map")
        case["family"] = "plain"
        sub = rng.choice(("nodepth", "noboundary", "meta", "meta"))
        case["sub"] = sub
        if sub == "nodepth":
            case["depth"] = [0] * len(case["shape"])
            case["fn"]["radii"] = [[0, 0]] * len(case["shape"])
            case["dform"] = rng.choice(("none", "int"))
            case["trim"] = True
        elif sub == "noboundary":
            case["boundary"] = ["none"] * len(case["shape"])
            case["bform"] = "omit"
            case["trim"] = True
        return case
    # deprecated signature map_overlap(x, func, depth, boundary, trim)
    case = _rand_overlap(rng, "map")
    case.update(family="legacy", api="legacy", trim=True, passdtype=False)
    return case


def _rand_swv(rng):
    shape = _rand_shape(rng)
    nd = len(shape)
    chunks = _capped_chunks(rng, shape)
    mode = rng.choice(("none", "int", "tuple", "tuple"))
    if mode == "none":
        axis = None
        window = [rng.randint(1, s) for s in shape]
        if nd == 1 and rng.random() < 0.5:
            window = window[0]
    elif mode == "int":
        ax = rng.randrange(nd)
        axis = ax - nd if rng.random() < 0.3 else ax
        window = rng.randint(1, shape[ax])
    else:
        k = rng.randint(1, min(nd + 1, 3))
        axes = [rng.randrange(nd) for _ in range(k)]       # repeats allowed (numpy allows them)
        window, room = [], list(shape)
        for ax in axes:
            w = rng.randint(1, room[ax])
            room[ax] -= w - 1
            window.append(w)
        axis = [a - nd if rng.random() < 0.2 else a for a in axes]
    return {"kind": "swv", "shape": list(shape), "chunks": _chunks_desc(chunks),
            "dtype": rng.choice(("int64", "float64", "int8", "bool")), "seed": rng.randrange(2 ** 31),
            "window": window, "axis": axis, "auto": rng.random() < 0.7}


# ---------------------------------------------------------------------------------------------------------
# stencil functions (harness code) and reference
# ---------------------------------------------------------------------------------------------------------
def _dmax(d):
    return d if isinstance(d, int) else max(d)


def _lr(d):
    return (d, d) if isinstance(d, int) else (d[0], d[1])


def _weights(wseed, ax, l, r):
    r_ = random.Random(wseed * 31 + ax)
    w = [r_.choice((-3, -2, 2, 3, 4, 5)) for _ in range(l + r + 1)]
    w[l] = 1
    # distinct weights left/right so that a mirrored or shifted halo changes the result
    for i in range(len(w)):
        w[i] += i * 7 if i != l else 0
    return w


def _axis_pass(b, ax, l, r, kind, w):
    n = b.shape[ax]
    if kind == "wsum":
        acc = b * b.dtype.type(w[l])
    else:
        acc = b.copy()
    for k in range(-l, r + 1):
        if k == 0 or abs(k) >= n:
            continue
        src = [slice(None)] * b.ndim
        dst = [slice(None)] * b.ndim
        src[ax] = slice(max(k, 0), n + min(k, 0))
        dst[ax] = slice(max(-k, 0), n - max(k, 0))
        src, dst = tuple(src), tuple(dst)
        if kind == "wsum":
            acc[dst] += b[src] * b.dtype.type(w[k + l])
        elif kind == "max":
            acc[dst] = np.maximum(acc[dst], b[src])
        else:
            acc[dst] = np.minimum(acc[dst], b[src])
    return acc


class Stencil:
    """Separable truncated-window stencil; picklable, deterministic, usable on 0-size meta arrays."""

    def __init__(self, spec, offset=0):
        self.spec = spec
        self.offset = offset       # first axis of the block the radii refer to (for the rank-1 partner array)

    def __call__(self, b):
        b = np.asarray(b)
        radii = self.spec["radii"][self.offset:]
        if b.ndim != len(radii):   # meta probes with unexpected rank: leave untouched
            return b
        out = b
        for ax, (l, r) in enumerate(radii):
            if l or r:
                out = _axis_pass(out, ax, l, r, self.spec["kind"], _weights(self.spec["wseed"], ax + self.offset, l, r))
        return out


class SelfTrim:
    """f(b) = stencil(b) with `depth` cells cut off every padded axis (for trim=False)."""

    def __init__(self, st, depth):
        self.st, self.depth = st, depth

    def __call__(self, b):
        out = self.st(b)
        if out.ndim != len(self.depth):
            return out
        sl = tuple(slice(d, out.shape[a] - d) if d and out.shape[a] >= 2 * d else slice(None)
                   for a, d in enumerate(self.depth))
        return out[sl]


class Two:
    """f(bx, by) = Sx(bx) + 2 * Sy(by) (by broadcast on the trailing axes)."""

    def __init__(self, sx, sy):
        self.sx, self.sy = sx, sy

    def __call__(self, bx, by):
        return self.sx(bx) + 2 * self.sy(by)


class AxFn:
    """f(b) = stencil(b) summed over the dropped axes, with length-1 axes inserted at the `new` positions."""

    def __init__(self, st, drop, new, ndim):
        self.st, self.drop, self.new, self.ndim = st, tuple(drop), tuple(sorted(new)), ndim

    def __call__(self, b):
        out = self.st(b)
        if np.ndim(out) != self.ndim:
            return out
        if self.drop:
            out = out.sum(axis=self.drop)
        for a in self.new:
            out = np.expand_dims(out, a)
        return out


class Swapped:
    def __init__(self, fn):
        self.fn = fn

    def __call__(self, a, b, *rest):
        return self.fn(b, a, *rest)


class Three:
    """f(bx, by, bz) = Sx(bx) + 2 * Sy(by) + 3 * Sz(bz)"""

    def __init__(self, two, sz):
        self.two, self.sz = two, sz

    def __call__(self, bx, by, bz):
        return self.two(bx, by) + 3 * self.sz(bz)


def _pad(x, depth, boundary):
    """Pad the whole array axis by axis (axis 0 first, as np.pad does) with each axis' boundary mode."""
    p = x
    for ax, (d, b) in enumerate(zip(depth, boundary)):
        if b == "none" or _dmax(d) == 0:
            continue
        pw = [(0, 0)] * p.ndim
        pw[ax] = (d, d)
        if isinstance(b, list):
            p = np.pad(p, pw, mode="constant", constant_values=_const(b))
        else:
            p = np.pad(p, pw, mode=PADMODE[b])
    return p


def _trim(e, depth, boundary):
    sl = []
    for ax, (d, b) in enumerate(zip(depth, boundary)):
        if b == "none" or _dmax(d) == 0:
            sl.append(slice(None))
        else:
            sl.append(slice(d, e.shape[ax] - d))
    return e[tuple(sl)]


def _const(b):
    return float("nan") if b[1] == "nan" else b[1]


def _bval(b):
    return _const(b) if isinstance(b, list) else b


def _depth_arg(depth, form, rng):
    dv = [d if isinstance(d, int) else tuple(d) for d in depth]
    if form == "none":
        return None
    if form == "int":
        return dv[0]
    if form == "tuple":
        return tuple(dv)
    out = {ax: d for ax, d in enumerate(dv) if _dmax(d) > 0 or rng.random() < 0.5}
    return out


def _boundary_arg(boundary, form, rng):
    bv = [_bval(b) for b in boundary]
    if form == "omit":
        return OMIT
    if form == "scalar":
        if bv[0] == "none" and rng.random() < 0.5:
            return None
        return bv[0]
    if form == "tuple":
        return tuple(bv)
    return {ax: b for ax, b in enumerate(bv) if b != "none" or rng.random() < 0.5}


def _data(seed, shape, dtype):
    r = np.random.default_rng(seed)
    n = int(np.prod(shape))
    if dtype == "bool":
        return (r.integers(0, 2, n) > 0).reshape(shape)
    if dtype == "U2":
        return np.array(["", "a", "bc", "d", "ef"], dtype="U2")[r.integers(0, 5, n)].reshape(shape)
    if dtype == "datetime64[ns]":
        return (r.integers(0, 10, n) * 10 ** 9).astype(dtype).reshape(shape)
    if dtype == "complex128":
        return (r.integers(-3, 4, n) + 1j * r.integers(-3, 4, n)).astype(dtype).reshape(shape)
    if dtype == "uint8":
        return r.integers(0, 20, n).astype(dtype).reshape(shape)
    if dtype.startswith("int"):
        return r.integers(-9, 10, n).astype(dtype).reshape(shape)
    a = (r.integers(-16, 17, n) / 4).astype(dtype)
    if r.random() < 0.25:
        a[r.integers(0, n, 1)] = np.nan
    return a.reshape(shape)


def _features(case):
    f = []
    active = [(b, d) for b, d in zip(case["boundary"], case["depth"]) if _dmax(d) > 0]
    kinds = sorted({b[0] if isinstance(b, list) else b for b, _ in active})
    f.append("bnd=" + "+".join(kinds))
    if any(not isinstance(d, int) and d[0] != d[1] for _, d in active):
        f.append("asym")
    if case.get("small"):
        f.append("chunk<depth")
    if len(case["shape"]) > 1:
        f.append("nd>1")
    fam = case.get("family")
    if fam == "axes":
        f.extend(n for n, on in (("drop_axis", case["axes"]["drop"]), ("new_axis", case["axes"]["new"])) if on)
    elif fam == "multi":
        f.extend(n for n, on in (("highest-rank-not-first", case.get("swap") and len(case["yshape"]) != len(case["shape"])),
                                 ("3-arrays", "zchunks" in case)) if on)
    elif fam == "deep":
        f.append("depth>axis")
    elif fam == "big":
        f.append("chunk>255")
    elif fam == "dtypes":
        f.append("dtype=" + case["dtype"])
    elif fam == "plain":
        f.append({"nodepth": "depth=None|0", "noboundary": "boundary-omitted", "meta": "meta="}[case["sub"]])
    elif fam == "legacy":
        f.append("legacy-signature")
    elif fam == "nd4":
        f.append("4-d")
    return "&".join(f)


# ---------------------------------------------------------------------------------------------------------
# run
# ---------------------------------------------------------------------------------------------------------
def run_case(case, ctx):
    with warnings.catch_warnings():
        warnings.simplefilter("ignore")
        with np.errstate(all="ignore"):
            if case["kind"] == "swv":
                _run_swv(case, ctx)
            else:
                _run_overlap(case, ctx)


def _sig(case):
    return {k: v for k, v in case.items() if k not in ("seed", "space")}


def _run_overlap(case, ctx):
    import dask.array as da
    from dask.array import overlap as ov

    kind = case["kind"]
    shape = tuple(case["shape"])
    chunks = A.chunks_of_desc(case["chunks"])
    depth, boundary = case["depth"], case["boundary"]
    x = _data(case["seed"], shape, case["dtype"])
    dx = da.from_array(x, chunks=chunks)
    frng = random.Random(case["seed"] ^ 0x5EED)
    darg = _depth_arg(depth, case["dform"], frng)
    barg = _boundary_arg(boundary, case["bform"], frng)
    small = any(_dmax(d) > min(c) for d, c in zip(depth, chunks))
    case = dict(case, small=small)
    asym = any(not isinstance(d, int) for d in depth)
    allow = case["allow_rechunk"]
    ctx.sig = _sig(case)
    ctx.nontrivial = any(_dmax(d) > 0 and len(c) >= 2 for d, c in zip(depth, chunks))
    ctx.op("%s:%s" % (kind, case.get("api")))
    for b, d in zip(boundary, depth):
        if _dmax(d) > 0:
            ctx.op("boundary:" + (b[0] if isinstance(b, list) else b))
    if small:
        ctx.count("rechunk_needed")
    if asym:
        ctx.count("asymmetric_depth")
    feat = _features(case)
    if case.get("axes") and case["axes"]["new"]:
        # one label per mechanism of the new_axis bookkeeping in map_overlap (see PENDING); a single new axis with at most
        # one axis behind it keeps the detailed feature label
        new, nkept = case["axes"]["new"], len(shape) - len(case["axes"]["drop"])
        if any(a >= len(shape) for a in new):
            feat = "new_axis>=input-rank"
        elif len(new) >= 2 or nkept - new[0] >= 2:
            feat = "new_axis-before-several-axes"

    # ---- reference -------------------------------------------------------------------------------------
    try:
        if kind == "ident":
            expected = x
        else:
            st = Stencil(case["fn"])
            p = _pad(x, depth, boundary)
            if kind == "map2":
                yshape = tuple(case["yshape"])
                off = len(shape) - len(yshape)
                y = _data(case["seed"] + 1, yshape, case["dtype"])
                sy = Stencil(dict(case["fn"], kind="wsum", wseed=case["fn"]["wseed"] + 1), offset=off)
                fn = Two(st, sy)
                py = _pad(y, depth[off:], boundary[off:])
                if "zchunks" in case:
                    z = _data(case["seed"] + 2, yshape, case["dtype"])
                    fn = Three(fn, Stencil(dict(case["fn"], kind="wsum", wseed=case["fn"]["wseed"] + 2), offset=off))
                    expected = _trim(fn(p, py, _pad(z, depth[off:], boundary[off:])), depth, boundary)
                else:
                    expected = _trim(fn(p, py), depth, boundary)
            elif case.get("axes"):
                axes = case["axes"]
                fn = AxFn(st, axes["drop"], axes["new"], len(shape))
                dout = [d for ax, d in enumerate(depth) if ax not in axes["drop"]]
                bout = [b for ax, b in enumerate(boundary) if ax not in axes["drop"]]
                for a in axes["new"]:
                    dout.insert(a, 0)
                    bout.insert(a, "none")
                expected = _trim(fn(p), dout, bout)
            else:
                fn = st
                expected = _trim(fn(p), depth, boundary)
    except Exception as ex:  # noqa: BLE001
        ctx.reject("numpy reference: %s: %s" % (type(ex).__name__, ex))
        return

    # ---- dask --------------------------------------------------------------------------------------------
    r = None

    def dask_build(depth, boundary, darg, barg):
        """(overlapped array or None, result) for the case's depth/boundary or (sibling facet) for changed ones"""
        g = None
        if kind == "ident":
            g = ov.overlap(dx, darg, barg, allow_rechunk=allow)
            if case["api"] == "trim_overlap":
                r = ov.trim_overlap(g, darg, barg)
            else:
                axes = {ax: (d if isinstance(d, int) else tuple(d)) for ax, d in enumerate(depth)}
                r = ov.trim_internal(g, axes, barg)
        elif kind == "map":
            kw = {"depth": darg, "boundary": barg, "allow_rechunk": allow}
            f = fn
            if not case["trim"]:
                kw["trim"] = False
                f = SelfTrim(fn, [_dmax(d) if b != "none" else 0 for d, b in zip(depth, boundary)])
            if case.get("passdtype"):
                kw["dtype"] = expected.dtype
            if barg is OMIT:
                del kw["boundary"]
            if case.get("sub") == "meta":
                kw["meta"] = np.empty((0,) * expected.ndim, dtype=expected.dtype)
            axes = case.get("axes")
            if axes and axes["drop"]:
                dr = [a - len(shape) for a in axes["drop"]] if axes["dropform"] == "neg" else list(axes["drop"])
                kw["drop_axis"] = dr[0] if axes["dropform"] == "int" or (axes["dropform"] == "neg" and len(dr) == 1) else dr
            if axes and axes["new"]:
                kw["new_axis"] = axes["new"][0] if axes["newform"] == "int" else list(axes["new"])
            if case["api"] == "method":
                r = dx.map_overlap(f, **kw)
            elif case["api"] == "legacy":      # deprecated map_overlap(x, func, depth, boundary, trim)
                r = da.map_overlap(dx, f, darg, barg, True, allow_rechunk=allow)
            else:
                r = da.map_overlap(f, dx, **kw)
        else:
            dy = da.from_array(y, chunks=A.chunks_of_desc(case["ychunks"]))
            if case["listspec"]:
                dl = [darg, _depth_arg(depth[off:], "tuple", frng)]
                bl = [barg, _boundary_arg(boundary[off:], "tuple", frng)]
            else:
                dl, bl = darg, barg
            kw = {"depth": dl, "boundary": bl, "allow_rechunk": allow, "align_arrays": case["align"]}
            if case.get("passdtype"):
                kw["dtype"] = expected.dtype
            arrs, f = [dx, dy], fn
            if "zchunks" in case:
                arrs.append(da.from_array(z, chunks=A.chunks_of_desc(case["zchunks"])))
                if case["listspec"]:
                    dl.append(dl[1])
                    bl.append(bl[1])
            if case.get("swap"):               # the array of highest rank is no longer the first argument
                arrs[0], arrs[1] = arrs[1], arrs[0]
                f = Swapped(fn)
                if case["listspec"]:
                    dl[0], dl[1] = dl[1], dl[0]
                    bl[0], bl[1] = bl[1], bl[0]
            r = da.map_overlap(f, *arrs, **kw)
        return g, r

    try:
        g, r = dask_build(depth, boundary, darg, barg)
        rv = r.compute(scheduler="sync")
    except NotImplementedError as ex:
        ctx.unsupported(str(ex))
        return
    except ValueError as ex:
        small_any = small
        if kind == "map2":       # align_arrays refines all chunkings to the common breakpoints first
            others = [A.chunks_of_desc(case[k]) for k in ("ychunks", "zchunks") if k in case]
            for ax in range(len(others[0])):
                cuts = set(np.cumsum(chunks[ax + off]).tolist())
                for o in others:
                    cuts |= set(np.cumsum(o[ax]).tolist())
                sizes = np.diff([0] + sorted(cuts))
                small_any = small_any or _dmax(depth[ax + off]) > sizes.min()
        if case.get("family") == "deep" and ("is larger than your array" in str(ex) or "allow_rechunk=True" in str(ex)):
            ctx.count("depth_gt_axis_refused")        # documented: "overlapping depth ... larger than your array"
            ctx.sample = {"kind": kind, "raised": "ValueError(depth > axis)"}
            return
        if not allow and small_any and "allow_rechunk=True" in str(ex):
            ctx.count("norechunk_valueerror")     # documented behaviour
            ctx.sample = {"kind": kind, "allow_rechunk": False, "raised": "ValueError(depth > smallest chunk)"}
            return
        ctx.exception(ex, prefix="%s:%s" % (kind, feat))
        return
    except Exception as ex:  # noqa: BLE001
        ctx.exception(ex, prefix="%s:%s" % (kind, feat))
        return

    ctx.count("ident_compared" if kind == "ident" else "map_compared")
    if case.get("family"):
        ctx.count("fam_" + case["family"])
        if case["family"] == "axes":
            for n, on in (("fam_drop_axis", case["axes"]["drop"]), ("fam_new_axis", case["axes"]["new"])):
                if on:
                    ctx.count(n)
    if kind == "map" and not case.get("trim", True):        # (two-array calls are always made with the default trim=True)
        ctx.count("trim_false")
        kind_l = kind + "&trim=False"
    else:
        kind_l = kind
    if not allow:
        ctx.count("norechunk_ran")
    m = compare_arrays(rv, expected, exact=True)
    if m:
        ctx.violation("%s:%s:%s" % (kind_l, feat, m[0]), m[1], depth=repr(darg), boundary=repr(barg),
                      chunks=case["chunks"], lazy_chunks=repr(r.chunks))
    ctx.count("lazy_meta_checked")
    m = None if m else lazy_meta_mismatch(r, rv)      # a wrong computed shape is reported once
    if m:
        ctx.violation("%s:%s:%s" % (kind_l, feat, m[0]), m[1], depth=repr(darg), boundary=repr(barg),
                      chunks=case["chunks"], lazy_chunks=repr(r.chunks))
    ctx.sample = {"kind": kind, "chunks": case["chunks"], "depth": repr(darg), "boundary": repr(barg),
                  "out_chunks": repr(r.chunks)[:80]}
    # ---- sibling facet: the same call with another depth / boundary must not share keys with this one ----------
    # ident: trim(overlap(x)) is x whatever the depth, so the observed pair is the two OVERLAPPED arrays
    sib = None if case.get("family") in ("deep", "axes") else _sibling_overlap(case, shape)
    if sib is not None:
        param, depth2, boundary2 = sib
        srng = random.Random(0)
        ints = all(isinstance(d, int) for d in depth2)
        dform = case["dform"] if (case["dform"] != "int" or (ints and len(set(depth2)) == 1)) else "tuple"
        bform = case["bform"] if (case["bform"] != "scalar" or all(b == boundary2[0] for b in boundary2)) else "tuple"
        bform = "tuple" if bform == "omit" else bform
        darg2, barg2 = _depth_arg(depth2, dform, srng), _boundary_arg(boundary2, bform, srng)
        if dform == "dict":
            darg2 = {ax: (d if isinstance(d, int) else tuple(d)) for ax, d in enumerate(depth2)}
        if bform == "dict":
            barg2 = {ax: _bval(b) for ax, b in enumerate(boundary2)}
        pick = 0 if kind == "ident" else 1
        S.check(ctx, "overlap" if kind == "ident" else "map_overlap", param, (g, r)[pick],
                (lambda: dask_build(depth2, boundary2, darg2, barg2)[pick]), va=None if kind == "ident" else rv,
                describe={"depth": repr(darg2), "boundary": repr(barg2)})


def _sibling_overlap(case, shape):
    """(parameter, depth, boundary) with ONE axis' depth or boundary changed.  map_overlap: the stencil never looks
    further than the case's depth and the halo is trimmed, so a deeper halo gives the same values; the boundary kind
    (or constant) of an axis whose stencil reaches the edge changes them -> preferred there."""
    depth, boundary = [d if isinstance(d, int) else list(d) for d in case["depth"]], list(case["boundary"])
    srng = S.rng_for(case)
    kind = case["kind"]
    isint = case["dtype"].startswith("int")
    active = [ax for ax, d in enumerate(depth) if _dmax(d) > 0]
    if not active:
        return None
    want_boundary = srng.random() < (0.5 if kind == "ident" else 0.8)
    if want_boundary:
        sym = [ax for ax in active if isinstance(depth[ax], int)]      # real boundaries need a symmetric depth
        if kind != "ident":
            reach = [ax for ax in sym if max(case["fn"]["radii"][ax]) > 0]
            sym = reach or sym
        if sym:
            ax = srng.choice(sym)
            cur = boundary[ax]
            curk = cur[0] if isinstance(cur, list) else cur
            if curk == "const" and srng.random() < 0.4:
                b2 = ["const", srng.choice([v for v in ((0, 7, -3) if isint else (0, 1.5, -2)) if v != cur[1]])]
            else:
                k2 = srng.choice([k for k in BKINDS if k != curk and (k != "none" or (kind == "ident" or case.get("trim", True)))])
                b2 = ["const", 7 if isint else 1.5] if k2 == "const" else k2
            boundary[ax] = b2
            return "boundary", depth, boundary
    ax = srng.choice(active)
    d = depth[ax]
    if isinstance(d, int):
        d2 = d + 1 if d + 1 <= shape[ax] else d - 1
        if d2 < 0:
            return None
        depth[ax] = d2
    else:
        i = srng.randrange(2)
        d = list(d)
        d[i] = d[i] + 1 if d[i] + 1 <= shape[ax] else d[i] - 1
        if d[i] < 0:
            return None
        depth[ax] = d
    return "depth", depth, boundary


def _run_swv(case, ctx):
    import dask.array as da

    shape = tuple(case["shape"])
    chunks = A.chunks_of_desc(case["chunks"])
    x = _data(case["seed"], shape, case["dtype"])
    dx = da.from_array(x, chunks=chunks)
    window = case["window"]
    window = tuple(window) if isinstance(window, list) else window
    axis = case["axis"]
    axis = tuple(axis) if isinstance(axis, list) else axis
    ctx.sig = _sig(case)
    ctx.op("swv:axis=" + ("None" if axis is None else "int" if isinstance(axis, int) else "tuple"))
    # per-axis total window extent
    wl = list(window) if isinstance(window, tuple) else [window]
    al = list(range(len(shape))) if axis is None else ([axis] if isinstance(axis, int) else list(axis))
    ext = [0] * len(shape)
    for a, w in zip(al, wl):
        ext[a % len(shape)] += w - 1
    ctx.nontrivial = any(e > 0 and len(c) >= 2 for e, c in zip(ext, chunks))
    small = any(e + 1 > min(c) for e, c in zip(ext, chunks))
    if small:
        ctx.count("rechunk_needed")
    feat = "&".join(f for f, on in (("chunk<window", small), ("window=axis-length", any(e + 1 == s and e for e, s in zip(ext, shape))),
                                     ("repeated-axis", len(set(a % len(shape) for a in al)) < len(al)),
                                     ("auto=False", not case["auto"])) if on) or "plain"
    try:
        expected = np.lib.stride_tricks.sliding_window_view(x, window, axis=axis)
    except Exception as ex:  # noqa: BLE001
        ctx.reject("numpy: %s: %s" % (type(ex).__name__, ex))
        return
    try:
        r = da.lib.stride_tricks.sliding_window_view(dx, window, axis=axis, automatic_rechunk=case["auto"])
        rv = r.compute(scheduler="sync")
    except NotImplementedError as ex:
        ctx.unsupported(str(ex))
        return
    except Exception as ex:  # noqa: BLE001
        ctx.exception(ex, prefix="swv:" + feat)
        return
    ctx.count("swv_compared")
    if case.get("family"):
        ctx.count("fam_" + case["family"])
    m = compare_arrays(rv, expected, exact=True)
    if m:
        ctx.violation("swv:%s:%s" % (feat, m[0]), m[1], chunks=case["chunks"], window=repr(window), axis=repr(axis),
                      lazy_chunks=repr(r.chunks))
    ctx.count("lazy_meta_checked")
    bad = m is not None
    m = None if bad else lazy_meta_mismatch(r, rv)    # a wrong computed shape is reported once
    if m:
        ctx.violation("swv:%s:%s" % (feat, m[0]), m[1], chunks=case["chunks"], window=repr(window), axis=repr(axis),
                      lazy_chunks=repr(r.chunks))
    elif not bad and case["seed"] % 4 == 0:
        ctx.count("blocks_checked")
        m = blocks_mismatch(r)
        if m:
            ctx.violation("swv:%s:%s" % (feat, m[0]), m[1], chunks=case["chunks"], window=repr(window), axis=repr(axis),
                          lazy_chunks=repr(r.chunks))
    ctx.sample = {"kind": "swv", "chunks": case["chunks"], "window": repr(window), "axis": repr(axis),
                  "out_chunks": repr(r.chunks)[:80]}
    # ---- sibling facet: the same view with another window size must not share keys with this one -----------------
    srng = S.rng_for(case)
    i = srng.randrange(len(wl))
    room = shape[al[i] % len(shape)] - ext[al[i] % len(shape)]          # cells left on that axis: window may grow by room-1
    w2 = list(wl)
    w2[i] = wl[i] + 1 if (room > 1 and (wl[i] == 1 or srng.random() < 0.5)) else wl[i] - 1
    if w2[i] >= 1:
        window2 = tuple(w2) if isinstance(window, tuple) else w2[0]
        S.check(ctx, "sliding_window_view", "window", r,
                (lambda: da.lib.stride_tricks.sliding_window_view(dx, window2, axis=axis, automatic_rechunk=case["auto"])),
                va=rv, describe={"window": repr(window2)})
