from . import _schedfam as F
from ._schedmeta import META

PROP = "C02"
globals().update(META[PROP])


def cases(tier, seed):
    return F.cases(tier, seed, PROP)


def run_case(case, ctx):
    return F.run_case(case, ctx, PROP)


shard_finish = F.shard_finish
