"""Metadata (rules, floors, claims) of the scheduler properties C01-C04."""
_RULE = ("cases = graph programs of the harness term language (tasks, literals, aliases, non-task list nodes, nested "
         "list/tuple/dict arguments, nested calls; legacy and task-spec emission). Complete part: every DAG shape on "
         "n<=4 nodes x every node-kind assignment x every non-empty requested-key subset x (num_workers, chunksize) in "
         "{(1,1),(2,1),(3,2),(8,1),(2,-1),(3,-1)} x EVERY completion order the real get_async permits (controlled "
         "executor, stateless DFS, capped per graph/config; capped graphs are counted). Sampled part: n=5,6 shapes, random "
         "programs up to 30 (thorough 80) nodes under random/PCT schedules, real thread pools (1-8 threads, task delays, "
         "sys.monitoring yield injection in dask/local.py), sync, compute(scheduler=Executor), spawn process pool. "
         "non-trivial = >=2 nodes and >=1 edge; distinct = distinct (shape, kinds, form, keys) / program seed; "
         "completion_orders and scheduler_states are counted separately. ")
_ASSUME = ["the harness evaluator defines the denotation of a program; legacy emission uses only documented forms "
           "(tuple calls, lists, (dict, [[k, v]]), literal-wrapped data)",
           "dask.local.Queue is rebound in the harness process (hit counter > 0 is enforced by a floor)",
           "cache= starts empty (pre-seeded caches are outside the statement)"]
_BUD = {"quick": 40, "thorough": 600}


def _floors(q_runs, t_runs, extra_q=None, extra_t=None):
    q = {"evaluations": 600, "distinct_nontrivial": 400,
         "counters": {"controlled_runs": q_runs, "queue_rebinding_hits": q_runs, "pool_runs": 60},
         "sets": {"completion_orders": q_runs // 3}}
    t = {"evaluations": 6000, "distinct_nontrivial": 4000,
         "counters": {"controlled_runs": t_runs, "queue_rebinding_hits": t_runs, "pool_runs": 1000},
         "sets": {"completion_orders": int(t_runs * 0.6)}}
    q["counters"].update(extra_q or {})
    t["counters"].update(extra_t or {})
    return {"quick": q, "thorough": t}


_SPACE = {"quick": "all DAG shapes on n<=4 nodes x all node-kind assignments (alternating legacy/task-spec form) x all "
                   "non-empty requested-key subsets x 6 (workers, batch) settings x all completion orders (graphs whose "
                   "order count exceeds the cap are reported under graphs_capped)",
          "thorough": "same with both graph forms and cap 20000 orders per graph/config"}

META = {
    "C01": dict(
        RULE=_RULE + "Oracle: returned value (and nesting) == harness evaluation.",
        ASSUMPTIONS=_ASSUME, BUDGET=_BUD, FLOORS=_floors(100000, 540000), EXHAUSTIVE_SPACE=_SPACE,
        CLAIM="Every observed scheduler call (controlled executor over all completion orders of all small graphs; random "
              "schedules of larger graphs; real thread and process pools with injected delays/yields; sync; custom "
              "Executor through dask.compute) returned exactly the value and nesting the harness evaluator assigns to "
              "the request. Held = no counterexample among these executions.",
        LEVEL_NOTE="trusts the 40-line harness evaluator and that the controlled executor only reorders completions (it "
                   "runs the real get_async unmodified)",
        TECHNIQUE="runtime monitoring: value oracle over executions of the real get_async under a controlled executor "
                  "enumerating completion orders + real pools with yield injection",
        DESIGN_REF="DESIGN.md 4.1-4.3, 5 C01"),
    "C02": dict(
        RULE=_RULE + "Oracle: event history (task start/end with argument digests, pretask/posttask, cache set) vs "
                     "reference model: needed tasks exactly once, others never, dispatch only after dependencies stored, "
                     "arguments received == digests of the dependencies' values.",
        ASSUMPTIONS=_ASSUME, BUDGET=_BUD, FLOORS=_floors(100000, 540000), EXHAUSTIVE_SPACE=_SPACE,
        CLAIM="In every observed scheduler call the recorded history (one logical clock) shows each needed task started "
              "exactly once, no unneeded task started, every dispatch happened after all dependency results were stored, "
              "and each task function received exactly its dependencies' values (argument digests).",
        LEVEL_NOTE="history recorded at the boundary: harness task functions, cache= mapping, callbacks= tuple; the "
                   "reference model reads dependencies from the harness program only",
        TECHNIQUE="runtime monitoring: recorded event history checked against an executable reference model "
                  "(exactly-once, happens-after, argument digests) over enumerated completion orders and real pools",
        DESIGN_REF="DESIGN.md 4.3, 5 C02"),
    "C03": dict(
        RULE=_RULE + "Oracle: cache set/get/del history vs reference model: no del before all needed dependents stored, "
                     "never del a requested key, no read after del, cache at return == requested keys, state['released'] "
                     "== observed deletions.",
        ASSUMPTIONS=_ASSUME, BUDGET=_BUD, FLOORS=_floors(100000, 540000), EXHAUSTIVE_SPACE=_SPACE,
        CLAIM="In every observed scheduler call the tracing cache (the scheduler's own result store) shows no result "
              "deleted before all its needed dependents had results, no requested key deleted, no read of a deleted "
              "key, and at return exactly the requested keys left. The property's 'model-checked abstract model' is not "
              "claimed: the model here only monitors real traces.",
        LEVEL_NOTE="TracingCache passed as cache= is updated only by the scheduler thread; leak rule asserted at return only",
        TECHNIQUE="runtime monitoring: conservation / no-use-after-release checker over the recorded cache history of the "
                  "real scheduler, all completion orders of small graphs + sampled schedules + real pools",
        DESIGN_REF="DESIGN.md 4.3, 5 C03"),
    "C04": dict(
        RULE=_RULE + "Failing variant: every single failing call node in every small shape (complete), 1-3 failing nodes "
                     "in sampled/random programs; exception classes ValueError, KeyError, ZeroDivisionError, a harness "
                     "Exception with extra constructor args, a BaseException subclass, an unpicklable exception (process "
                     "pool). Oracle: call raises; type is (a subclass of) a failing task that actually ran and carries its "
                     "message; no descendant of a failing node started; finish fired once with failed=True; no logical hang.",
        ASSUMPTIONS=_ASSUME + ["a hang is decided logically under the controlled executor (queue empty, nothing pending); "
                               "under real pools only a wall watchdog exists and it yields inconclusive"],
        BUDGET=_BUD, FLOORS=_floors(60000, 800000), EXHAUSTIVE_SPACE={
            "quick": "every choice of one failing call node in every DAG shape on n<=4 nodes x kind assignments x request "
                     "subsets needing it x 6 settings x all completion orders",
            "thorough": "same, both graph forms, cap 20000"},
        CLAIM="For every observed failing execution the call raised an exception of the failing task's type carrying its "
              "message, no task downstream of a failing task started (pools drained before the verdict), finish callbacks "
              "fired exactly once with the failure flag, and the controlled scheduler never waited with nothing in flight.",
        LEVEL_NOTE="real KeyboardInterrupt/SystemExit are not raised; 'never hangs' is bounded progress under the controlled "
                   "executor, watchdog->inconclusive under real pools",
        TECHNIQUE="runtime monitoring with fault injection: failing tasks at every position, exception/ordering/finish "
                  "history checked over all completion orders; logical hang detection",
        DESIGN_REF="DESIGN.md 5 C04"),
}
