"""C49 — bag sampling returns valid samples reproducibly.

Statement (fixed, /verif/properties.jsonl): ``bag.random.sample(b, k)`` returns k
elements drawn without replacement: a sub-multiset of b, or all of b when k
exceeds its size, as documented.  ``bag.random.choices`` returns k elements of
b.  ``random_sample`` with a fixed ``random_state`` returns the same
subsequence on every scheduler and recomputation.

What the code documents (``/repo/dask/bag/random.py``)::

    def sample(population, k, split_every=None):
        '''Chooses k unique random elements from a bag.

        Returns a new bag containing elements from the population while
        leaving the original population unchanged.
        ...
        k: integer, optional
            Number of elements to sample.'''

    def choices(population, k=1, split_every=None):
        '''Return a k sized list of elements chosen with replacement.'''

and ``_sample_reduce`` contains ``if k > n and not replace: return s, n`` (the
whole population is handed on when k exceeds it) while ``_finalize_sample``
raises ``ValueError("Sample larger than population")`` for the same input.
``Bag.random_sample``: "random_state : int or random.Random, optional. If an
integer, will be used to seed a new random.Random object. If provided, results
in deterministic sampling." (docstring example: the same call twice gives the
same list.)

Monitor (every call of the real API is observed):

* ``sample(b, k, split_every)``: the computed list has ``min(k, len(b))``
  elements and is a sub-multiset of the population (type-aware canonical
  multiset comparison, dicts included).  Any exception for 0 <= k is a witness.
* ``choices(b, k, split_every)`` on NON-EMPTY b: exactly k elements, each equal
  to an element of b.  (Empty populations are outside the statement: Python's
  own ``random.choices([], k=1)`` raises.)
* ``b.random_sample(prob, random_state)`` with int / ``random.Random`` state:
  result is an order-preserving subsequence of the input; equal on sync,
  threads, processes (reused spawn pool, 1 random_sample case in 40), on recomputation of
  the same collection and on rebuilding the collection with the same state.

Nothing about the *distribution* of samples is demanded: the statement does
not speak about it.

Calibration (unchanged tree):

* ``sample(b, 0)`` raised ZeroDivisionError (``math.log(..)/k``) — genuine; repaired in /repo (3c51c4c), see FIXED.
* ``sample(b, k > len(b))`` raises ValueError instead of returning all of b —
  contradicts the statement, PENDING (the pinned test-suite expects the error).
* ``choices(b, 0)`` raised ``ValueError: min() arg is an empty sequence`` — genuine; repaired in /repo (3c51c4c), see FIXED.
* no oracle corrections were necessary (no false alarms seen).
"""
from __future__ import annotations

import itertools
import random
import time

from vf.gen import bags as G

PROP = "C49"
RULE = ("cases = (function, population, partitioning, parameters) rebuilt from a case seed; complete sub-space first: "
        "every split of a population of n<=4 distinct ints into p<=3 from_delayed partitions (empty ones included) x "
        "every k in 0..n+3 x split_every in {None,2} for sample and choices; then seeded random populations of "
        "ints/strings/tuples/dicts with duplicates (0-40 elements), from_sequence(npartitions|partition_size) and "
        "from_delayed layouts with empty partitions, k in {0,1,n-1,n,n+1,n+3}+random, split_every in {None,2,3,8}; "
        "random_sample with prob in {0,1,random}, int or random.Random state, on sync/threads(/processes), recomputed and rebuilt; "
        "non-trivial = non-empty population; distinct = distinct (function, population, layout, parameters)")
ASSUMPTIONS = ["CPython's random module and collections.Counter", "dask.delayed builds the partitions the harness wrote"]
BUDGET = {"quick": 40, "thorough": 480}
# floors: ~45 % of the counts measured on the unchanged tree for the full quick stream (107 exhaustive + 4000 random cases);
# thorough = 100000 random cases of the same mixture (x25), floored at x22 of the quick floors
_QUICK_COUNTERS = {
    "sample_calls": 5000, "choices_calls": 2700, "random_sample_computes": 3600, "sample_k_gt_n": 1700, "sample_k_eq_0": 750,
    "sample_0_lt_k_le_n_ok": 2500, "choices_ok": 2300, "empty_partition_cases": 900, "threads_runs": 2300, "processes_runs": 65,
    "multi_level_reduce": 2900, "subsequence_ok": 700, "same_recompute": 700, "same_rebuild": 700, "same_threads": 700,
    "same_rebuild_threads": 700, "same_computed_with_sibling_samples": 700, "same_threads_interleaved": 450, "random_sample_with_siblings": 700, "same_processes": 15, "same_rebuild_processes": 15,
}
FLOORS = {
    "quick": {"evaluations": 1800, "distinct_nontrivial": 1600, "counters": _QUICK_COUNTERS, "max_skipped_fraction": 0.1},
    "thorough": {"evaluations": 40000, "distinct_nontrivial": 35000, "counters": {k: v * 22 for k, v in _QUICK_COUNTERS.items()},
                 "max_skipped_fraction": 0.1},
}
EXHAUSTIVE_SPACE = ("every split of a population of n<=4 distinct ints into p<=3 from_delayed partitions (empty partitions "
                    "included: 55 layouts) x every k in 0..n+3 x split_every in {None,2}, for bag.random.sample and "
                    "bag.random.choices (choices: n>=1)")
LEVEL_NOTE = "trusts CPython's random/collections and that from_delayed partitions are what the harness wrote; distribution of samples is not examined"
CLAIM = ("Every computed sample / choices / random_sample result on the generated populations (complete small space of "
         "partitionings incl. empty partitions, plus random populations with duplicates up to 40 elements) was checked to be "
         "a sub-multiset of the right size (sample), k members of the population (choices), or an order-preserving subsequence "
         "that is identical on sync/threads/processes, on recomputation and on rebuilding with the same random_state "
         "(random_sample). Held means: no counterexample among the executions observed, except the recorded findings.")
TECHNIQUE = "runtime monitoring: multiset/subsequence oracle on computed samples + cross-scheduler/recompute equality, complete small layout space + random"
CASE_TIMEOUT = 120

# genuine defects seen on the unchanged tree (see /verif/findings_proposed/C49.md)
PENDING = {
    "sample:k>len(b):ValueError@bag/random.py:_finalize_sample":
        "bag.random.sample(b, k) with k > len(b) raises ValueError('Sample larger than population') instead of returning all of b",
}
# reported from the pinned tree and since repaired in /repo (commit 3c51c4c); the labels must not reappear
FIXED = {
    "sample:k==0:ZeroDivisionError@bag/random.py:_sample_map_partitions":
        "bag.random.sample(b, 0) raised ZeroDivisionError (math.log(rnd.random()) / k) instead of returning []",
    "choices:k==0:ValueError@bag/random.py:_sample_with_replacement_map_partitions":
        "bag.random.choices(b, 0) raised ValueError (min() of empty sequence) instead of returning []",
}

SPLITS = (None, 2, 3, 8)
_POOL = None


def _compositions(n, p):
    """all lists of p non-negative ints summing to n"""
    if p == 1:
        yield [n]
        return
    for a in range(n + 1):
        for rest in _compositions(n - a, p - 1):
            yield [a] + rest


def cases(tier, seed):
    # --- complete sub-space ---------------------------------------------------
    for fn in ("sample", "choices"):
        for n in range(0, 5):
            if fn == "choices" and n == 0:
                continue
            for p in (1, 2, 3):
                for lens in _compositions(n, p):
                    yield {"space": "exhaustive", "fn": fn, "lens": lens, "cs": n * 1000 + p}
    # --- seeded random ----------------------------------------------------------
    rng = random.Random(seed * 104729 + 49)
    k = 4000 if tier == "quick" else 100000
    for i in range(k):
        fn = ("sample", "sample", "choices", "random_sample", "random_sample")[i % 5]
        case = {"fn": fn, "cs": rng.randrange(2 ** 31)}
        if fn == "random_sample" and i % 100 == 3:
            case["proc"] = True
        elif fn != "random_sample" and i % 400 == 1:
            case["proc"] = True
        yield case


def shard_setup(tier, seed):
    import warnings

    warnings.simplefilter("ignore")


def shard_finish():
    global _POOL
    if _POOL is not None:
        _POOL.shutdown()
        _POOL = None
    return {}


def _pool():
    global _POOL
    if _POOL is None:
        import multiprocessing
        from concurrent.futures import ProcessPoolExecutor

        _POOL = ProcessPoolExecutor(2, mp_context=multiprocessing.get_context("spawn"))
    return _POOL


def _yielding_identity(x):
    """Identity that hands the GIL over: put (lazily) in front of a sampling step it makes the per-partition sampling
    generators of different threads interleave element by element."""
    time.sleep(0)
    return x


def _compute(coll, sched):
    if sched == "threads-interleaved":
        return coll.compute(scheduler="threads", num_workers=4)
    if sched == "processes":
        return coll.compute(scheduler="processes", pool=_pool())
    return coll.compute(scheduler=sched)


def _classify(ctx, exc, prefix, sched, sync_thunk, **detail):
    """Label an exception by the dask frame that raised it.  Pool schedulers re-raise
    in the parent (frame multiprocessing.py:reraise / local.py), so the same call is
    repeated on the synchronous scheduler to find the raising frame; only if that
    succeeds is the failure specific to the scheduler."""
    if sched != "sync":
        try:
            sync_thunk()
        except Exception as e2:  # noqa: BLE001
            if isinstance(exc, type(e2)):   # pool schedulers re-raise a subclass of the original type
                ctx.exception(e2, prefix=prefix, scheduler=sched, **detail)
                return
        ctx.exception(exc, prefix=prefix + ":only-on-" + sched, **detail)
        return
    ctx.exception(exc, prefix=prefix, **detail)


def _kclass(k, n):
    if k == 0:
        return "k==0"
    if k > n:
        return "k>len(b)"
    if k == n:
        return "k==len(b)"
    return "0<k<len(b)"


def _pre(rng, bag, parts):
    """optionally put an elementwise step in front (fused/lazified partitions reach the sampler as iterators)"""
    r = rng.random()
    if r < 0.2:
        return bag.map(G._ident), "map"
    if r < 0.3:
        return bag.filter(_true), "filter"
    return bag, "plain"


def _true(x):
    return True


def run_case(case, ctx):
    import dask.bag as db  # noqa: F401
    from dask.bag import random as dbr

    fn = case["fn"]
    rng = random.Random(case["cs"])
    if case.get("space") == "exhaustive":
        lens = case["lens"]
        n = sum(lens)
        L = list(range(n))
        layout = {"style": "delayed", "lens": lens, "how": "call"}
        ks = list(range(0, n + 4))
        splits = (None, 2)
        kind = "I"
        pre = "plain"
        bag, parts = G.build_bag(L, layout)
    else:
        kind = rng.choice(("I", "I", "S", "P", "D"))
        L = G.gen_seq(rng, kind, 40, nmin=1 if fn == "choices" else 0)
        n = len(L)
        layout = G.gen_layout(rng, n)
        bag, parts = G.build_bag(L, layout)
        bag, pre = _pre(rng, bag, parts)
        ks = sorted({0, 1, max(n - 1, 0), n, n + 1, n + 3, rng.randint(0, n + 3), rng.randint(0, n + 3)})
        splits = (rng.choice(SPLITS),)
    if parts is None:
        parts = G.parts_of(bag)
        if G.multiset(itertools.chain.from_iterable(parts)) != G.multiset(L) or \
                [G.canon(x) for p in parts for x in p] != [G.canon(x) for x in L]:
            ctx.violation("from_sequence:%s:values" % layout["style"], "partitions %r do not concatenate to %r" % (parts, L))
            return
    nparts = len(parts)
    has_empty = any(len(p) == 0 for p in parts)
    if has_empty:
        ctx.count("empty_partition_cases")
    ctx.nontrivial = n > 0
    ctx.sig = (fn, [G.canon(x) for x in L], [len(p) for p in parts], layout["style"], pre, case["cs"] if fn == "random_sample" else 0)
    ctx.op("fn:" + fn)
    ctx.op("layout:" + layout["style"] + (":with-empty" if has_empty else ""))
    ctx.op("kind:" + kind)
    pop = G.multiset(L)
    sched = "sync"
    if case.get("proc"):
        sched = "processes"
    elif rng.random() < 0.12:
        sched = "threads"

    if fn in ("sample", "choices"):
        f = getattr(dbr, fn)
        seen = []
        for se in splits:
            for k in ks:
                kc = _kclass(k, n) if fn == "sample" else ("k==0" if k == 0 else "k>=1")
                ctx.count(fn + "_calls")
                ctx.op("%s:%s" % (fn, kc))
                eff = 8 if se is None else se
                if nparts > eff:
                    ctx.count("multi_level_reduce")
                if sched != "sync":
                    ctx.count(sched + "_runs")
                if fn == "sample" and k == 0:
                    ctx.count("sample_k_eq_0")
                elif fn == "sample" and k > n:
                    ctx.count("sample_k_gt_n")
                random.seed(case["cs"] * 131 + k)      # dask's sampler draws from the global module
                try:
                    r = _compute(f(bag, k, split_every=se), sched)
                except NotImplementedError as e:
                    ctx.unsupported(str(e))
                    return
                except Exception as e:  # noqa: BLE001
                    _classify(ctx, e, "%s:%s" % (fn, kc), sched, lambda: f(bag, k, split_every=se).compute(scheduler="sync"),
                              k=k, n=n, lens=[len(p) for p in parts], split_every=se)
                    continue
                if not isinstance(r, list):
                    ctx.violation("%s:%s:type" % (fn, kc), "result %r is not a list" % (r,))
                    continue
                got = G.multiset(r)
                if fn == "sample":
                    want = min(k, n)
                    if len(r) != want:
                        ctx.violation("sample:%s:size" % kc, "sample(b,%d) on %d elements returned %d elements: %r"
                                      % (k, n, len(r), r), lens=[len(p) for p in parts], split_every=se, population=L)
                    elif got - pop:
                        ctx.violation("sample:%s:not-a-sub-multiset" % kc,
                                      "sample(b,%d) returned %r; not drawn without replacement from %r" % (k, r, L),
                                      lens=[len(p) for p in parts], split_every=se)
                    elif 0 < k <= n:
                        ctx.count("sample_0_lt_k_le_n_ok")
                else:
                    if len(r) != k:
                        ctx.violation("choices:%s:size" % kc, "choices(b,%d) returned %d elements: %r" % (k, len(r), r),
                                      lens=[len(p) for p in parts], split_every=se, population=L)
                    elif any(c not in pop for c in got):
                        ctx.violation("choices:%s:not-elements-of-b" % kc, "choices(b,%d) returned %r; population %r" % (k, r, L),
                                      lens=[len(p) for p in parts], split_every=se)
                    else:
                        ctx.count("choices_ok")
                if len(seen) < 3 and r:
                    seen.append({"k": k, "split_every": se, "result": r[:6]})
        ctx.sample = {"population": L[:10], "lens": [len(p) for p in parts], "scheduler": sched, "results": seen}
        return

    # ---- Bag.random_sample ---------------------------------------------------
    prob = rng.choice((0.0, 1.0, 0.5, rng.random(), rng.random(), rng.random()))
    sd = rng.randrange(2 ** 20)
    mode = rng.choice(("int", "int", "Random"))

    def state():
        return sd if mode == "int" else random.Random(sd)

    feat = "state=" + mode
    ctx.op("random_sample:" + feat)
    try:
        rs = bag.random_sample(prob, state())
        ctx.count("random_sample_computes")
        r1 = _compute(rs, "sync")
    except NotImplementedError as e:
        ctx.unsupported(str(e))
        return
    except Exception as e:  # noqa: BLE001
        ctx.exception(e, prefix="random_sample:" + feat, prob=prob, lens=[len(p) for p in parts])
        return
    c1 = [G.canon(x) for x in r1]
    if not isinstance(r1, list) or not G.is_subsequence(r1, L):
        ctx.violation("random_sample:%s:not-a-subsequence" % feat, "random_sample(%r, %r) = %r is not a subsequence of %r"
                      % (prob, sd, r1, L), lens=[len(p) for p in parts])
    else:
        ctx.count("subsequence_ok")
    runs = [("recompute", lambda: _compute(rs, "sync")),
            ("rebuild", lambda: _compute(bag.random_sample(prob, state()), "sync")),
            ("threads", lambda: _compute(rs, "threads")),
            ("rebuild-threads", lambda: _compute(bag.random_sample(prob, state()), "threads"))]

    def with_siblings():
        # recomputed in one graph with other samples of the same bag (same state and another prob; same prob and
        # another state): every sample must still be its own stand-alone result
        import dask

        p2 = 1.0 - prob if abs(prob - 0.5) > 0.05 else 0.9
        sib1 = bag.random_sample(p2, state())
        sib2 = bag.random_sample(prob, sd + 1)
        alone = [_compute(sib1, "sync"), _compute(sib2, "sync")]
        a, mine, b = dask.compute(sib1, rs, sib2, scheduler="sync")
        ctx.count("random_sample_with_siblings")
        if [G.canon(x) for x in a] != [G.canon(x) for x in alone[0]] or [G.canon(x) for x in b] != [G.canon(x) for x in alone[1]]:
            return ["<sibling sample changed when computed together>"]
        return mine

    runs.append(("computed-with-sibling-samples", with_siblings))
    if len(parts) >= 2:
        # the same sample behind a lazy, GIL-yielding map, on 4 threads: the partitions are sampled at overlapping times
        runs.append(("threads-interleaved", lambda: _compute(bag.map(_yielding_identity).random_sample(prob, state()),
                                                              "threads-interleaved")))
    if case.get("proc"):
        runs.append(("processes", lambda: _compute(rs, "processes")))
        runs.append(("rebuild-processes", lambda: _compute(bag.random_sample(prob, state()), "processes")))
    for name, thunk in runs:
        ctx.count("random_sample_computes")
        if "threads" in name:
            ctx.count("threads_runs")
        if "processes" in name:
            ctx.count("processes_runs")
        try:
            r2 = thunk()
        except Exception as e:  # noqa: BLE001
            ctx.exception(e, prefix="random_sample:%s:%s" % (feat, name), prob=prob)
            continue
        if [G.canon(x) for x in r2] != c1:
            ctx.violation("random_sample:%s:%s-differs" % (feat, name),
                          "random_sample(%r, random_state=%r): sync gave %r, %s gave %r" % (prob, sd, r1, name, r2),
                          lens=[len(p) for p in parts], population=L)
        else:
            ctx.count("same_" + name.replace("-", "_"))
    ctx.sample = {"population": L[:10], "lens": [len(p) for p in parts], "prob": prob, "state": mode, "result": r1[:8]}
