"""C17 — configuration changes are scoped, atomic and spelling-insensitive.

Monitor (histories): a *history* is a sequence of operations ``enter(call)`` /
``exit`` on properly nested ``dask.config.set`` contexts, run against a private
``config=`` dict or against the global ``dask.config.config`` (planted keys,
removed and verified afterwards).  Every history is replayed from a fresh copy
of one of eight initial states (empty; prefix holding a scalar; nested dicts in
hyphen or underscore spelling; middle of a path holding a scalar; ``None`` and
``{}`` values; a list in the middle of a path; a string prefix that contains
the next segment as a substring).  A *call* is one ``dask.config.set(arg, **kwargs)`` invocation
from a fixed alphabet of 44 calls over 12 dotted keys built from three segments
in both spellings, with scalar and dict values, duplicate / conflicting keys in
one call and the ``a__b=`` keyword form.  Observations on the real API:

* after every ``__exit__`` the config deep-equals the deep copy taken right
  before the matching ``set(...)`` (any nesting; the remaining contexts are
  unwound at the end of the history and checked the same way);
* a ``set(...)`` that raises leaves the config deep-equal to the copy taken
  right before it;  a ``set(...)`` that raises although no path of the call runs
  through a non-dict value is itself a violation;
* right after a successful ``set`` every key of the call is read back with
  ``config.get`` under the spelling used, the opposite spelling and the
  all-hyphen spelling and must give the value set (last writer within the call,
  computed by a 12-line nested-assignment model on a spelling-normalised copy).

Other monitors: ``update`` (three priorities) and ``merge`` against a 15-line
reference of the documented precedence; ``collect_env`` on random ``DASK_*``
environments against the documented mapping (lower-case, ``__`` nests,
``ast.literal_eval`` values, other variables ignored, inherited serialized
config included); ``deserialize(serialize(x)) == x`` on random JSON-like data.
Comparisons of key names are modulo ``-``/``_`` (the spelling stored is whichever
came first, by design).

Calibration (unchanged tree)
----------------------------
* ``collect_env``'s docstring shows ``DASK_FOO__BAR_BAZ`` -> ``{"foo": {"bar-baz": ..}}``
  while the stored key is ``bar_baz``; since ``get`` treats both spellings
  identically the oracle compares modulo spelling (no alarm).
* ``update(priority='old'|'new-defaults')`` replaces a scalar/None in ``old`` by a
  dict when ``new`` has a mapping there, and descends into ``defaults`` without
  checking its type: both are outside the documented precedence, so for these
  priorities old/new/defaults are generated from one schema (a path is a leaf in
  all three or a mapping in all three).  Arbitrary conflicts are generated for
  priority 'new' and ``merge``.
* ``collect_env`` also stores the raw ``DASK_INTERNAL_INHERIT_CONFIG`` string
  under ``internal_inherit_config``; undocumented either way, ignored.
* YAML-style words (``true``/``null``...) are mapped by ``interpret_value`` but
  are not part of the documented rule; they are not generated.
* A first version compared ``collect_env`` results literally and a mutant that
  only rewrote ``_`` to ``-`` in the variable name went unnoticed by design of the
  spelling-insensitive comparison; it was replaced by a mutant that changes the
  documented mapping (``DASK`` prefix without underscore).
* Genuine defect (``PENDING``, /verif/findings_proposed/C17.md): a ``set`` call
  whose later key raises leaves the earlier keys of the same call applied.  With
  the proposed two-hunk fix applied to a scratch copy the complete quick space is
  held; with only the "roll back in __init__" hunk the monitor still fires from
  the initial states with a list / str in the path (the undo of a recorded but
  never applied operation raises).
"""
from __future__ import annotations

import ast
import copy
import itertools
import random

PROP = "C17"
RULE = ("cases = (a) subtrees of the history space: all op sequences (enter(call) | exit, exits only inside a context, last op an "
        "enter, remaining contexts unwound) that start with a given prefix, over a call alphabet (44 calls 'full', 12 calls "
        "'reduced') x 8 initial states x {private config= dict, global dask.config.config}; (b) seeded random histories of "
        "length 4-6; (c) batches of random nested dicts for update/merge, random DASK_* environments, random JSON-like data. "
        "non-trivial = at least one set call executed / one comparison made; distinct = distinct case descriptions; "
        "distinct config states reached are counted separately")
ASSUMPTIONS = ["copy.deepcopy and dict equality are the snapshot oracle", "ast.literal_eval is the documented value parser",
               "the global config is only touched under planted 'vf*' keys and verified unchanged after every case"]
BUDGET = {"quick": 90, "thorough": 540}
FLOORS = {
    "quick": {"evaluations": 1100, "distinct_nontrivial": 1100,
              "counters": {"histories": 440000, "histories_private": 415000, "histories_global": 14000, "set_calls": 1200000,
                           "exits_checked": 600000, "raising_sets_checked": 450000, "get_checks": 2800000,
                           "global_config_verifications": 220, "update_checks": 4000, "merge_checks": 1300,
                           "collect_env_checks": 2700, "serialize_roundtrips": 1350},
              "sets": {"config_states": 4800, "random_histories": 9500}},
    "thorough": {"evaluations": 7200, "distinct_nontrivial": 7200,
                 "counters": {"histories": 7400000, "histories_private": 6900000, "histories_global": 210000, "set_calls": 24000000,
                              "exits_checked": 12600000, "raising_sets_checked": 9000000, "get_checks": 60000000,
                              "global_config_verifications": 1100, "update_checks": 100000, "merge_checks": 33000,
                              "collect_env_checks": 67000, "serialize_roundtrips": 33000},
                 "sets": {"config_states": 12900, "random_histories": 175000}},
}
EXHAUSTIVE_SPACE = {
    "quick": ("private config= dict: all histories of <= 3 operations over the full alphabet of 44 set-calls and all histories of "
              "<= 4 operations over the reduced alphabet of 12 set-calls, from each of the 8 initial states; global "
              "dask.config.config: all histories of <= 2 operations (full alphabet) and <= 3 (reduced alphabet) from each of "
              "the 8 initial states. (operation = enter(call) or exit; histories end with an enter and are then unwound)"),
    "thorough": ("private config= dict: all histories of <= 3 operations over the full alphabet of 44 set-calls and all histories of "
                 "<= 5 operations over the reduced alphabet of 12 set-calls, from each of the 8 initial states, and all histories "
                 "of <= 4 operations over the full alphabet from the initial states empty / prefix-scalar / nested-hyphen; global "
                 "dask.config.config: all histories of <= 3 operations (full alphabet, the same 3 initial states) and <= 4 "
                 "(reduced alphabet, all 8 initial states)"),
}
LEVEL_NOTE = "trusts deepcopy/dict equality, ast.literal_eval, json and the harness's own 15-line update and 12-line assignment models"
CASE_TIMEOUT = 600

P1, P2, Q1, Q2, R1, R2 = "vfa-x", "vfa_x", "vfb-y", "vfb_y", "vfc-z", "vfc_z"
KEYS = [P1, P2, Q1, Q2,
        P1 + "." + Q1, P2 + "." + Q2, P1 + "." + Q2,
        P1 + "." + Q1 + "." + R1, P2 + "." + Q2 + "." + R2, P2 + "." + Q1 + "." + R2,
        P1 + "." + R1, P2 + "." + R2]


def _dictval(key, n):
    depth = key.count(".")
    top = key.split(".")[0]
    if depth == 0 and top in (P1, P2):
        return {Q2: {R1: n}} if top == P1 else {Q1: {R2: n}, "extra": n + 1}
    if depth == 0:
        return {R2: n}
    if depth == 1 and key.split(".")[1] in (Q1, Q2):
        return {R1: n} if key.startswith(P1 + "." + Q1) else {R2: n}
    return {"leaf": n}


def _mk_alphabet():
    calls = []
    for k in KEYS:
        calls.append({"kind": "single-key", "items": [(k, "s")], "kw": []})
        calls.append({"kind": "single-key-dict-value", "items": [(k, "d")], "kw": []})
    pq1, pq2, pq12 = P1 + "." + Q1, P2 + "." + Q2, P1 + "." + Q2
    two = [
        ("duplicate-key-both-spellings", [(P1, "s"), (P2, "s")]),
        ("duplicate-key-both-spellings", [(pq1, "s"), (pq2, "s")]),
        ("duplicate-key-both-spellings", [(pq1 + "." + R1, "s"), (pq2 + "." + R2, "s")]),
        ("scalar-then-child", [(P1, "s"), (pq1, "s")]),
        ("scalar-then-child", [(P2, "s"), (pq2 + "." + R2, "s")]),
        ("child-then-parent", [(pq1, "s"), (P1, "s")]),
        ("child-then-parent", [(pq2 + "." + R2, "s"), (pq2, "s")]),
        ("dict-then-child", [(P1, "d"), (P2 + "." + Q1 + "." + R2, "s")]),
        ("dict-then-child", [(P1, "d"), (P1 + "." + R1, "s")]),
        ("independent-keys", [(Q1, "s"), (pq1, "s")]),
        ("independent-keys", [(Q2, "s"), (pq2 + "." + R2, "s")]),
        ("sibling-keys", [(P1 + "." + R1, "s"), (pq1, "s")]),
        ("scalar-then-child", [(pq1, "s"), (pq1 + "." + R1, "s")]),
        ("independent-keys", [(Q1, "s"), (pq1 + "." + R1, "s"), (P2, "s")]),
    ]
    for kind, items in two:
        calls.append({"kind": kind, "items": items, "kw": []})
    kws = [
        ("kwargs", [], [("vfa_x", "s")]),
        ("kwargs", [], [("vfa_x__vfb_y", "s")]),
        ("kwargs", [], [("vfa_x__vfb_y__vfc_z", "d")]),
        ("arg+kwargs-duplicate-key", [(pq1, "s")], [("vfa_x__vfb_y", "s")]),
        ("arg+kwargs-scalar-then-child", [(P1, "s")], [("vfa_x__vfb_y", "s")]),
        ("kwargs", [], [("vfb_y", "s"), ("vfa_x__vfc_z", "s")]),
    ]
    for kind, items, kw in kws:
        calls.append({"kind": kind, "items": items, "kw": kw})
    return calls


ALPHA = _mk_alphabet()
assert len(ALPHA) == 44
# reduced alphabet: indices into ALPHA
REDUCED = [0, 10, 14, 3, 4, 13, 24, 27, 29, 31, 33, 24 + 14 + 3]
assert len(set(REDUCED)) == 12 and max(REDUCED) < 44

INITS = [
    ("empty", {}),
    ("prefix-scalar", {P1: 5, "keep": {"k": 1}}),
    ("nested-hyphen", {P1: {Q1: {R1: 0, "other": 1}, "side": 2}, "keep": {"k": 1}}),
    ("nested-underscore", {P2: {Q2: {R2: 0}}, Q2: {R2: 9}}),
    ("mid-scalar", {P1: {Q1: 3}, Q1: 4}),
    ("none-and-empty", {P1: None, Q2: {}}),
    ("mid-list-and-str-leaf", {P1: {Q1: [1, 2], R1: "text"}}),
    ("prefix-str-containing-key", {P1: "has vfb-y and vfb_y inside", Q2: [1]}),
]
EXIT = -1


def _valid_seqs(a, length, must_end_enter):
    """All op sequences of exactly `length` over range(a)+EXIT with exits only at nominal depth > 0."""
    def rec(seq, depth):
        if len(seq) == length:
            if not must_end_enter or (seq and seq[-1] != EXIT):
                yield list(seq)
            return
        for op in range(a):
            seq.append(op)
            yield from rec(seq, depth + 1)
            seq.pop()
        if depth > 0:
            seq.append(EXIT)
            yield from rec(seq, depth - 1)
            seq.pop()
    yield from rec([], 0)


def _extensions(prefix, a, L):
    """All histories (ending with an enter) of length len(prefix)..L that start with prefix."""
    depth = 0
    for op in prefix:
        depth += -1 if op == EXIT else 1
    seq = list(prefix)

    def rec(depth):
        if seq and seq[-1] != EXIT:
            yield seq
        if len(seq) >= L:
            return
        for op in range(a):
            seq.append(op)
            yield from rec(depth + 1)
            seq.pop()
        if depth > 0 and len(seq) + 1 < L:       # an exit as last op never ends a history
            seq.append(EXIT)
            yield from rec(depth - 1)
            seq.pop()
    yield from rec(depth)


def _subtree_cases(alpha, a, L, plen, cfg, inits=None):
    for ii in (range(len(INITS)) if inits is None else inits):
        for l in range(1, min(plen, L + 1)):
            for p in _valid_seqs(a, l, True):
                yield {"space": "exhaustive", "kind": "hist", "alpha": alpha, "cfg": cfg, "init": ii, "prefix": p, "L": l}
        if L >= plen:
            for p in _valid_seqs(a, plen, False):
                if L == plen and p[-1] == EXIT:
                    continue
                yield {"space": "exhaustive", "kind": "hist", "alpha": alpha, "cfg": cfg, "init": ii, "prefix": p, "L": L}


DEEP_INITS = (0, 1, 2)      # empty, prefix-scalar, nested-hyphen: the initial states of the deepest thorough enumeration


def cases(tier, seed):
    rng = random.Random(seed * 15485863 + 17)
    if tier == "quick":
        plan = [("full", 44, 3, 1, "private", None), ("reduced", 12, 4, 2, "private", None),
                ("full", 44, 2, 1, "global", None), ("reduced", 12, 3, 1, "global", None)]
    else:
        plan = [("full", 44, 3, 1, "private", None), ("reduced", 12, 5, 2, "private", None),
                ("full", 44, 3, 1, "global", DEEP_INITS), ("reduced", 12, 4, 2, "global", None),
                ("full", 44, 4, 2, "private", DEEP_INITS)]
    for alpha, a, L, plen, cfg, inits in plan:
        yield from _subtree_cases(alpha, a, L, plen, cfg, inits)
    # ---- sampled ---------------------------------------------------------------
    k = 120 if tier == "quick" else 3000
    for _ in range(k):
        yield {"kind": "hist-random", "cfg": rng.choice(("private", "private", "global")), "rseed": rng.randrange(2 ** 31),
               "n": 200, "maxlen": rng.choice((4, 5, 6))}
    k = 60 if tier == "quick" else 1500
    for _ in range(k):
        yield {"kind": "update", "rseed": rng.randrange(2 ** 31), "n": 200}
    for _ in range(k):
        yield {"kind": "env", "rseed": rng.randrange(2 ** 31), "n": 100}
    for _ in range(k // 2):
        yield {"kind": "serialize", "rseed": rng.randrange(2 ** 31), "n": 100}


# ---- models ------------------------------------------------------------------------
def _nk(k):
    return k.replace("_", "-") if isinstance(k, str) else k


def _norm(x):
    if isinstance(x, dict):
        return {_nk(k): _norm(v) for k, v in x.items()}
    return x


_ABSENT = object()


def _model_apply(m, items):
    """Nested assignment on a spelling-normalised copy; returns index of the first item whose path runs through a non-dict."""
    for idx, (key, value) in enumerate(items):
        path = _nk(key).split(".")
        d = m
        for seg in path[:-1]:
            if seg not in d:
                d[seg] = {}
            elif not isinstance(d[seg], dict):
                return idx
            d = d[seg]
        d[path[-1]] = _norm(copy.deepcopy(value))
    return None


def _model_get(m, key):
    d = m
    for seg in _nk(key).split("."):
        if not isinstance(d, dict) or seg not in d:
            return _ABSENT
        d = d[seg]
    return d


def _swap(key):
    return ".".join(s.replace("_", "-") if "_" in s else s.replace("-", "_") for s in key.split("."))


def _diff_symptom(pre, now):
    """Symptom of a failed restoration: which kind of difference (first found, depth first)."""
    if isinstance(pre, dict) and isinstance(now, dict):
        for k in now:
            if k not in pre:
                return "leftover-key"
        for k in pre:
            if k not in now:
                return "missing-key"
        for k in pre:
            if pre[k] != now[k]:
                return _diff_symptom(pre[k], now[k])
        return "none"
    return "changed-value"


def _resolve(call, pos):
    """Concrete (arg dict items, kwargs items) with values depending on the position in the history."""
    items, kw = [], []
    for j, (k, vk) in enumerate(call["items"]):
        n = 100 * (pos + 1) + 10 * j + 1
        items.append((k, n if vk == "s" else _dictval(k, n)))
    for j, (k, vk) in enumerate(call["kw"]):
        n = 100 * (pos + 1) + 10 * j + 7
        kw.append((k, n if vk == "s" else _dictval(k.replace("__", "."), n)))
    return items, kw


class _Abort(Exception):
    pass


def _run_history(ops, alpha, init_name, init, cfgkind, ctx, states):
    """Replay one history against the real API; returns nothing, reports through ctx."""
    import dask.config as dc

    if cfgkind == "private":
        cfg = copy.deepcopy(init)
    else:
        cfg = dc.config
        for k, v in init.items():
            cfg[k] = copy.deepcopy(v)
    stack = []
    ctx.count("histories")

    def do_exit():
        cm, pre, call = stack.pop()
        try:
            cm.__exit__(None, None, None)
        except Exception as e:  # noqa: BLE001
            ctx.exception(e, prefix="exit:%s" % call["kind"], history=_describe(ops, alpha), init=init_name)
            raise _Abort()
        ctx.count("exits_checked")
        if cfg != pre:
            ctx.violation("exit:%s&%s:config-not-restored:%s" % (call["kind"], "nested" if stack else "outermost", _diff_symptom(pre, cfg)),
                          "after leaving set(%s) the config is %r, at entry it was %r" % (_fmt(call), _only_vf(cfg), _only_vf(pre)),
                          history=_describe(ops, alpha), init=init_name, cfg=cfgkind)
            raise _Abort()

    try:
        for pos, op in enumerate(ops):
            if op == EXIT:
                if stack:
                    do_exit()
                continue
            call = alpha[op]
            items, kw = _resolve(call, pos)
            pre = copy.deepcopy(cfg)
            allitems = items + [(k.replace("__", "."), v) for k, v in kw]
            model = _norm(copy.deepcopy(pre)) if cfgkind == "private" else _norm({k: copy.deepcopy(v) for k, v in cfg.items() if k.startswith("vf")})
            conflict = _model_apply(model, allitems)
            ctx.count("set_calls")
            arg = dict(items) if items else None
            try:
                if cfgkind == "private":
                    cm = dc.set(arg, config=cfg, **dict(kw)) if arg is not None else dc.set(config=cfg, **dict(kw))
                else:
                    cm = dc.set(arg, **dict(kw)) if arg is not None else dc.set(**dict(kw))
            except Exception as e:  # noqa: BLE001
                ctx.count("raising_sets_checked")
                if conflict is None:
                    ctx.exception(e, prefix="set:%s&no-path-through-non-dict" % call["kind"], history=_describe(ops, alpha), init=init_name)
                    raise _Abort()
                if cfg != pre:
                    # mechanism: were exactly the items before the raising one left applied?
                    partial = _norm(copy.deepcopy(pre)) if cfgkind == "private" else _norm({k: copy.deepcopy(v) for k, v in pre.items() if k.startswith("vf")})
                    _model_apply(partial, allitems[:conflict])
                    now = _norm(cfg) if cfgkind == "private" else _norm({k: v for k, v in cfg.items() if k.startswith("vf")})
                    if conflict > 0 and now == partial:
                        lab = "set-raises:raising-key-not-first:earlier-keys-of-the-call-left-applied"
                    else:
                        lab = "set-raises:%s:config-changed:%s" % (call["kind"], _diff_symptom(pre, cfg))
                    ctx.violation(lab, "set(%s) raised %s: %s and left the config %r; before the call it was %r"
                                  % (_fmt(call), type(e).__name__, e, _only_vf(cfg), _only_vf(pre)),
                                  history=_describe(ops, alpha), init=init_name, cfg=cfgkind)
                    raise _Abort()
                continue
            stack.append((cm, pre, call))
            if conflict is not None:
                continue        # the statement makes no demand on a call the model expects to conflict
            # ---- read back under either spelling -----------------------------------
            for key, _v in allitems:
                want = _model_get(model, key)
                if want is _ABSENT:
                    continue
                for spelling, variant in (("as-set", key), ("opposite", _swap(key)), ("all-hyphen", _nk(key))):
                    ctx.count("get_checks")
                    try:
                        got = dc.get(variant, config=cfg) if cfgkind == "private" else dc.get(variant)
                    except Exception as e:  # noqa: BLE001
                        ctx.violation("get-inside-context:%s&spelling=%s:%s" % (call["kind"], spelling, type(e).__name__),
                                      "get(%r) raised %r right after set(%s); config %r" % (variant, e, _fmt(call), _only_vf(cfg)),
                                      history=_describe(ops, alpha), init=init_name)
                        continue
                    if _norm(got) != want:
                        ctx.violation("get-inside-context:%s&spelling=%s:value" % (call["kind"], spelling),
                                      "get(%r) = %r right after set(%s), expected %r; config %r" % (variant, got, _fmt(call), want, _only_vf(cfg)),
                                      history=_describe(ops, alpha), init=init_name)
            states.add(repr(sorted(_norm(_only_vf(cfg)).items(), key=repr)))
        while stack:
            do_exit()
    except _Abort:
        pass
    finally:
        if cfgkind == "global":
            for k in [k for k in dc.config if isinstance(k, str) and k.startswith("vf")] + ["keep"]:
                dc.config.pop(k, None)


def _only_vf(cfg):
    return {k: v for k, v in cfg.items() if isinstance(k, str) and (k.startswith("vf") or k == "keep")}


def _fmt(call):
    s = ", ".join("%r: <%s>" % (k, "scalar" if v == "s" else "dict") for k, v in call["items"])
    s = "{%s}" % s if call["items"] else ""
    if call["kw"]:
        s += (", " if s else "") + ", ".join("%s=<%s>" % (k, "scalar" if v == "s" else "dict") for k, v in call["kw"])
    return s


def _describe(ops, alpha):
    return ["exit" if op == EXIT else "set(%s)" % _fmt(alpha[op]) for op in ops]


_GLOBAL_SNAPSHOT = None


def shard_setup(tier, seed):
    global _GLOBAL_SNAPSHOT
    import dask.config as dc

    _GLOBAL_SNAPSHOT = copy.deepcopy(dc.config)


def _check_global(ctx):
    import dask.config as dc

    ctx.count("global_config_verifications")
    if dc.config != _GLOBAL_SNAPSHOT:
        ctx.violation("global-config:differs-from-shard-start-after-case:%s" % _diff_symptom(_GLOBAL_SNAPSHOT, dc.config),
                      "keys now %r" % sorted(map(str, dc.config))[:40])
        dc.config.clear()
        dc.config.update(copy.deepcopy(_GLOBAL_SNAPSHOT))


# ---- update / merge ------------------------------------------------------------------
def _ref_update(old, new, priority, defaults):
    """Documented precedence of dask.config.update, spelling-insensitive, on plain dicts."""
    for k, v in new.items():
        ko = next((c for c in old if _nk(c) == _nk(k)), k)
        if isinstance(v, dict):
            if not isinstance(old.get(ko), dict):
                old[ko] = {}
            sub = None
            if isinstance(defaults, dict):
                sub = next((defaults[c] for c in defaults if _nk(c) == _nk(ko)), None)
            _ref_update(old[ko], v, priority, sub)
        elif (priority == "new" or ko not in old
              or (priority == "new-defaults" and isinstance(defaults, dict) and ko in defaults and defaults[ko] == old[ko])):
            old[ko] = v
    return old


NAMES = ["alpha", "beta-x", "gamma-long-name", "d", "e-f-g", "zeta", "eta-2", "theta"]


def _leaf(rng):
    return rng.choice((0, 1, 2, 3, True, False, None, "a", "b", "128 MiB", 1.5, [1, 2], [], "x-y_z"))


def _schema(rng, depth=0):
    """dict name -> None (leaf) | sub-schema"""
    n = rng.randint(1, 4 if depth == 0 else 3)
    out = {}
    for name in rng.sample(NAMES, n):
        out[name] = _schema(rng, depth + 1) if (depth < 3 and rng.random() < 0.4) else None
    return out


def _inst(rng, schema, p_keep, spell):
    out = {}
    for name, sub in schema.items():
        if rng.random() > p_keep:
            continue
        key = spell(name)
        out[key] = _leaf(rng) if sub is None else _inst(rng, sub, p_keep, spell)
    return out


def _free(rng, depth=0):
    """Arbitrary nested dict (type conflicts between dicts allowed) for priority 'new' / merge."""
    out = {}
    for name in rng.sample(NAMES[:5], rng.randint(0, 4)):
        key = name.replace("-", "_") if rng.random() < 0.4 else name
        out[key] = _free(rng, depth + 1) if (depth < 3 and rng.random() < 0.45) else _leaf(rng)
    return out


def _mutate_like(rng, d):
    """A variant of d: some leaves changed, some removed (used as 'old' for defaults = d)."""
    out = {}
    for k, v in d.items():
        r = rng.random()
        if r < 0.15:
            continue
        if isinstance(v, dict):
            out[k] = _mutate_like(rng, v)
        else:
            out[k] = v if r < 0.65 else _leaf(rng)
    return out


def _update_batch(case, ctx):
    import dask.config as dc

    rng = random.Random(case["rseed"])
    for _ in range(case["n"]):
        mode = rng.choice(("new", "old", "new-defaults", "merge"))
        ctx.op("update:" + mode)
        if mode == "merge":
            dicts = [_free(rng) for _ in range(rng.randint(1, 4))]
            want = {}
            for d in dicts:
                _ref_update(want, copy.deepcopy(d), "new", None)
            ctx.count("merge_checks")
            try:
                got = dc.merge(*copy.deepcopy(dicts))
            except Exception as e:  # noqa: BLE001
                ctx.exception(e, prefix="merge:n=%d" % len(dicts), dicts=dicts)
                continue
            if _norm(got) != _norm(want):
                ctx.violation("merge:n%s:result" % ("=1" if len(dicts) == 1 else ">1"),
                              "merge(*%r) = %r, expected %r" % (dicts, got, want), dicts=dicts)
            continue
        if mode == "new":
            old, new, defaults = _free(rng), _free(rng), None
            feat = "priority=new"
        else:
            schema = _schema(rng)
            underscore_new = rng.random() < 0.5
            under_old = rng.random() < 0.3
            so = (lambda s: s.replace("-", "_")) if under_old else (lambda s: s)
            sn = (lambda s: s.replace("-", "_")) if underscore_new else (lambda s: s)
            defaults = _inst(rng, schema, 0.8, so)
            old = _mutate_like(rng, defaults)
            # old may also hold keys the defaults do not know
            extra = _inst(rng, schema, 0.3, so)
            _ref_update(old, extra, "old", None)
            new = _inst(rng, schema, 0.7, sn)
            if mode == "old":
                defaults = None
            feat = "priority=%s%s" % (mode, "&spelling-differs" if underscore_new != under_old else "")
        want = _ref_update(copy.deepcopy(old), copy.deepcopy(new), mode, copy.deepcopy(defaults))
        ctx.count("update_checks")
        o = copy.deepcopy(old)
        try:
            if defaults is None:
                got = dc.update(o, copy.deepcopy(new), priority=mode)
            else:
                got = dc.update(o, copy.deepcopy(new), priority=mode, defaults=copy.deepcopy(defaults))
        except Exception as e:  # noqa: BLE001
            ctx.exception(e, prefix="update:" + feat, old=old, new=new, defaults=defaults)
            continue
        if got is not o:
            ctx.violation("update:%s:does-not-return-old-in-place" % feat, "returned a different object")
        if _norm(o) != _norm(want):
            ctx.violation("update:%s:result" % feat,
                          "update(%r, %r, priority=%r, defaults=%r) = %r, expected %r" % (old, new, mode, defaults, o, want),
                          old=old, new=new, defaults=defaults)
    ctx.sample = {"last_mode": mode}


# ---- collect_env ----------------------------------------------------------------------
ENV_FIRST = ["VFA", "VF_B", "Vfc_D", "vfe"]
ENV_SEGS = ["SCHEDULER", "WORK_STEALING", "Allowed_Failures", "link", "X2", "CHUNK_SIZE", "memory", "A"]
ENV_VALUES = ["123", "1.5", "True", "False", "None", "[1, 2, 3]", "{'a': 1, 'b-c': {'d_e': 2}}", "'quoted'", "(1, 2)", "-5",
              "1e3", "0x10", "\"dq\"", "/user/x/proxy/8787/status", "hello world", "128 MiB", "tcp://10.0.0.1:8786", "",
              "5s", "a,b,c", "[1, 2", "1_000", "b'raw'", "{1, 2}"]


def _env_batch(case, ctx):
    import dask.config as dc

    rng = random.Random(case["rseed"])
    got = env = None
    for _ in range(case["n"]):
        env, want, used = {}, {}, []
        for _v in range(rng.randint(0, 6)):
            segs = [rng.choice(ENV_FIRST)] + [rng.choice(ENV_SEGS) for _s in range(rng.randint(0, 3))]
            path = tuple(_nk(s.lower()) for s in segs)
            if any(path[:len(u)] == u or u[:len(path)] == path for u in used):
                continue
            used.append(path)
            val = rng.choice(ENV_VALUES)
            env["DASK_" + "__".join(segs)] = val
            try:
                pv = ast.literal_eval(val)
            except (SyntaxError, ValueError):
                pv = val
            d = want
            for s in path[:-1]:
                d = d.setdefault(s, {})
            d[path[-1]] = _norm(pv)
        for _v in range(rng.randint(0, 3)):
            env[rng.choice(("HOME", "PATH", "XDASK_FOO", "MYDASK_A__B", "DASKX", "PYTHONPATH", "LANG"))] = rng.choice(ENV_VALUES)
        feat = "literal-and-string-values"
        if rng.random() < 0.3:
            inherited = {"vfinh-" + rng.choice("abc"): {"n-k": rng.randrange(5), "lst": [1, "x"]}, "vfinh_top": rng.choice((1, "s", None, True))}
            env["DASK_INTERNAL_INHERIT_CONFIG"] = dc.serialize(inherited)
            for k, v in _norm(inherited).items():
                want[k] = v
            feat = "with-inherited-config"
        ctx.count("collect_env_checks")
        ctx.count("env_vars", len(used))
        try:
            got = dc.collect_env(env)
        except Exception as e:  # noqa: BLE001
            ctx.exception(e, prefix="collect_env:" + feat, env=env)
            continue
        g = _norm(got)
        g.pop("internal-inherit-config", None)
        if g != want:
            ctx.violation("collect_env:%s:result" % feat, "collect_env(%r) = %r, expected (modulo -/_) %r" % (env, got, want), env=env)
        # and through the documented reader
        for path in used:
            ctx.count("get_checks")
            key = ".".join(path)
            try:
                v1, v2 = dc.get(key, config=got), dc.get(key.replace("-", "_"), config=got)
            except Exception as e:  # noqa: BLE001
                ctx.violation("collect_env:get-under-either-spelling:%s" % type(e).__name__, "get(%r) on %r: %r" % (key, got, e))
                continue
            w = _model_get(want, key)
            if _norm(v1) != w or _norm(v2) != w:
                ctx.violation("collect_env:get-under-either-spelling:value", "get(%r) on %r -> %r / %r, expected %r" % (key, got, v1, v2, w))
    ctx.sample = {"last_env": env, "result": got}


def _json_like(rng, depth=0):
    r = rng.random()
    if depth < 4 and r < 0.35:
        return {rng.choice(("a", "b-c", "d_e", "", "ünï", "k%d" % rng.randrange(100))): _json_like(rng, depth + 1) for _ in range(rng.randint(0, 4))}
    if depth < 4 and r < 0.5:
        return [_json_like(rng, depth + 1) for _ in range(rng.randint(0, 4))]
    return rng.choice((0, 1, -7, 2 ** 40, 1.5, -0.25, 1e100, True, False, None, "", "text", "日本", "a\nb", "\\", '"q"'))


def _serialize_batch(case, ctx):
    import dask.config as dc

    rng = random.Random(case["rseed"])
    for _ in range(case["n"]):
        x = _json_like(rng)
        ctx.count("serialize_roundtrips")
        feat = type(x).__name__
        try:
            s = dc.serialize(x)
            y = dc.deserialize(s)
        except Exception as e:  # noqa: BLE001
            ctx.exception(e, prefix="serialize-roundtrip:top=%s" % feat, x=x)
            continue
        if not isinstance(s, str):
            ctx.violation("serialize:top=%s:not-a-str" % feat, repr(s)[:100])
        if y != x or type(y) is not type(x):
            ctx.violation("serialize-roundtrip:top=%s:value" % feat, "deserialize(serialize(%r)) = %r" % (x, y), x=x)
    ctx.sample = {"last": x}


def run_case(case, ctx):
    kind = case["kind"]
    ctx.nontrivial = True
    ctx.op(kind)
    if kind == "hist":
        alpha = ALPHA if case["alpha"] == "full" else [ALPHA[i] for i in REDUCED]
        init_name, init = INITS[case["init"]]
        states = set()
        n = 0
        for ops in _extensions(case["prefix"], len(alpha), case["L"]):
            _run_history(ops, alpha, init_name, init, case["cfg"], ctx, states)
            n += 1
        ctx.count("histories_%s" % case["cfg"], n)
        for s in states:
            ctx.distinct("config_states", (init_name, s))
        if case["cfg"] == "global":
            _check_global(ctx)
        ctx.op("init:" + init_name)
        ctx.sample = {"histories": n, "prefix": _describe(case["prefix"], alpha), "states": len(states)}
    elif kind == "hist-random":
        rng = random.Random(case["rseed"])
        states = set()
        for _ in range(case["n"]):
            ii = rng.randrange(len(INITS))
            ops, depth = [], 0
            for _o in range(rng.randint(2, case["maxlen"])):
                if depth > 0 and rng.random() < 0.3:
                    ops.append(EXIT)
                    depth -= 1
                else:
                    ops.append(rng.randrange(len(ALPHA)))
                    depth += 1
            _run_history(ops, ALPHA, INITS[ii][0], INITS[ii][1], case["cfg"], ctx, states)
            ctx.distinct("random_histories", (ii, ops))
        for s in states:
            ctx.distinct("config_states", ("r", s))
        if case["cfg"] == "global":
            _check_global(ctx)
        ctx.sample = {"histories": case["n"], "last": _describe(ops, ALPHA)}
    elif kind == "update":
        _update_batch(case, ctx)
    elif kind == "env":
        _env_batch(case, ctx)
    elif kind == "serialize":
        _serialize_batch(case, ctx)
    else:  # pragma: no cover
        raise AssertionError(kind)


CLAIM = ("Every dask.config.set / __exit__ / get call made while replaying the enumerated and sampled histories was checked against "
         "deep-copy snapshots (exit restores the entry state for any nesting; a raising set leaves the config as before the call) "
         "and a nested-assignment model (values readable under either spelling); update/merge, collect_env and "
         "serialize/deserialize calls on random inputs were checked against references of the documented rules. Held means: no "
         "counterexample among the executions observed; the history space is complete only up to the stated lengths and alphabet.")
TECHNIQUE = "runtime monitoring: snapshot-equality oracle over complete bounded history spaces of nested set/exit operations + reference models for update/merge/collect_env/serialize"
PENDING = {
    "set-raises:raising-key-not-first:earlier-keys-of-the-call-left-applied":
        "set({'a': 5, 'a.b': 1}) (or any call whose later key runs through a non-dict value) raises TypeError and leaves the earlier keys of the same call set: __init__ does not roll back _record",
}
