"""C20 — array indexing equals NumPy indexing (values, and lazy shape/chunks agree with the computed value).

Monitor: NumPy differential.  A case is a JSON description (shape, chunking, dtype, encoded index — see
vf/gen/c20_index.py); run_case rebuilds a position-revealing array (arange-like data), indexes the real
dask array (from_array with the given chunking; sync scheduler, a seeded tenth on threads) and NumPy with
the same index and compares

* the computed value with NumPy's result exactly (shape, dtype, values, NaN == NaN);
* the lazy ``.shape`` / ``.dtype`` / ``.chunks`` with the computed value (nan sizes match anything);
* block-wise: every block produced by the result graph has the shape ``.chunks`` declares and the blocks
  put together give the computed value (second, unoptimised evaluation of the graph with dask.local.get_sync).

Operations: ``x[index]`` (ints incl. negative / NumPy ints / 0-d dask ints, slices of any sign, None,
Ellipsis, 1-d integer lists/arrays/dask arrays (sorted, unsorted, duplicates, negative, empty), 1-d boolean
lists/arrays/dask arrays, full-shape boolean masks NumPy/dask), ``x.vindex[...]`` (broadcasting integer
arrays, optionally with slices and ints; reference = NumPy with the documented axis order "the subspace
spanned by arrays is followed by all slices"), ``x.blocks[...]`` (reference = the selected blocks cut out of
the NumPy array using the chunk offsets; chunks = the selected chunk sizes).

Outcomes: NumPy rejecting the index (IndexError ...) -> ctx.reject (side counter
``numpy_rejected_dask_accepted`` counts how often dask silently computes something; no verdict, the statement
speaks about results).  dask NotImplementedError (more than one array index, n-d dask int indexer ...) ->
ctx.unsupported.  Any other dask exception inside the domain is a violation.

Labels: a failing index is shrunk greedily (entries -> full slice, drop None/Ellipsis, slice fields -> None,
list -> sorted/positive/unique/shorter, dask/NumPy indexer -> list, chunks -> one chunk per axis) while the
symptom stays the same; the label is ``<op>:<feature tokens of the minimal index>[&split-chunks][&zero-length-axis]:<symptom>``.
Family labels (the shrunk forms varied from seed to seed): ``None+int+array-index:raises|wrong-result`` and
``<index family>&zero-size-chunk:raises|wrong-result`` (a chunk of size 0 inside an axis with several chunks is needed).
Special symptom ``array-axis-not-moved-first``: the dask result equals the "orthogonal" reading (array applied
along its own axis after the basic indices) where NumPy moves the broadcast axis to the front because an
integer and the array are separated by a slice/None.

Calibration
* vindex with slices: NumPy itself would keep the array axes in place when the arrays are adjacent; dask
  documents "arrays first, then slices", so the reference moves the broadcast axes to the front.
* ``.blocks[...]`` keeps dimensionality for integer indices (documented): reference built accordingly.
* full-shape boolean masks are generated only as the sole index (what dask documents: x[x > 0]).
* blocks[]: a selection of zero blocks along an axis has no dask representation (empty chunks tuple -> ValueError);
  rejected as outside the domain; the random generator mostly draws non-empty block selections.
* NumPy skips the bounds check when the broadcast selection is empty (x[np.array([], int), np.array([3])] on a
  (5, 3) array); out-of-bounds entries are rejected by the harness itself, dask raising IndexError there is right.
* More than one 1-d list/array indexer is documented as unsupported; dask raises NotImplementedError for most
  combinations but computes an orthogonal selection (or fails) when dask boolean arrays are involved: all
  counted as unsupported (side counter two_array_indexers_not_rejected_by_dask).
* vindex needs at least one index array (all-slices raises a documented IndexError): rejected otherwise.
* Shrinking first keeps the symptom; for exception symptoms it then continues to any smaller input that still
  raises (the exception type/location depends on what else is in the index), never from a value mismatch.
"""
from __future__ import annotations

import random
import warnings

import numpy as np

from ..gen import arrays as A
from ..gen import c20_index as IX
from ..mon.compare import compare_arrays, lazy_meta_mismatch
from ..core.ctx import exc_label

PROP = "C20"
RULE = ("cases = (operation getitem|vindex|blocks, shape, chunking, dtype, encoded index). Complete part: every "
        "slice(start, stop, step) with start/stop in [-n-1, n+1] u {None}, step in {+-1, +-2, +-3, None} on 1-d arrays of "
        "length n x ALL chunkings of the axis (quick n<=4, thorough n<=6 plus products of slices with steps -1, 2 on shape (3,2)). Random part: "
        "1-4 d arrays with axis lengths 0-9 and random (irregular, size-1, single; 7 % with a zero-size chunk inside an axis) chunkings; index tuples mixing ints, slices, "
        "None, Ellipsis, one 1-d integer or boolean indexer (list / NumPy / dask; sorted, unsorted, duplicate, negative, empty), "
        "0-d dask ints, full-shape masks; vindex with broadcasting index arrays; blocks[]. non-trivial = some axis split into "
        ">= 2 chunks; distinct = distinct (op, shape, chunks, dtype, index).")
ASSUMPTIONS = ["NumPy 2.x indexing defines the expected result", "sync scheduler (threads for a tenth)",
               "vindex axis order as documented in Array.vindex"]
BUDGET = {"quick": 120, "thorough": 900}
FLOORS = {"quick": {"evaluations": 8000, "distinct_nontrivial": 6000,
                    "counters": {"compared": 8000, "lazy_meta_checked": 7500, "blocks_checked": 7500, "compared_getitem": 7000,
                                 "compared_vindex": 450, "compared_blocks": 250, "unknown_chunks_results": 250},
                    "sets": {"index_feature_tokens": 55}, "max_skipped_fraction": 0.2},
          # measured on the repaired tree (thorough, 8 shards, 225 s): 375576 cases, 324645 distinct non-trivial, compared
          # 373069, vindex 14473, blocks 7807, unknown-chunk results 8772
          "thorough": {"evaluations": 170000, "distinct_nontrivial": 145000,
                       "counters": {"compared": 165000, "lazy_meta_checked": 165000, "blocks_checked": 165000,
                                    "compared_getitem": 155000, "compared_vindex": 6500, "compared_blocks": 3500,
                                    "unknown_chunks_results": 3900},
                       "sets": {"index_feature_tokens": 80}, "max_skipped_fraction": 0.2}}
EXHAUSTIVE_SPACE = {
    "quick": "all slices (start, stop in [-n-1, n+1] u {None}; step in {None, 1, -1, 2, -2, 3, -3}) of 1-d arrays of length n = 0..4 x all chunkings of the axis",
    "thorough": "all slices (start, stop in [-n-1, n+1] u {None}; step in {None, 1, -1, 2, -2, 3, -3}) of 1-d arrays of length n = 0..6 x all chunkings; "
                "products of slices (start, stop in [-n-1, n+1] u {None}; step in {-1, 2}) on shape (3, 2) x all 8 chunkings",
}
CLAIM = ("Every generated index was applied to the real dask.array (getitem / vindex / blocks) and to NumPy on the same data; "
         "held = the computed values equal NumPy's exactly, the lazy shape/dtype/chunks agree with the computed value block by "
         "block, and dask raised nothing but NotImplementedError inside the domain, on the executions observed.")
LEVEL_NOTE = "NumPy is the reference; domain limited to the index kinds the statement names and dask documents"
TECHNIQUE = "runtime monitoring: NumPy differential oracle over a complete small slice space and generated index tuples"

# Labels recorded as known findings (known_findings.d/C20.json).  Everything else that was PENDING is repaired by
# fixes_ready/C20_01..06 (and C21_01..09, C25_02/04, 80fc0ed for the zero-size-chunk families); see FIXED.
PENDING = {
    "getitem:int&array-index-separated:array-axis-not-moved-first": "x[0, :, [1, 2]] has shape (n1, 2) in dask, (2, n1) in NumPy (integer and array index separated by a slice/None/Ellipsis)",
    "getitem:dask-index-array&zero-size-chunk:raises": "x[dask_bool] where an axis of length <= 1 is split into chunks (1, 0) / (0, 1): blockwise does not align the mask with the empty chunk",
    "getitem:dask-index-array&zero-size-chunk:wrong-result": "same family, second symptom class (thorough tier only, 1 in 375 000)",
}
FIXED = {
    "C20_01_negative_step_start_below_minus_n": ["getitem:slice[negstep,start<-n]:shape"],
    "C20_02_int_dask_index_offsets_name_collision": ["getitem:dask-int-array[=chunk-offsets]:lazy-shape",
                                                     "getitem:dask-int-array[=chunk-offsets]&split-chunks:ValueError@array/core.py:normalize_chunks"],
    "C20_03_vindex_0d_and_empty_2d_index": ["vindex:int-array[0d]:TypeError@array/core.py:_vindex_array",
                                            "vindex:int-array[empty,2d]:ValueError@array/core.py:_vindex_array"],
    "C20_04_reshape_zero_size_array_with_several_chunks": [
        "getitem:full-shape-mask&split-chunks&zero-length-axis:TypeError@array/reshape.py:reshape_rechunk",
        "getitem:full-shape-mask&split-chunks&zero-length-axis:IndexError@array/reshape.py:reshape_rechunk",
        "getitem:full-shape-dask-mask[own-chunks]&zero-length-axis:TypeError@array/reshape.py:reshape_rechunk",
        "getitem:full-shape-dask-mask[own-chunks]&zero-length-axis:IndexError@array/reshape.py:reshape_rechunk",
        "vindex:int-array[empty,2d]&split-chunks:TypeError@array/reshape.py:reshape_rechunk",
        "vindex:int-list[dup,2d]+slice[|step|>1,start<0]&split-chunks:ValueError@local.py:start_state_from_dask"],
    "C20_05_none_with_array_index": [
        "getitem:None+int-list:AttributeError@array/slicing.py:slice_with_newaxes",
        "getitem:None+int-list&split-chunks:TypeError@_task_spec.py:__call__",
        "getitem:None+int+array-index:raises", "getitem:None+int+array-index:wrong-result",
        "getitem:None+dask-int-array:AssertionError@array/slicing.py:slice_with_int_dask_array",
        "getitem:None+dask-bool-array:IndexError@array/slicing.py:getitem_variadic"],
    "C20_06_reshape_zero_size_chunk": ["getitem:full-shape-mask&zero-size-chunk:raises", "getitem:full-shape-mask&zero-size-chunk:wrong-result"],
    "80fc0ed (already in /repo)": ["getitem:int-or-bool-array&zero-size-chunk:raises"],
    "C25_04_negative_step_slice_zero_size_chunk": ["getitem:slice&zero-size-chunk:wrong-result"],
}

DTYPES = ["int64", "int64", "float64", "float64", "int32", "float32", "complex128", "datetime64[ns]", "bool", "uint8", "int8"]
STEPS = [None, 1, -1, 2, -2, 3, -3]


def _bounds(n):
    return [None] + list(range(-n - 1, n + 2))


def cases(tier, seed):
    rng = random.Random(seed * 7727 + 20)
    nmax = 4 if tier == "quick" else 6
    for n in range(0, nmax + 1):
        for ch in A.compositions(n):
            for a in _bounds(n):
                for b in _bounds(n):
                    for c in STEPS:
                        yield {"space": "exhaustive", "op": "getitem", "shape": [n], "chunks": [list(ch)], "dtype": "int64",
                               "index": [{"k": "slice", "v": [a, b, c]}], "bare": True}
    if tier == "thorough":
        for chs in A.all_chunkings((3, 2)):
            for a0 in _bounds(3):
                for b0 in _bounds(3):
                    for c0 in (-1, 2):
                        for a1 in _bounds(2):
                            for b1 in _bounds(2):
                                for c1 in (-1, 2):
                                    yield {"space": "exhaustive", "op": "getitem", "shape": [3, 2], "chunks": [list(c) for c in chs],
                                           "dtype": "int64", "bare": False,
                                           "index": [{"k": "slice", "v": [a0, b0, c0]}, {"k": "slice", "v": [a1, b1, c1]}]}
    n = 6000 if tier == "quick" else 80000
    for _ in range(n):
        nd = rng.choice((0, 1, 1, 1, 2, 2, 2, 3, 3, 4)) if rng.random() < 0.1 else rng.choice((1, 1, 2, 2, 2, 3, 3, 4))
        maxlen = {0: 9, 1: 9, 2: 9, 3: 6, 4: 4}[nd]
        shape = tuple(rng.choice([0, 1, 1, 2, 3, 4, 5, 6, 7, 8, 9][: maxlen + 2]) for _ in range(nd))
        chunks = A.rand_chunks(rng, shape)
        while np.prod([len(c) for c in chunks] or [1]) > 120:
            chunks = tuple(A.rand_comp(rng, s, rng.choice(("one", "two", "regular"))) for s in shape)
        chunks = IX.with_zero_chunks(rng, chunks, 0.07)
        op = rng.choice(("getitem",) * 7 + ("vindex",) * 2 + ("blocks",))
        d = {"op": op, "shape": list(shape), "chunks": [list(c) for c in chunks], "dtype": rng.choice(DTYPES),
             "threads": rng.random() < 0.1, "bare": False}
        if op == "getitem":
            d["index"], d["bare"] = IX.rand_index(rng, shape, "get", chunks)
        elif op == "vindex":
            if nd == 0:
                continue
            enc = IX.rand_vindex(rng, shape)
            if enc is None:
                continue
            d["index"] = enc
            d["bare"] = len(enc) == 1 and rng.random() < 0.5
        else:
            if nd == 0:
                continue
            d["index"] = IX.rand_blocks_index(rng, [len(c) for c in chunks])
            d["bare"] = len(d["index"]) == 1 and rng.random() < 0.5
        yield d
    # long, unevenly chunked axes: chunk lengths and in-chunk offsets beyond 255 (65535 in the thorough tier), where
    # the compact integer dtypes used for in-chunk positions change; array indices pick elements deep inside the long chunk
    for j in range(160 if tier == "quick" else 1600):
        huge = tier == "thorough" and j % 40 == 0
        big = rng.randint(65536, 66500) if huge else rng.randint(256, 700)
        small = [rng.randint(1, 40) for _ in range(rng.randint(2, 6))]
        ch = small[:]
        ch.insert(rng.randrange(len(ch) + 1), big)
        L = sum(ch)
        start = sum(ch[: ch.index(big)])
        deep = [start + rng.randint(256 if not huge else 65536, big - 1) if big > (256 if not huge else 65536)
                else start + big - 1 for _ in range(rng.randint(1, 4))]
        picks = deep + [rng.randrange(L) for _ in range(rng.randint(0, 5))]
        rng.shuffle(picks)
        kind = rng.choice(("ilist", "ilist", "blist", "vindex"))
        how = rng.choice(("list", "np", "dask")) if not huge else rng.choice(("np", "dask"))
        if kind == "blist":
            v = [0] * L
            for i in picks:
                v[i] = 1
            e = {"k": "blist", "v": v, "as": how, "c": [L]}
        elif kind == "ilist":
            if rng.random() < 0.3:
                picks = [i - L if rng.random() < 0.5 else i for i in picks]
            e = {"k": "ilist", "v": picks, "as": how, "dt": "int64", "c": [len(picks)]}
        else:
            e = {"k": "varr", "v": picks, "shape": [len(picks)], "as": "np"}
        other = rng.choice((None, None, 2, 3)) if not huge else None
        shape, chunks, index = [L], [ch], [e]
        if other:
            first = rng.random() < 0.5
            oc = [1] * other if rng.random() < 0.5 else [other]
            shape, chunks = ([L, other], [ch, oc]) if first else ([other, L], [oc, ch])
            index = [e, IX.FULL] if first else [IX.FULL, e]
        yield {"op": "vindex" if kind == "vindex" else "getitem", "shape": shape, "chunks": chunks,
               "dtype": rng.choice(("int64", "float64")), "threads": False, "bare": len(index) == 1 and rng.random() < 0.5,
               "index": index, "family": "long-axis"}


# ------------------------------------------------------------------------------------------------
class Outcome:
    __slots__ = ("status", "symptom", "msg", "exc", "accepted", "lazy", "value", "expected")

    def __init__(self, status, symptom=None, msg="", exc=None):
        self.status, self.symptom, self.msg, self.exc = status, symptom, msg, exc
        self.accepted = False
        self.lazy = None
        self.value = None
        self.expected = None


def evaluate(op, shape, chunks, dtype, enc, bare, threads=False, blockcheck=True):
    """One differential evaluation.  status: ok | reject | unsupported | exc | mismatch."""
    import dask.array as da

    shape = tuple(shape)
    chunks = tuple(tuple(c) for c in chunks)
    x = IX.make_data(shape, dtype)
    dx = da.from_array(x, chunks=chunks)
    with warnings.catch_warnings():
        warnings.simplefilter("ignore")
        # ---- reference ------------------------------------------------------------------------
        if op == "blocks":
            nidx, didx = IX.decode(enc, [len(c) for c in chunks], da, bare)
        else:
            nidx, didx = IX.decode(enc, shape, da, bare)
        exp_chunks = None
        oob = IX.out_of_bounds(enc, [len(c) for c in chunks] if op == "blocks" else shape)
        try:
            if op == "vindex" and not any(en["k"] == "varr" for en in enc):
                # vindex documents IndexError when there is no index array to vectorise over
                raise IndexError("vindex without an index array is outside the domain (harness check)")
            if oob:
                # Calibration: NumPy skips the bounds check when the broadcast selection is empty
                # (x[np.array([], int), np.array([3])] on a (5, 3) array); dask raising IndexError is right.
                raise IndexError("index out of bounds (harness check)")
            if op == "getitem":
                e = x[nidx]
            elif op == "vindex":
                x[nidx]  # NumPy must accept the index (bounds, broadcasting)
                e = IX.np_vindex(x, nidx)
            else:
                e, exp_chunks = IX.blocks_reference(x, chunks, nidx)
                if any(len(c) == 0 for c in exp_chunks):
                    # Calibration: a selection of zero blocks along an axis has no dask representation (chunks
                    # tuples cannot be empty; dask raises ValueError) - outside the domain of blocks[].
                    return Outcome("reject", msg="blocks[]: empty block selection has no dask-array representation")
        except (IndexError, ValueError, TypeError) as ex:
            out = Outcome("reject", msg="numpy: %s: %s" % (type(ex).__name__, ex))
            try:
                r = dx[didx] if op == "getitem" else dx.vindex[didx] if op == "vindex" else dx.blocks[didx]
                r.compute(scheduler="sync")
                out.accepted = True
            except Exception:  # noqa: BLE001
                pass
            return out
        # ---- dask -----------------------------------------------------------------------------
        try:
            if op == "getitem":
                r = dx[didx]
            elif op == "vindex":
                r = dx.vindex[didx]
            else:
                r = dx.blocks[didx]
            if not isinstance(r, da.Array):
                return Outcome("mismatch", "result-not-a-dask-array", "got %r" % (type(r),))
            lazy = (tuple(r.shape), r.chunks, r.dtype)
            rv = r.compute(scheduler="threads" if threads else "sync")
        except NotImplementedError as ex:
            return Outcome("unsupported", msg=str(ex))
        except Exception as ex:  # noqa: BLE001
            return Outcome("exc", exc_label(ex), "%s: %s" % (type(ex).__name__, ex), ex)
        out = Outcome("ok")
        out.lazy, out.value, out.expected = lazy, rv, e
        m = compare_arrays(rv, e, exact=True)
        if m:
            sym = m[0]
            if op == "getitem" and m[0] in ("shape", "values") and IX.adv_nonadjacent(nidx):
                try:
                    o = IX.np_outer(x, nidx)
                except Exception:  # noqa: BLE001
                    o = None
                if o is not None and compare_arrays(rv, o, exact=True) is None:
                    sym = "array-axis-not-moved-first"
            rs, es = np.shape(rv), np.shape(e)
            if (op == "getitem" and sym == "shape" and [d for d in rs if d != 1] == [d for d in es if d != 1]
                    and any(en["k"] == "none" for en in enc)
                    and compare_arrays(np.reshape(rv, es), e, exact=True) is None):
                sym = "size-1-axis-misplaced"   # same elements in the same order, a length-1 axis sits elsewhere
            out.status, out.symptom, out.msg = "mismatch", sym, m[1]
            return out
        m = lazy_meta_mismatch(r, rv)
        if m:
            out.status, out.symptom, out.msg = "mismatch", m[0], m[1]
            return out
        if exp_chunks is not None and tuple(r.chunks) != exp_chunks:
            out.status, out.symptom, out.msg = "mismatch", "lazy-chunks", "blocks[] chunks %s, selected chunk sizes %s" % (r.chunks, exp_chunks)
            return out
        if blockcheck:
            try:
                m = IX.blockwise_mismatch(r, rv)
            except NotImplementedError as ex:
                return Outcome("unsupported", msg=str(ex))
            except Exception as ex:  # noqa: BLE001
                return Outcome("exc", "blockwise:" + exc_label(ex), "%s: %s" % (type(ex).__name__, ex), ex)
            if m:
                out.status, out.symptom, out.msg = "mismatch", m[0], m[1]
        return out


def run_case(case, ctx):
    op, shape, enc = case["op"], tuple(case["shape"]), case["index"]
    chunks = A.chunks_of_desc(case["chunks"])
    bare = bool(case.get("bare"))
    ctx.op(op)
    ctx.sig = (op, case["shape"], case["chunks"], case["dtype"], enc, bare)
    ctx.nontrivial = A.has_split(chunks)
    out = evaluate(op, shape, chunks, case["dtype"], enc, bare, threads=case.get("threads", False))
    nfancy = sum(1 for e in enc if e["k"] in ("ilist", "blist"))
    if op == "getitem" and nfancy >= 2 and out.status != "ok" and out.status != "reject":
        # Calibration: "slicing with lists in multiple axes" is documented as unsupported (array-slicing.rst); dask
        # raises NotImplementedError for most combinations but computes an orthogonal selection (or fails) for some
        # (dask boolean arrays are filtered one axis at a time).  Outside the domain: side statistic only.
        ctx.count("dask_not_implemented")
        if out.status != "unsupported":
            ctx.count("two_array_indexers_not_rejected_by_dask")
        ctx.unsupported("lists/arrays in multiple axes (documented as unsupported): " + (out.msg or out.symptom or ""))
        return
    if out.status == "reject":
        ctx.count("numpy_rejected")
        if out.accepted:
            ctx.count("numpy_rejected_dask_accepted")
        ctx.reject(out.msg)
        return
    if out.status == "unsupported":
        ctx.count("dask_not_implemented")
        ctx.unsupported(out.msg)
        return
    ctx.count("compared")
    ctx.count("compared_" + op)
    for t in IX.tokens(enc, shape if op != "blocks" else tuple(len(c) for c in chunks)):
        ctx.distinct("index_feature_tokens", t)
    if out.status == "ok":
        ctx.count("lazy_meta_checked")
        ctx.count("blocks_checked")
        if out.lazy is not None and any(IX._isnan(c) for cs in out.lazy[1] for c in cs):
            ctx.count("unknown_chunks_results")
        ctx.sample = {"op": op, "index": IX.show(enc), "chunks": case["chunks"], "result_shape": list(np.shape(out.value)),
                      "lazy_chunks": str(out.lazy[1])}
        return
    # ---- failure: shrink, label ----------------------------------------------------------------
    key = None
    if op == "getitem" and all(e["k"] == "slice" for e in enc):
        # pure slice indices (the complete sub-spaces): classify once per (feature tokens, symptom, layout) and shard
        key = (tuple(IX.tokens(enc, shape)), out.symptom, A.has_split(chunks), IX.zero_chunk_inside(chunks), 0 in shape)
    if key is not None and key in _MEMO:
        label, detail = _MEMO[key], {"minimal": "classification memoised from an index with the same feature tokens"}
    else:
        label, detail = classify(op, shape, chunks, case["dtype"], enc, bare, out.symptom)
        if key is not None:
            _MEMO[key] = label
    detail.update({"index": IX.show(enc), "shape": list(shape), "chunks": case["chunks"]})
    if out.status == "exc":
        import traceback

        tb = "".join(traceback.format_exception(type(out.exc), out.exc, out.exc.__traceback__))[-2500:]
        ctx.violation(label, out.msg, traceback=tb, **detail)
    else:
        ctx.violation(label, out.msg, lazy=str(out.lazy), **detail)


_MEMO = {}
MISMATCH_SYMPTOMS = ("shape", "dtype", "values", "lazy-shape", "lazy-dtype", "lazy-chunks", "block-shape", "block-placement",
                     "array-axis-not-moved-first", "size-1-axis-misplaced", "result-not-a-dask-array")


def classify(op, shape, chunks, dtype, enc, bare, sym):
    """Shrink the failing (index, shape, chunks) and build the mechanism label.

    Phase 1 keeps the symptom.  If the symptom is an exception (whose type/location depends on what else is in
    the index) phase 2 continues to any smaller failing input and the label takes the symptom of that minimal
    input.  A remaining slice entry that fails on its own under plain getitem relabels vindex/blocks failures
    to the getitem mechanism."""
    fixed = op == "blocks"
    space = tuple(len(c) for c in chunks) if fixed else tuple(shape)

    def probe(enc2, shape2, chunks2):
        if fixed:
            shape2, chunks2 = shape, chunks
        o = evaluate(op, shape2, chunks2, dtype, enc2, bare and len(enc2) == 1, threads=False)
        return o.symptom if o.status in ("exc", "mismatch") else None

    enc_m, shape_m, chunks_m, sym_m = IX.shrink(enc, space, chunks, probe, sym, fixed_layout=fixed)
    if sym_m not in MISMATCH_SYMPTOMS:
        enc_m, shape_m, chunks_m, sym_m = IX.shrink(enc_m, shape_m, chunks_m, probe, sym_m, fixed_layout=fixed,
                                                    accept=lambda s: s not in MISMATCH_SYMPTOMS)
    op_m = op
    if op != "getitem":
        axes = IX.axis_of_entries(enc_m, len(shape_m))
        for e, ax in zip(enc_m, axes):
            if e["k"] == "slice" and not IX.is_full(e) and ax is not None and ax < len(shape_m):
                n = shape_m[ax]
                o = evaluate("getitem", (n,), ((n,),), dtype, [e], True)
                if o.status in ("exc", "mismatch") and o.symptom == sym_m:
                    def probe1(enc2, shape2, chunks2):
                        o2 = evaluate("getitem", shape2, chunks2, dtype, enc2, True)
                        return o2.symptom if o2.status in ("exc", "mismatch") else None

                    enc_m, shape_m, chunks_m, sym_m = IX.shrink([e], (n,), ((n,),), probe1, sym_m)
                    op_m, fixed = "getitem", False
                    break
    toks = IX.tokens(enc_m, shape_m)
    if sym_m == "array-axis-not-moved-first":
        feat = "int&array-index-separated"
    elif ("None" in toks and any(t in ("int", "int<0", "np-int", "np-int<0") for t in toks)
          and any(t.startswith(("int-list", "int-array", "bool-list", "bool-array")) for t in toks)):
        # None + integer + array index: several interacting defects of slice_with_newaxes give varying symptoms;
        # one family, two symptom classes
        feat = "None+int+array-index"
        sym_m = "wrong-result" if sym_m in MISMATCH_SYMPTOMS else "raises"
    else:
        feat = IX.label_features(enc_m, shape_m, chunks_m, layout=not fixed)
    label = "%s:%s:%s" % (op_m, feat, sym_m)
    if not fixed and IX.zero_chunk_inside(chunks_m):
        # a zero-size chunk inside a non-empty axis is needed by the minimal witness: a family of defects (duplicate
        # chunk boundaries in _slice_1d, average chunk size 0 in take, blockwise over empty blocks ...) whose shrunk
        # forms vary; labelled by index family and symptom class
        # (full-shape masks, NumPy or dask, are applied as dask boolean arrays)
        fam = ("dask-index-array" if any(t.startswith(("dask-", "full-shape")) for t in toks) else
               "int-or-bool-array" if any(t.startswith(("int-list", "int-array", "bool-list", "bool-array")) for t in toks) else
               "slice" if any(t.startswith("slice") for t in toks) else "basic-index")
        label = "%s:%s&zero-size-chunk:%s" % (op_m, fam, "wrong-result" if sym_m in MISMATCH_SYMPTOMS else "raises")
    minimal = {"op": op_m, "index": IX.show(enc_m), "chunks": [list(c) for c in chunks_m]}
    if not fixed:
        minimal["shape"] = list(shape_m)
    return label, {"minimal": minimal}
