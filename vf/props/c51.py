"""C51 -- dask.rewrite: RuleSet.iter_matches / rewrite(strategy="top_level") are sound and complete.

Monitor: every call of the real ``RuleSet.iter_matches`` and
``RuleSet.rewrite(term, strategy="top_level")`` on a generated (rule set, term)
pair is compared with the harness' own brute-force structural matcher
(``_match``: ~25 lines, tasks are tuples headed by a callable, arity-sensitive,
repeated variables must bind equal subterms):

  * every yielded ``(rule, bindings)`` must bind exactly the variables of the lhs
    and substituting the bindings into the lhs must give the term,
  * the yielded rules must be exactly the rules the matcher matches (each once),
  * the top-level rewrite must return the term itself when no rule matches and
    otherwise the rhs-instance of one of the matching rules.

Termination of the net traversal is observed with a logical line-count bound on
``dask.rewrite._match``.

Calibration (unchanged tree, seeds 0,1,2,7,12345 quick + one thorough run)
---------------------------------------------------------------------------
Every alarm on the unchanged tree has the input feature ``mixed-arity`` (some
function occurs with two different argument counts in the rule set and/or the
term); nothing fires in the ``fixed-arity`` world (about 30 % of the cases, all
repeated-variable and overlapping-rule situations included).  Two mechanisms,
both consequences of the net storing a flattened pre-order string without
argument counts (findings_proposed/C51.md):

* Genuine defect / documented behaviour (DESIGN 6 #11): a pattern and a term
  with the same pre-order but different nesting match, e.g. rule
  ``(f, (g, 'x'), 'y')`` and term ``(f, (g, 2, 1))`` yield ``{'x': 2, 'y': 1}``;
  the RuleSet docstring shows exactly this.  Labels
  ``iter_matches:mixed-arity:spurious-match:same-preorder-different-nesting`` and
  ``rewrite-top_level:mixed-arity:applied-spurious-match:same-preorder-different-nesting``.
* Genuine defect: when the term ends while the net still offers a variable
  edge (``(f, 'c')`` against the rule ``(f, 'x', 'x')``), ``_match`` binds the END
  token and ``Traverser.skip`` pops from an empty deque: ``IndexError`` instead of
  "no match".  Labels ``iter_matches:mixed-arity:IndexError@rewrite.py:skip`` and
  ``rewrite-top_level:mixed-arity:IndexError@rewrite.py:skip``.  A one-line guard
  removes it (repository tests and doctests still pass on a scratch copy).
* With an arity-aware net on a scratch copy (edges keyed by (head, nargs) plus
  the END guard) the quick run holds on all 380 980 cases, i.e. there is no third
  mechanism; that change contradicts ``test_RuleSet`` and the RuleSet docstring,
  so it is offered only as a sketch.
* No false alarm was observed.  Label attribution corrected once: when
  ``iter_matches`` raised after having yielded something, the partial list was
  dropped and a top-level rewrite that had applied the first (spurious) match
  was reported as ``changed-although-no-rule-matches``; yielded pairs are now
  collected one by one so that the rewrite result is attributed to the spurious
  match it came from.
* During calibration the lead committed the END guard to /repo (897c9b5) and
  recorded the flattening behaviour in known_findings.json; the two IndexError
  entries of PENDING no longer fire on the current tree.
* Terms are rebuilt with fresh tuple objects (``_fresh``) so that a repeated
  variable is decided by equality, not identity, of the bound subterms.
"""
from __future__ import annotations

import random

PROP = "C51"
RULE = ("cases = (rule set, term): rule sets of 1-5 rules (12 hand-written + seeded random ones) whose lhs are patterns over "
        "functions f,g,h / constants 1,2,'c' / variables x,y (repeated variables, nested patterns, bare-variable and constant "
        "lhs, duplicate rules, functions used at one arity only or at several), rhs a term template or a callable; terms: "
        "all terms of depth <= 2 (arity 1-2) enumerated completely against every rule set of the fixed list, then random "
        "terms to depth 5 (arity 0-3) that are instances / near-instances (nesting changed, repeated variable broken, one "
        "symbol changed) of a rule's lhs; non-trivial = some rule matches or is yielded; distinct = distinct (rule set, term)")
ASSUMPTIONS = ["the brute-force matcher and substitution of the harness (structural equality of tuples, identity of the "
               "function objects) define 'matches' and 'instance'; terms are ground (never contain the variable names)"]
BUDGET = {"quick": 60, "thorough": 900}
FLOORS = {
    # measured (quick, seed 0, tree at 897c9b5): 294 784 cases, 46 657 distinct non-trivial, matches_expected 61 846,
    # sound_yields 61 846, repeated_variable_matches 5 627, several-matching 6 563, fixed-arity matching terms 25 270
    "quick": {"evaluations": 130000, "distinct_nontrivial": 21000,
              "counters": {"iter_matches_calls": 130000, "rewrite_calls": 130000, "matches_expected": 28000,
                           "sound_yields": 28000, "repeated_variable_matches": 2500,
                           "terms_with_several_matching_rules": 2900, "fixed_arity_matching_terms": 11000,
                           "nonmatching_terms": 108000, "rewrite_applied_matching_rule": 24000,
                           "rewrite_left_unchanged": 105000},
              "sets": {"matching_rule_sets": 8500}},
    # measured (thorough, seed 0): 4 618 072 cases, 1 011 732 distinct non-trivial, matches_expected 1 466 344,
    # sound_yields 1 459 051, repeated_variable_matches 92 401, several-matching 283 001, fixed-arity matching 304 966
    "thorough": {"evaluations": 2000000, "distinct_nontrivial": 450000,
                 "counters": {"iter_matches_calls": 2000000, "rewrite_calls": 2000000, "matches_expected": 650000,
                              "sound_yields": 650000, "repeated_variable_matches": 30000,
                              "terms_with_several_matching_rules": 125000, "fixed_arity_matching_terms": 100000,
                              "nonmatching_terms": 1500000, "rewrite_applied_matching_rule": 500000,
                              "rewrite_left_unchanged": 1450000},
                 "sets": {"matching_rule_sets": 90000}},
}
EXHAUSTIVE_SPACE = {
    "quick": "all 4683 terms of depth <= 2 over {f,g,h} x {1,2,'c'} with arity 1-2, each against every rule set of the fixed "
             "list (12 hand-written + 36 seeded)",
    "thorough": "all 4683 terms of depth <= 2 over {f,g,h} x {1,2,'c'} (arity 1-2) against 12 hand-written + 108 seeded rule "
                "sets; all 357 294 terms of depth <= 3 over {f,g} x {1,2} (arity 1-2) against 8 rule sets over that alphabet "
                "(4 hand-written + 4 seeded)",
}
LEVEL_NOTE = "trusts the 25-line matcher/substitution of the harness and Python tuple equality; the discrimination net is observed"
CLAIM = ("Every iter_matches / top-level rewrite call observed (all terms to depth 2 -- depth 3 on a reduced alphabet in the "
         "thorough tier -- against fixed and seeded rule sets with repeated variables, plus random deeper instances and "
         "near-instances) yielded exactly the rules the brute-force arity-sensitive matcher matches, with bindings whose "
         "substitution into the lhs reproduces the term, and rewrote iff a rule matched, to an rhs-instance of a matching "
         "rule.  Held means: no counterexample among the executions observed, except the mechanisms listed as known findings.")
TECHNIQUE = "runtime monitoring: reference-model oracle (brute-force structural matcher) on every call + step bound on the net traversal"

PENDING = {
    "iter_matches:mixed-arity:spurious-match:same-preorder-different-nesting":
        "the net flattens terms: (f, (g, 'x'), 'y') matches (f, (g, 2, 1)) with x=2, y=1 (DESIGN 6 #11, shown in the "
        "RuleSet docstring)",
    "rewrite-top_level:mixed-arity:applied-spurious-match:same-preorder-different-nesting":
        "same mechanism seen through rewrite(strategy='top_level'): a term no rule matches is rewritten with the "
        "spurious match",
    "iter_matches:mixed-arity:IndexError@rewrite.py:skip":
        "term ends while the net still has a variable edge, e.g. (f, 'c') against rule (f, 'x', 'x'): "
        "IndexError('pop from an empty deque') instead of no match",
    "rewrite-top_level:mixed-arity:IndexError@rewrite.py:skip":
        "same IndexError through rewrite(strategy='top_level')",
}

VARS = ("x", "y")
CONSTS = (1, 2, "c")


def f(*a):
    return ("f",) + a


def g(*a):
    return ("g",) + a


def h(*a):
    return ("h",) + a


FUNCS = (f, g, h)
FNAME = {f: "f", g: "g", h: "h"}


# --------------------------------------------------------------------------- the oracle (brute force, arity-sensitive)
def _istask(t):
    return type(t) is tuple and len(t) > 0 and callable(t[0])


def _match(pat, term, b):
    """Bindings extending b under which pat instantiates to term, or None."""
    if type(pat) is str and pat in VARS:
        if pat in b:
            return b if _eq(b[pat], term) else None
        b = dict(b)
        b[pat] = term
        return b
    if _istask(pat):
        if not _istask(term) or len(pat) != len(term) or pat[0] is not term[0]:
            return None
        for p, t in zip(pat[1:], term[1:]):
            b = _match(p, t, b)
            if b is None:
                return None
        return b
    return b if (not _istask(term) and type(pat) is type(term) and pat == term) else None


def _eq(a, b):
    if _istask(a) or _istask(b):
        return (_istask(a) and _istask(b) and len(a) == len(b) and a[0] is b[0]
                and all(_eq(x, y) for x, y in zip(a[1:], b[1:])))
    return type(a) is type(b) and a == b


def _subst(t, b):
    if type(t) is str and t in VARS:
        return b[t]
    if _istask(t):
        return (t[0],) + tuple(_subst(a, b) for a in t[1:])
    return t


def _fresh(t):
    return (t[0],) + tuple(_fresh(a) for a in t[1:]) if _istask(t) else t


def _vars_of(t, out=None):
    out = set() if out is None else out
    if type(t) is str and t in VARS:
        out.add(t)
    elif _istask(t):
        for a in t[1:]:
            _vars_of(a, out)
    return out


def _preorder(t, out=None):
    out = [] if out is None else out
    if _istask(t):
        out.append(t[0])
        for a in t[1:]:
            _preorder(a, out)
    else:
        out.append(t)
    return out


def _arities(t, out):
    if _istask(t):
        out.setdefault(t[0], set()).add(len(t) - 1)
        for a in t[1:]:
            _arities(a, out)
    return out


def _show(t):
    if _istask(t):
        return "(%s)" % ", ".join([FNAME.get(t[0], "?")] + [_show(a) for a in t[1:]])
    return repr(t)


# --------------------------------------------------------------------------- rule sets
def _T(*a):
    return tuple(a)


HAND = [
    # the example of the RuleSet docstring
    [(_T(f, "x", 1), "x"), (_T(f, _T(g, "x"), "y"), _T(h, "x", "y"))],
    # repeated variable
    [(_T(f, "x", "x"), _T(g, "x"))],
    # overlapping rules of different generality, one arity per function
    [(_T(f, "x", "y"), _T(h, "y", "x")), (_T(f, "x", "x"), _T(g, "x")), (_T(f, 1, "x"), "x"), (_T(f, "x", 2), _T(g, "x")),
     (_T(f, 1, 2), "c")],
    # nested with repeated variables
    [(_T(f, _T(g, "x"), _T(g, "x")), _T(g, "x")), (_T(f, _T(g, "y"), _T(g, "x")), _T(f, "x", "y")),
     (_T(f, _T(g, "x"), "x"), 1)],
    # several arities of the same function
    [(_T(f, "x"), 1), (_T(f, "x", "y"), 2), (_T(f, 1, "x"), "x"), (_T(f, 1), "c")],
    [(_T(f, 1), 2), (_T(f, 1, "x"), "x")],
    [(_T(f, _T(g, "x", "x"), "y"), _T(h, "x")), (_T(f, _T(g, "x"), "y", "y"), _T(h, "y")), (_T(g, "x"), "x")],
    # bare variable / constant lhs, duplicate rule
    [("x", _T(h, "x")), (_T(g, "x"), "x"), (_T(g, "x"), _T(h, "x", "x"))],
    [(1, 2), ("c", _T(f, "c")), (_T(h, 1), 1)],
    # deep patterns, unary/binary only
    [(_T(h, _T(g, _T(g, "x")), "y"), _T(h, "x", "y")), (_T(h, _T(g, "x"), _T(g, "y")), _T(g, _T(h, "x", "y"))),
     (_T(h, "x", _T(g, "x")), "x"), (_T(g, _T(g, "x")), "x")],
    [(_T(f, "x", _T(f, "y", "x")), "y"), (_T(f, _T(f, "x", "y"), "x"), "x"), (_T(f, "x", _T(f, "x", "x")), 1)],
    [(_T(g, _T(f, "x", "y")), _T(f, _T(g, "x"), _T(g, "y"))), (_T(g, _T(f, "x", "x")), _T(g, "x")), (_T(g, 1), 1),
     (_T(g, _T(g, 1)), 2)],
]
NHAND = len(HAND)
# rule sets over the reduced alphabet {f,g} x {1,2} used with the complete depth-3 term space
HAND_R = [
    [(_T(f, "x", "x"), _T(g, "x")), (_T(f, _T(g, "x"), "y"), _T(f, "x", "y")), (_T(g, _T(g, "x")), "x")],
    [(_T(f, _T(f, "x", "y"), "x"), "y"), (_T(f, "x", _T(f, "y", "x")), _T(g, "y")), (_T(g, _T(f, "x", "x")), 1),
     (_T(f, _T(g, "x"), _T(g, "x")), "x")],
    [(_T(f, "x"), 1), (_T(f, "x", "y"), 2), (_T(g, _T(f, "x"), "y"), "x"), (_T(g, _T(f, "x", "y")), "y")],
    [(_T(f, _T(g, "x", "x"), "y"), "y"), (_T(f, _T(g, "x"), "y"), "x"), (_T(g, 1, "x"), "x"), (_T(g, "x", 2), _T(f, "x"))],
]


def _rand_pattern(rng, depth, funcs, consts, arities, pvar):
    if depth == 0 or rng.random() < 0.25:
        if rng.random() < pvar:
            return rng.choice(VARS)
        return rng.choice(consts)
    fn = rng.choice(funcs)
    ar = arities(fn) if callable(arities) else rng.choice(arities)
    return (fn,) + tuple(_rand_pattern(rng, depth - 1, funcs, consts, arities, pvar) for _ in range(ar))


def _rand_rhs(rng, lhs_vars, funcs, consts):
    atoms = sorted(lhs_vars) * 2 + list(consts)
    r = rng.random()
    if r < 0.3:
        return rng.choice(atoms)
    if r < 0.7:
        fn = rng.choice(funcs)
        return (fn,) + tuple(rng.choice(atoms) for _ in range(rng.choice((1, 2))))
    fn, fn2 = rng.choice(funcs), rng.choice(funcs)
    return (fn, (fn2,) + tuple(rng.choice(atoms) for _ in range(rng.choice((1, 2)))), rng.choice(atoms))


_RS_CACHE = {}


def _ruleset_spec(rs, reduced=False):
    """Deterministic description of rule set number rs: list of (lhs, rhs, callable_rhs)."""
    if not reduced and rs < NHAND:
        return [(l, r, i % 3 == 2) for i, (l, r) in enumerate(HAND[rs])], "hand"
    if reduced and rs < len(HAND_R):
        return [(l, r, i % 3 == 2) for i, (l, r) in enumerate(HAND_R[rs])], "hand"
    rng = random.Random(rs * 7919 + (13 if reduced else 0))
    funcs = (f, g) if reduced else FUNCS
    consts = (1, 2) if reduced else CONSTS
    fixed = rng.random() < 0.5
    if fixed:
        table = {fn: rng.choice((1, 2, 2)) for fn in funcs}
        arities = table.__getitem__
    else:
        arities = (1, 2, 2) if (reduced or rng.random() < 0.6) else (0, 1, 2, 2, 3)
    n = rng.randint(1, 5)
    rules = []
    while len(rules) < n:
        depth = rng.choice((1, 1, 2, 2, 3))
        lhs = _rand_pattern(rng, depth, funcs, consts, arities, 0.6)
        if not _istask(lhs) and rng.random() < 0.85:
            continue            # bare variable / constant lhs only occasionally
        if rules and rng.random() < 0.08:
            lhs = rules[-1][0]  # duplicate lhs
        rules.append((lhs, _rand_rhs(rng, _vars_of(lhs), funcs, consts), rng.random() < 0.2))
    return rules, "fixed-arity-gen" if fixed else "free-arity-gen"


def _ruleset(rs, reduced=False):
    key = (rs, reduced)
    if key not in _RS_CACHE:
        import dask.rewrite as dr

        spec, origin = _ruleset_spec(rs, reduced)
        rules = []
        for lhs, rhs, call in spec:
            if call:
                rules.append(dr.RewriteRule(lhs, (lambda sd, _rhs=rhs: _subst(_rhs, sd)), VARS))
            else:
                rules.append(dr.RewriteRule(lhs, rhs, VARS))
        ar = {}
        for lhs, _, _ in spec:
            _arities(lhs, ar)
        _RS_CACHE[key] = (dr.RuleSet(*rules), rules, spec, origin, ar)
    return _RS_CACHE[key]


# --------------------------------------------------------------------------- terms
_TERMS = {}


def _terms(reduced):
    """All terms of depth <= 2 (arity 1-2) over the (reduced) alphabet, in a fixed order."""
    if reduced not in _TERMS:
        funcs = (f, g) if reduced else FUNCS
        consts = (1, 2) if reduced else CONSTS
        level = list(consts)
        for _ in range(2):
            nxt = list(consts)
            for fn in funcs:
                nxt.extend((fn, a) for a in level)
                nxt.extend((fn, a, b) for a in level for b in level)
            level = nxt
        _TERMS[reduced] = level
    return _TERMS[reduced]


NSEEDED_Q, NSEEDED_T, NRED_T = 36, 108, 8
N2 = 3 + 3 * (39 + 39 * 39)          # 4683
N2R = 2 + 2 * (14 + 14 * 14)         # 422
N3R = 2 + 2 * (N2R + N2R * N2R)      # 357 294


def _term3(i):
    """i-th term of depth <= 3 over the reduced alphabet."""
    t2 = _terms(True)
    if i < 2:
        return (1, 2)[i]
    i -= 2
    per = N2R + N2R * N2R
    fn = (f, g)[i // per]
    r = i % per
    if r < N2R:
        return (fn, t2[r])
    r -= N2R
    return (fn, t2[r // N2R], t2[r % N2R])


def _rand_term(rng, depth, arities=(0, 1, 1, 2, 2, 3)):
    if depth == 0 or rng.random() < 0.3:
        return rng.choice(CONSTS)
    fn = rng.choice(FUNCS)
    return (fn,) + tuple(_rand_term(rng, depth - 1, arities) for _ in range(rng.choice(arities)))


def _near_instance(rng, spec):
    """An instance of some rule's lhs, possibly perturbed."""
    lhs = rng.choice(spec)[0]
    b = {v: _rand_term(rng, rng.choice((0, 0, 1, 2))) for v in VARS}
    mode = rng.choice(("instance", "instance", "break-repeat", "renest", "symbol", "extra-arg", "drop-arg"))
    if mode == "break-repeat":
        # substitute occurrences independently
        def sub(t):
            if type(t) is str and t in VARS:
                return b[t] if rng.random() < 0.5 else _rand_term(rng, 1)
            if _istask(t):
                return (t[0],) + tuple(sub(a) for a in t[1:])
            return t
        return sub(lhs), mode
    t = _subst(lhs, b)
    if mode == "instance" or not _istask(t):
        return t, "instance"
    if mode == "renest":
        # keep the preorder, change the nesting: move the last argument of the first task argument one level up,
        # or the following sibling into the task argument
        args = list(t[1:])
        for i, a in enumerate(args):
            if _istask(a) and len(a) > 1 and rng.random() < 0.5:
                args[i:i + 1] = [a[:-1], a[-1]]
                return (t[0],) + tuple(args), mode
            if _istask(a) and i + 1 < len(args):
                args[i:i + 2] = [a + (args[i + 1],)]
                return (t[0],) + tuple(args), mode
        return t, "instance"
    if mode == "symbol":
        pre = list(t[1:])
        if pre:
            i = rng.randrange(len(pre))
            pre[i] = _rand_term(rng, 1)
        return (rng.choice(FUNCS) if rng.random() < 0.3 else t[0],) + tuple(pre), mode
    if mode == "extra-arg":
        return t + (_rand_term(rng, 1),), mode
    return t[:-1], mode


# --------------------------------------------------------------------------- cases
def cases(tier, seed):
    rng = random.Random(seed * 15485863 + 51)
    thorough = tier == "thorough"
    nfixed = NHAND + (NSEEDED_T if thorough else NSEEDED_Q)
    for rs in range(nfixed):
        for t in range(N2):
            yield {"space": "exhaustive", "rs": rs, "t": t}
    if thorough:
        for rs in range(NRED_T):
            for t in range(N3R):
                yield {"space": "exhaustive", "rs": rs, "t3": t}
    k = 70000 if not thorough else 1200000
    for _ in range(k):
        # seeded rule sets beyond the fixed list as well
        rs = rng.randrange(nfixed) if rng.random() < 0.4 else rng.randrange(nfixed, 10 ** 6)
        yield {"rs": rs, "tseed": rng.randrange(2 ** 31)}


# --------------------------------------------------------------------------- run
_BOUND_CODES = None


def _codes():
    global _BOUND_CODES
    if _BOUND_CODES is None:
        import dask.rewrite as dr

        _BOUND_CODES = [dr._match.__code__]
    return _BOUND_CODES


def run_case(case, ctx):
    from vf.mon.steps import StepBoundExceeded, bounded

    reduced = "t3" in case
    rset, rules, spec, origin, rs_ar = _ruleset(case["rs"], reduced)
    if "t" in case:
        term, how = _terms(False)[case["t"]], "enum2"
    elif reduced:
        term, how = _term3(case["t3"]), "enum3"
    else:
        rng = random.Random(case["tseed"])
        if rng.random() < 0.75:
            term, how = _near_instance(rng, spec)
        else:
            term, how = _rand_term(rng, rng.choice((1, 2, 3, 4, 5))), "random"
    term = _fresh(term)      # equal subterms are distinct objects: equality, not identity, must decide repeated variables
    ctx.op("term:" + how)
    ctx.op("ruleset:" + origin)

    # ---- harness facts -------------------------------------------------------------------
    expected = {}                               # rule index -> bindings
    for i, (lhs, rhs, call) in enumerate(spec):
        b = _match(lhs, term, {})
        if b is not None:
            expected[i] = b
    ar = {k: set(v) for k, v in rs_ar.items()}
    _arities(term, ar)
    afeat = "mixed-arity" if any(len(v) > 1 for v in ar.values()) else "fixed-arity"
    ctx.op(afeat)
    nlines = 2000 + 400 * (len(_preorder(term)) + 1) * (sum(len(_preorder(s[0])) for s in spec) + 1)
    info = {"term": _show(term), "rules": ["%s -> %s%s" % (_show(l), _show(r), " (callable rhs)" if c else "") for l, r, c in spec],
            "oracle_matches": {str(i): {k: _show(v) for k, v in b.items()} for i, b in expected.items()}}

    # ---- iter_matches ------------------------------------------------------------------------
    ctx.count("iter_matches_calls")
    yielded, complete = [], False          # what was yielded before an exception is checked as well
    try:
        with bounded(_codes(), nlines):
            for item in rset.iter_matches(term):
                yielded.append(item)
        complete = True
    except StepBoundExceeded:
        ctx.violation("iter_matches:%s:nontermination" % afeat, "more than %d lines in _match" % nlines, **info)
    except Exception as e:  # noqa: BLE001
        ctx.exception(e, prefix="iter_matches:%s" % afeat, **info)
    spurious_results = []
    if True:
        got = []
        for item in yielded:
            try:
                rule, sd = item
                idx = next(i for i, r in enumerate(rules) if r is rule)
            except Exception:  # noqa: BLE001
                ctx.violation("iter_matches:%s:yielded-not-a-rule-of-the-set" % afeat, repr(item)[:300], **info)
                continue
            got.append(idx)
            lhs, rhs, _ = spec[idx]
            ctx.count("yielded_checked")
            lv = _vars_of(lhs)
            ok_keys = isinstance(sd, dict) and set(sd) == lv
            inst = None
            if ok_keys:
                inst = _subst(lhs, sd)
            if ok_keys and _eq(inst, term):
                ctx.count("sound_yields")
                if idx not in expected:          # cannot happen if _match and _subst agree; a harness self-check
                    raise AssertionError("harness matcher disagrees with its own substitution")
                continue
            # a yielded pair whose substituted lhs is not the term
            if not ok_keys:
                sym = "bindings-not-the-lhs-variables"
            elif _preorder(inst) == _preorder(term):
                sym = "same-preorder-different-nesting"
            elif len(_preorder_vars(lhs)) > len(lv):
                sym = "repeated-variable-bound-inconsistently" if _match_linear(lhs, term) else "other"
            else:
                sym = "other"
            ctx.violation("iter_matches:%s:spurious-match:%s" % (afeat, sym),
                          "yielded rule %d (%s) with %s; substituted lhs = %s, term = %s"
                          % (idx, _show(lhs), {k: _show(v) for k, v in sd.items()} if isinstance(sd, dict) else sd,
                             _show(inst) if inst is not None else None, _show(term)), **info)
            if ok_keys:
                try:
                    spurious_results.append((_subst(rhs, sd), sym))
                except Exception:  # noqa: BLE001
                    pass
        for i in expected:
            if complete and i not in got:
                rep = len(_preorder_vars(spec[i][0])) > len(_vars_of(spec[i][0]))
                ctx.violation("iter_matches:%s:missed-match:%s" % (afeat, "lhs-with-repeated-variable" if rep else "linear-lhs"),
                              "rule %d (%s) matches %s with %s but was not yielded (yielded: %r)"
                              % (i, _show(spec[i][0]), _show(term), {k: _show(v) for k, v in expected[i].items()}, got), **info)
        if len(got) != len(set(got)):
            ctx.violation("iter_matches:%s:rule-yielded-twice" % afeat, "yielded rule indices %r" % (got,), **info)
        ctx.count("matches_expected", len(expected))
        if not expected:
            ctx.count("nonmatching_terms")

    # ---- rewrite, top level --------------------------------------------------------------------
    ctx.count("rewrite_calls")
    try:
        with bounded(_codes(), nlines):
            out = rset.rewrite(term, strategy="top_level")
    except StepBoundExceeded:
        ctx.violation("rewrite-top_level:%s:nontermination" % afeat, "more than %d lines in _match" % nlines, **info)
        out = _FAILED
    except Exception as e:  # noqa: BLE001
        ctx.exception(e, prefix="rewrite-top_level:%s" % afeat, **info)
        out = _FAILED
    if out is not _FAILED:
        allowed = [_subst(spec[i][1], b) for i, b in expected.items()]
        if any(_eq(out, a) for a in allowed):
            ctx.count("rewrite_applied_matching_rule")
        elif not expected and _eq(out, term):
            ctx.count("rewrite_left_unchanged")
        else:
            via = [s for r, s in spurious_results if _eq(out, r)]
            if via:
                sym = "applied-spurious-match:" + via[0]
            elif expected and _eq(out, term):
                sym = "unchanged-although-a-rule-matches"
            elif not expected:
                sym = "changed-although-no-rule-matches"
            else:
                sym = "result-is-no-rhs-instance-of-a-matching-rule"
            ctx.violation("rewrite-top_level:%s:%s" % (afeat, sym),
                          "rewrite(%s) = %s; rhs-instances of the matching rules: %s"
                          % (_show(term), _show(out), [_show(a) for a in allowed]), **info)

    ctx.nontrivial = bool(expected) or bool(yielded)
    ctx.sig = (case["rs"], reduced, _show(term))
    if expected:
        ctx.count("fixed_arity_matching_terms" if afeat == "fixed-arity" else "mixed_arity_matching_terms")
        ctx.distinct("matching_rule_sets", (case["rs"], reduced))
        if len(expected) > 1:
            ctx.count("terms_with_several_matching_rules")
        if any(len(_preorder_vars(spec[i][0])) > len(_vars_of(spec[i][0])) for i in expected):
            ctx.count("repeated_variable_matches")
    ctx.sample = {"term": _show(term), "rules": info["rules"], "matching": sorted(expected),
                  "rewritten": None if out is _FAILED else _show(out)}


_FAILED = object()


def _preorder_vars(t):
    return [a for a in _preorder(t) if type(a) is str and a in VARS]


def _match_linear(pat, term):
    """Does pat match term when every variable occurrence is treated as a fresh variable?"""
    if type(pat) is str and pat in VARS:
        return True
    if _istask(pat):
        return (_istask(term) and len(pat) == len(term) and pat[0] is term[0]
                and all(_match_linear(p, t) for p, t in zip(pat[1:], term[1:])))
    return not _istask(term) and type(pat) is type(term) and pat == term
